#!/usr/bin/env python3
"""Property-preserving changes (/verif/benign/<id>/patch.diff): every check must stay silent on them.
usage: tools_benign.py [ids...]  - applies each patch to /repo, runs all 18 quick checks, undoes the patch."""
import json, os, subprocess, sys, time

B = "/verif/benign"
ALL = [f"C{i:02d}" for i in range(1, 19)]

def sh(cmd, cwd=None):
    p = subprocess.run(cmd, shell=True, cwd=cwd, capture_output=True, text=True)
    return p.returncode, p.stdout + p.stderr

def main():
    ids = sys.argv[1:] or sorted(d for d in os.listdir(B) if os.path.isdir(f"{B}/{d}"))
    for i in ids:
        d = f"{B}/{i}"
        rc, out = sh("git -C /repo status --porcelain --untracked-files=no")
        assert out.strip() == "", "/repo has local modifications: " + out
        rc, out = sh(f"git -C /repo apply {d}/patch.diff")
        assert rc == 0, out
        res = {}
        try:
            rc, out = sh("cargo test --workspace --no-fail-fast --offline 2>&1 | grep -E '^test result|FAILED|failed' | head -20", cwd="/repo")
            res["suite"] = "pass" if "FAILED" not in out and "failed;" not in out.replace("0 failed;", "") else out[-400:]
            for c in ALL:
                t = time.time()
                rc, out = sh(f"/verif/check {c} --tier quick", cwd="/verif")
                first = next((l.strip() for l in out.splitlines() if l.strip().startswith("violation:")), "")
                mach = next((l.strip() for l in out.splitlines() if l.startswith("MACHINERY")), "")
                res[c] = {"exit": rc, "first": first[:400], "machinery": mach[:300], "wall_s": round(time.time() - t, 1)}
                print(i, c, "exit", rc, (first or mach)[:200], flush=True)
        finally:
            sh("git -C /repo checkout -- .")
            sh("git -C /repo clean -fdq -- src scripts")
            sh("git -C /verif checkout -- evidence")
        json.dump(res, open(f"{d}/result.json", "w"), indent=1)
        alarms = [c for c in ALL if res.get(c, {}).get("exit") != 0]
        print(i, "ALARMS:", alarms, flush=True)

if __name__ == "__main__":
    main()
