#!/usr/bin/env python3-vt
# validate MANIFEST.json and evidence/*.json against the schemas in /root/.vp
import json, sys, glob, jsonschema
ok = True
def check(path, schema):
    global ok
    try:
        jsonschema.validate(json.load(open(path)), json.load(open(schema)))
        print("valid  ", path)
    except Exception as e:
        ok = False
        print("INVALID", path, str(e)[:300])
import os
if os.path.exists('/verif/MANIFEST.json'):
    check('/verif/MANIFEST.json', '/root/.vp/MANIFEST.schema.json')
for p in sorted(glob.glob('/verif/evidence/*.json')):
    check(p, '/root/.vp/EVIDENCE.schema.json')
sys.exit(0 if ok else 1)
