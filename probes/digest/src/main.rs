//! Prints a digest of (result class, consumed bytes, Debug text) per parse entry point over a fixed
//! differential corpus. Built once per feature configuration of tls-parser; outputs must be equal.
use tls_parser::nom::{Err, IResult};
use tls_parser::*;
use vcommon::catalogue as cat;
use vcommon::en::{deviations, W};
use vcommon::report::fnv;

fn digest<T: std::fmt::Debug>(h: &mut u64, input: &[u8], r: IResult<&[u8], T>) {
    let s = match r {
        Ok((rem, v)) => format!("Ok {} {:?}", input.len() - rem.len(), v),
        Err(Err::Incomplete(n)) => format!("Incomplete {:?}", n),
        Err(Err::Error(e)) => format!("Error {:?}", e.code),
        Err(Err::Failure(e)) => format!("Failure {:?}", e.code),
    };
    *h = fnv(*h, s.as_bytes());
}

fn corpus(ws: Vec<W>, f: &mut dyn FnMut(&[u8])) -> u64 {
    let sfx: Vec<Vec<u8>> = vec![vec![0], vec![0xff, 0xff, 0xff]];
    let mut n = 0;
    for w in ws {
        deviations(&w, 1, &sfx, 40, &mut |_, b| {
            n += 1;
            f(b)
        });
    }
    n
}

fn main() {
    let mut total = 0u64;
    macro_rules! run {
        ($label:expr, $ws:expr, $($name:ident),+) => {{
            $( let mut $name = 0u64; )+
            let n = corpus($ws, &mut |b| { $( digest(&mut $name, b, tls_parser::$name(b)); )+ });
            $( println!("entry {} {:016x} {}", stringify!($name), $name, n); )+
            total += n;
            let _ = $label;
        }};
    }
    run!("records", cat::tls_records(2, false), parse_tls_plaintext, parse_tls_raw_record, parse_tls_encrypted, tls_parser_many);
    run!("handshake", cat::handshake_messages(false), parse_tls_message_handshake);
    run!("extensions", cat::known_extensions(), parse_tls_extension, parse_tls_client_hello_extension, parse_tls_server_hello_extension, parse_tls_extensions, parse_tls_extension_sni, parse_tls_extension_supported_versions);
    run!("text extensions", cat::text_extensions(), parse_tls_extension, parse_tls_extensions, parse_tls_extension_sni);
    run!("oid filters", cat::oid_filter_extensions().into_iter().step_by(5).collect(), parse_tls_extension);
    run!("hellos with extension lists", cat::hellos_with_extension_lists().into_iter().filter(|w| w.lens.first().map_or(false, |l| l.label == "hs_len")).collect(), parse_tls_message_handshake);
    run!("magic hellos", cat::magic_hellos().into_iter().filter(|w| w.lens.first().map_or(false, |l| l.label == "hs_len")).collect(), parse_tls_message_handshake);
    run!("many", cat::extension_lists_many().into_iter().take(4).collect(), parse_tls_extensions, parse_tls_client_hello_extensions);
    // extension lists longer than 2^16 bytes (an offset or a count kept in 16 bits differs between implementations)
    run!("long lists", [16384usize, 16385, 20000].iter().map(|&n| { let mut w = W::new(); for i in 0..n { w.bytes(&[0x00, if i % 2 == 0 { 0x17 } else { 0x16 }, 0x00, 0x00]); } w }).collect(), parse_tls_extensions, parse_tls_client_hello_extensions, parse_tls_server_hello_extensions);
    run!("foreign", cat::foreign_protocols().into_iter().step_by(9).map(|b| { let mut w = W::new(); w.bytes(&b[..b.len().min(1500)]); w }).collect(), parse_tls_plaintext, parse_tls_raw_record);
    run!("dtls records", cat::dtls_records(), parse_dtls_plaintext_record, parse_dtls_plaintext_records);
    run!("dtls handshake", cat::dtls_handshake_messages(), parse_dtls_message_handshake);
    run!("dh", cat::dh_params(false), parse_dh_params);
    run!("ecdh", cat::ecdh_params(), parse_ecdh_params, parse_ec_parameters);
    run!("signatures", cat::signatures(true, false), parse_digitally_signed, parse_digitally_signed_old);
    run!("sct", cat::sct_lists(false), parse_ct_signed_certificate_timestamp_list, parse_ct_signed_certificate_timestamp);

    // static registries and formatting
    let mut h = 0u64;
    for id in 0..=65535u32 {
        let id = id as u16;
        let s = format!("{:?} {:?} {} {:?}", TlsCipherSuite::from_id(id), TlsCipherSuiteID(id), TlsExtensionType(id), NamedGroup(id).key_bits());
        h = fnv(h, s.as_bytes());
    }
    for name in ["TLS_ECDHE_RSA_WITH_AES_128_GCM_SHA256", "TLS_AES_128_GCM_SHA256", "nope", ""] {
        h = fnv(h, format!("{:?}", TlsCipherSuite::from_name(name)).as_bytes());
    }
    println!("entry registries {:016x} 65536", h);
    total += 65536;

    // defragmenter on a few histories
    let mut h = 0u64;
    let pieces: [&[u8]; 6] = [&[0x0e], &[0x00, 0x00], &[0x02, 0xaa], &[0xbb], &[], &[0x00, 0x00, 0x00, 0x00]];
    for a in 0..6 {
        for b in 0..6 {
            for c in 0..6 {
                let mut p = TlsRecordsParser::default();
                for k in [a, b, c] {
                    let r = TlsRawRecord { hdr: TlsRecordHeader { record_type: TlsRecordType(0x16), version: TlsVersion(0x0303), len: pieces[k].len() as u16 }, data: pieces[k] };
                    let s = match p.parse_record(r) {
                        Ok((rem, v)) => format!("Ok {} {:?}", rem.len(), v),
                        Err(e) => format!("{:?}", e.map(|e| e.code)),
                    };
                    h = fnv(h, s.as_bytes());
                    h = fnv(h, &[p.defrag_in_progress() as u8]);
                }
            }
        }
    }
    println!("entry defragmenter {:016x} 216", h);

    // public constants and the behaviour at the documented size limits
    println!("entry constants {:016x} 2", fnv(0, format!("{} {}", MAX_RECORD_LEN, MAX_RECORD_DATA).as_bytes()));
    let mut h = 0u64;
    let mut first = vec![0x0e, 0xff, 0xff, 0xff];
    first.resize(16640, 0x5a);
    let cont = vec![0xa5u8; 16640];
    let mut p = TlsRecordsParser::default();
    let mut steps = 0u64;
    for k in 0..640 {
        let data: &[u8] = if k == 0 { &first } else { &cont };
        let r = TlsRawRecord { hdr: TlsRecordHeader { record_type: TlsRecordType(0x16), version: TlsVersion(0x0303), len: 16640 }, data };
        let s = match p.parse_record(r) {
            Ok(_) => "Ok".to_string(),
            Err(e) => format!("{:?}", e.map(|e| e.code)),
        };
        h = fnv(h, s.as_bytes());
        h = fnv(h, &[p.defrag_in_progress() as u8]);
        steps += 1;
    }
    println!("entry defragmenter_size_cap {:016x} {}", h, steps);
    // the record length cap on all three framers
    let mut h = 0u64;
    for len in [16639usize, 16640, 16641, 65535] {
        let mut b = vec![0x17, 3, 3, (len >> 8) as u8, len as u8];
        b.resize(5 + len, 7);
        h = fnv(h, format!("{:?}", parse_tls_raw_record(&b).map(|x| x.1.data.len()).map_err(|e| e.map(|e| e.code))).as_bytes());
        h = fnv(h, format!("{:?}", parse_tls_encrypted(&b).map(|x| x.1.msg.blob.len()).map_err(|e| e.map(|e| e.code))).as_bytes());
        h = fnv(h, format!("{:?}", parse_tls_plaintext(&b).map(|x| x.1.msg.len()).map_err(|e| e.map(|e| e.code))).as_bytes());
    }
    println!("entry record_length_cap {:016x} 12", h);
    total += 2 + steps + 12;
    println!("total {}", total + 216);
}
