/* LD_PRELOAD shim that lets the C18 check own the ambient sources of nondeterminism of a probe run:
 * every clock reading advances by FAKE_CLOCK_STEP_S seconds (default one hour), OS randomness is a fixed
 * function of FAKE_RANDOM_SEED. A parser whose results are a function of its input does not notice. */
#define _GNU_SOURCE
#include <stdlib.h>
#include <sys/time.h>
#include <sys/types.h>
#include <time.h>

static long long calls = 0;

static long long now_s(void) {
    const char *s = getenv("FAKE_CLOCK_STEP_S");
    long long st = s ? atoll(s) : 3600;
    return 1700000000LL + __atomic_add_fetch(&calls, 1, __ATOMIC_RELAXED) * st;
}

int clock_gettime(clockid_t id, struct timespec *ts) {
    (void)id;
    if (ts) {
        ts->tv_sec = now_s();
        ts->tv_nsec = 0;
    }
    return 0;
}

int gettimeofday(struct timeval *tv, void *tz) {
    (void)tz;
    if (tv) {
        tv->tv_sec = now_s();
        tv->tv_usec = 0;
    }
    return 0;
}

time_t time(time_t *t) {
    time_t v = (time_t)now_s();
    if (t)
        *t = v;
    return v;
}

ssize_t getrandom(void *buf, size_t len, unsigned flags) {
    (void)flags;
    const char *s = getenv("FAKE_RANDOM_SEED");
    unsigned x = s ? (unsigned)atoi(s) : 0;
    unsigned char *p = buf;
    for (size_t i = 0; i < len; i++)
        p[i] = (unsigned char)(x * 31u + i * 7u + 1u);
    return (ssize_t)len;
}

int getentropy(void *buf, size_t len) {
    return getrandom(buf, len, 0) == (ssize_t)len ? 0 : -1;
}
