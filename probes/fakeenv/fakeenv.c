/* LD_PRELOAD shim that lets the C18 check own the ambient sources of nondeterminism of a probe run:
 * every clock reading advances by FAKE_CLOCK_STEP_S seconds (default one hour), OS randomness is a fixed
 * function of FAKE_RANDOM_SEED. A parser whose results are a function of its input does not notice. */
#define _GNU_SOURCE
#include <stdlib.h>
#include <sys/time.h>
#include <sys/types.h>
#include <time.h>

static long long calls = 0;

static long long now_s(void) {
    const char *s = getenv("FAKE_CLOCK_STEP_S");
    long long st = s ? atoll(s) : 3600;
    return 1700000000LL + __atomic_add_fetch(&calls, 1, __ATOMIC_RELAXED) * st;
}

int clock_gettime(clockid_t id, struct timespec *ts) {
    (void)id;
    if (ts) {
        ts->tv_sec = now_s();
        ts->tv_nsec = 0;
    }
    return 0;
}

int gettimeofday(struct timeval *tv, void *tz) {
    (void)tz;
    if (tv) {
        tv->tv_sec = now_s();
        tv->tv_usec = 0;
    }
    return 0;
}

time_t time(time_t *t) {
    time_t v = (time_t)now_s();
    if (t)
        *t = v;
    return v;
}

ssize_t getrandom(void *buf, size_t len, unsigned flags) {
    (void)flags;
    const char *s = getenv("FAKE_RANDOM_SEED");
    unsigned x = s ? (unsigned)atoi(s) : 0;
    unsigned char *p = buf;
    for (size_t i = 0; i < len; i++)
        p[i] = (unsigned char)(x * 31u + i * 7u + 1u);
    return (ssize_t)len;
}

/* Environment variables: with FAKE_ENV_VALUE set, every variable the program asks for by name has that value,
 * except the shim's own FAKE_* variables and the ones the language runtimes and the C library consult themselves. */
#include <dlfcn.h>
#include <string.h>
static int runtime_var(const char *n) {
    static const char *pre[] = {"FAKE_", "RUST_", "RUSTC_", "CARGO", "LD_", "MALLOC_", "GLIBC_", "LC_", "LANG", "TZ", "HOME", "PATH", "TMPDIR", "TERM",
                                "USER", "SHELL", "PWD", "HOSTNAME", "NO_COLOR", "CLICOLOR", "COLORTERM", "LOGNAME", "MAIL", "OLDPWD", "SHLVL", "_", NULL};
    for (int i = 0; pre[i]; i++)
        if (strncmp(n, pre[i], strlen(pre[i])) == 0)
            return 1;
    return 0;
}
char *getenv(const char *name) {
    static char *(*real)(const char *) = 0;
    if (!real)
        real = (char *(*)(const char *))dlsym(RTLD_NEXT, "getenv");
    if (name && !runtime_var(name)) {
        char *v = real ? real("FAKE_ENV_VALUE") : 0;
        if (v)
            return v;
    }
    return real ? real(name) : 0;
}
char *secure_getenv(const char *name) {
    return getenv(name);
}

int getentropy(void *buf, size_t len) {
    return getrandom(buf, len, 0) == (ssize_t)len ? 0 : -1;
}
