#!/usr/bin/env python3
# Generates /verif/MANIFEST.json from the table below (kept in one place so it stays consistent).
import json, subprocess

def hook_commits():
    out = subprocess.run(["git","-C","/repo","log","--format=%H %s"],capture_output=True,text=True).stdout
    return [l.split()[0] for l in out.splitlines() if "verif hook" in l]

CHECKS = {
 # id: (built, category, technique, text, note, design_ref)
 "C08": (True, "model_checking",
   "explicit-state BFS of the product (real transition function x flow NFA) to fixpoint + exhaustive cell sweep",
   "Every one of the 25x2x(kinds x payload variants + 65536 alerts) cells of tls_state_transition is executed and compared with an independently transcribed table; the product of the real function with the flow automaton is explored to fixpoint, so acceptance is decided for all finite message sequences (language equivalence with the documented flows), shortest counterexample first.",
   "Trusted: the reference table / flow grammar (DESIGN appendix A), cross-checked against each other on every run; message payload variation limited to 3-4 variants per kind (all 65536 alerts).",
   "DESIGN.md section 3 C08, appendix A"),
 "C17": (True, "exploration",
   "complete finite-domain sweep (all 256 / 65536 values of each registry type) against independently transcribed IANA tables, in two builds of the crate (std+serialize and all cargo features); constants discovered from the source are read through a generated probe",
   "Every value of the domain of each of the 18 registry newtypes and of the cipher-suite id type is formatted and converted, and every named constant is compared with the IANA value (constants the check does not reference by name are found by scanning the sources, read through a generated probe and judged against the official IANA names); the space is finite and enumerated completely, so within the trusted tables this is a decision, not a sample.",
   "Trusted: the hand-transcribed IANA tables (vcommon/src/reference/iana.rs). Constants found in the crate's sources without a table entry are reported in the evidence and not judged.",
   "DESIGN.md section 3 C17"),
 "C12": (True, "exploration",
   "complete finite-domain sweep: all 65536 ids x 4 lookup routes, 352 rows x 10 columns, all names with single-edit / token-edit / alias perturbations, all strings of length <= 5 [6] over the name alphabet",
   "The id space, the registry table, the single-edit and token-edit neighbourhood of every registry name and all short strings over [A-Z0-9_] (bare and behind TLS_) are finite and enumerated completely against an independent reading of scripts/tls-ciphersuites.txt, a committed snapshot of today's assignments and the IANA naming convention.",
   "Trusted: scripts/tls-ciphersuites.txt as the reference registry, the committed snapshot, the token tables in vcommon/src/reference/ciphers.rs (names with unknown tokens are counted, not judged).",
   "DESIGN.md section 3 C12"),
 "C07": (True, "model_checking",
   "explicit-state BFS over operation sequences on the real TlsRecordsParser (canonical-state dedup incl. a digest of the object's Debug text, witness-history replay) against an accumulate-then-parse reference",
   "All operation sequences over a 19-record alphabet x {parse_record, parse_record_nocopy} + reset up to the stated depth, all k-way splits (incl. empty fragments and cuts inside the header) of every catalogue payload interleaved with foreign-type records / nocopy / reset to fixpoint, the 10 MiB cap histories, fixed split histories under every record-layer version (all 65536 values on each single record and on all records) and hand-built first fragments of about 10 MiB and single operations repeated up to 70000 times inside a defragmentation are executed on the real object; every transition is compared with the reference model (value with slice provenance, in-progress flag, buffer, state preservation on refusals).",
   "Trusted: parse_tls_record_with_header as the inner one-shot oracle (its correctness is C03/C04); payloads <= 45 bytes; S0 depth bound as reported in the evidence (5 quick / 8 thorough). Thorough tier: state counts cross-checked with an independent stateright BFS over the same transition function.",
   "DESIGN.md section 3 C07"),
 "C02": (True, "exploration",
   "bounded-exhaustive enumeration of the header space (type x declared length x version x cut point) and of record payloads over positional alphabets, against a reference framing function",
   "Complete sweeps of the 5-byte header fields (all declared lengths, all types, all versions) at every characteristic cut point, every prefix of boundary-length records, and every payload string up to the stated length per content type; the streaming contract (Incomplete iff strict prefix, exact Needed), the cap and exact consumption are decided for each.",
   "Trusted: the 10-line reference framing in c02.rs and the strict walker for the envelope-only parsers. Payload space is bounded (alphabet and length reported in the evidence); quick tier thins the (type x length) product as stated in its rule.",
   "DESIGN.md section 3 C02"),
 "C03": (True, "exploration",
   "bounded-exhaustive small-scope enumeration: catalogue of records x all combinations of <= d deviations, complete 1-D sweeps, all payload strings over positional alphabets, against a strict reference record walker",
   "Every record of a small-scope catalogue (all content types, 1..4 messages) with every single (quick) / double (thorough) deviation, all 256 content types, all 65536 alerts, all heartbeat types and every payload string up to the stated length is parsed one-step and two-step and compared with an independent strict decoder (values with slice positions, consumption, rejection rules) and with each other.",
   "Trusted: the strict walkers (vcommon/src/reference/wire.rs, DESIGN appendix D), calibrated on every run against the undeviated catalogue. Inputs the grammar leaves open are classified Unspecified and only checked for agreement between one-step and two-step parsing.",
   "DESIGN.md section 3 C03, appendix D"),
 "C04": (True, "exploration",
   "bounded-exhaustive small-scope enumeration: catalogue of the 17 handshake variants x all combinations of <= d deviations, complete 1-D field sweeps, positional-alphabet strings and hello frames, against strict reference walkers",
   "Every catalogue message (boundary domains of every field) with every single (quick) / double (thorough) lying length, cut and suffix is parsed at message level and through each pub body parser; enumerated fields are swept over their complete domains; all strings up to the stated length over positional alphabets and all hello tails are covered. Values are compared field by field including slice positions; the named rejection rules must reject.",
   "Trusted: strict walkers (DESIGN appendix D). Encodings the grammar leaves open are Unspecified and not compared. Bounds (alphabets, lengths, deviation count) are reported in the evidence.",
   "DESIGN.md section 3 C04, appendix D"),
 "C05": (True, "exploration",
   "complete sweep of all 65536 extension types x content catalogue through all 22 extension parsers, plus small-scope enumeration of contents and lists with deviations, against an IANA-keyed reference decoder",
   "All 65536 types are pushed through the three dispatchers, the unknown parser and the 16 tag-specific parsers; every known type's well-formed contents with every deviation, every content string up to the stated length and every list of <= k catalogue extensions are decoded and compared with the reference; tag == wire type, pairwise dispatcher agreement and tag-parser exclusivity are checked on every case.",
   "Trusted: reference extension grammar (DESIGN appendix D) and the RFC 8701 GREASE set. Which known types the client/server dispatchers decode is not prescribed (undecoded known types must be preserved as Unknown).",
   "DESIGN.md section 3 C05, appendix D"),
 "C10": (True, "exploration",
   "complete sweeps of the DTLS record and handshake header fields plus small-scope enumeration of bodies with deviations, against reference framing and strict DTLS walkers",
   "All types, epochs, versions, declared lengths (at every characteristic cut point), sequence-number byte and bit patterns, the (length, offset, fragment length) boundary cube, all message_seq values and cookie lengths are enumerated; every catalogue message / record with every deviation is compared with the strict walker; the is_fragment() predicate and the 13-byte streaming contract are checked on each case.",
   "Trusted: reference framing in c10.rs and strict DTLS walkers (DESIGN appendix D). 48-bit sequence numbers are covered by byte/bit-pattern families, the 24-bit offset completely only in the thorough tier.",
   "DESIGN.md section 3 C10, appendix D"),
 "C13": (True, "exploration",
   "bounded-exhaustive small-scope enumeration with deviations + complete sweeps of enumerated fields, against strict walkers",
   "DH / EC / ECDH parameters, EC points of every length, both DigitallySigned forms and content+signature pairs under both flag values are enumerated with every deviation; all named groups, curve types and algorithm pairs are swept completely; every short string over a small alphabet goes through each of the 12 entry points.",
   "Trusted: strict walkers (DESIGN appendix D). Field contents are patterns; lengths cover the boundary values stated in the evidence.",
   "DESIGN.md section 3 C13"),
 "C14": (True, "exploration",
   "bounded-exhaustive small-scope enumeration of SCT entries and lists with deviations on the three nested length prefixes, complete field sweeps, framed tails, against a strict RFC 6962 walker",
   "Every catalogue entry / list with every single (quick) or double (thorough) lying length, cut and suffix, all versions and algorithm pairs, timestamp bit/byte patterns and every tail behind a well-formed SCT prefix are decoded and compared; malformed lists may only yield the entries before the first bad one, all inside the declared list.",
   "Trusted: strict walker (DESIGN appendix D); 64-bit timestamps by pattern families.",
   "DESIGN.md section 3 C14"),
 "C16": (True, "exploration",
   "bounded-exhaustive enumeration of record concatenations x terminators and of strings over record-oriented alphabets; differential oracle = explicit loop over the real single-record parser",
   "Every concatenation of 0..k catalogue records followed by every terminator class, buffers of up to 1000 minimal and up to 1025 [2049] full-size records (total size across 10 MiB and 2^24), and every string up to the stated length over record-oriented alphabets, is parsed by the multi-record parsers and by an explicit loop over the single-record parser; records, stop position and failure condition must coincide; the deprecated alias must equal parse_tls_plaintext on every buffer.",
   "Trusted: the single-record parsers (decided by C02/C03/C10).",
   "DESIGN.md section 3 C16"),
 "C11": (True, "exploration",
   "complete finite-domain sweep: every value of each enumerated wire field inside an otherwise well-formed structure, against strict walkers",
   "For each of ~38 enumerated fields that do not select the structure being parsed, all 256 / 65536 values are placed in a well-formed enclosing structure and parsed through every entry point exposing the field; the decoded value must equal the reference decode, so the field is preserved and nothing else changes. The domains are finite and enumerated completely.",
   "Trusted: strict walkers; the list of fields (evidence key 'fields') follows the property statement. Selector fields are excluded as the statement says.",
   "DESIGN.md section 3 C11"),
 "C15": (True, "exploration",
   "bounded-exhaustive enumeration of parsed and constructed hello values (catalogue hellos, all random lengths 0..40, leading-word pattern sweeps, cipher lists covering all 65536 ids)",
   "Every accessor / helper of the ClientHello trait (TLS and DTLS), the constructors and getters are evaluated on all catalogue hellos, on constructed values with every random length, on complete half-word sweeps and bit patterns of the leading random word and on cipher lists covering the whole id space, and compared with the structure's own fields and the registry.",
   "Trusted: the registry file for listed ids. The 2^32 leading words are covered by two complete 2^16 half-word sweeps plus bit patterns, not completely.",
   "DESIGN.md section 3 C15"),
 "C09": (True, "exploration",
   "bounded-exhaustive enumeration of a small-scope catalogue of serializable values, records, parsed records and extension lists; round-trip laws checked against the real parser and an independent strict walker",
   "Every catalogue value (boundary sizes of every variable-length field incl. 32767 ciphers, 255 compressions, 65535-byte extension block; all record versions; all max_fragment_length codes; a sweep of named groups), every record of 1..3 small messages, every serializable parsed record of the C03 catalogue and every unsupported variant is serialized; bytes must be accepted by the strict walker (all length fields), parse back completely to the value, re-serialize identically; unsupported values must give NotYetImplemented.",
   "Trusted: strict walkers; two normalisations permitted as the statement says (absent extension block may read back empty; Dh/Ecdh read back as opaque).",
   "DESIGN.md section 3 C09"),
 "C01": (True, "exploration",
   "bounded-exhaustive enumeration of inputs for every public parse entry point (catalogue x deviations, positional-alphabet strings, all short byte strings, large inputs) and explicit-state exploration of defragmenter histories, under panic / watchdog / per-call heap monitors with overflow checks and debug assertions on",
   "Each of the 88 registered entry points (checked against a scan of pub fn parse_* in the sources) is executed on every input of its bounded spaces and every returned value is Debug-formatted; a panic, arithmetic overflow, failed debug assertion, watchdog expiry or a per-call heap peak above 64 KiB + 1024 x input length is a violation; the defragmenter exploration of C07 runs under the same monitors.",
   "Bounded input spaces (reported in the evidence); stack depth is guarded, not measured; heap measured at allocator level per thread.",
   "DESIGN.md section 3 C01"),
 "C06": (True, "exploration",
   "bounded-exhaustive enumeration with a reference-free relational oracle: f(b) vs f(b[..consumed]) vs f(b||x) for up to 14 suffixes (incl. 70000 bytes), slice positions inside the consumed prefix; defragmenter provenance via the C07 exploration",
   "For each of 43 self-delimiting parsers every catalogue encoding with every deviation (lying lengths incl. +256 / +65536 / top bit), the same encodings under foreign outer headers (DER, length prefixes, record / handshake / extension headers) and every bounded string is parsed alone, cut to its consumed length and extended by the suffixes (including a copy of itself and valid structures); the value, the consumption and the outcome class must not change and every slice must lie inside the consumed prefix of the caller's buffer; for structures that carry their total length up front, the outcome on exactly the declared bytes equals the outcome with more bytes and no more than the declared bytes are consumed; accepted encodings are also parsed inside a buffer of 2^32 + k bytes; defragmented results must borrow from the internal buffer, others from the record.",
   "Reference-free (no walker trusted); suffix set fixed; bounded input spaces as reported.",
   "DESIGN.md section 3 C06"),
 "C18": (True, "exploration",
   "complete enumeration of the 4-element feature-set space (builds from the working tree), differential digests of a probe built per configuration (also under an LD_PRELOAD shim owning clock, OS randomness and environment variables), -F unsafe_code rebuilds + token scan of the sources and of the macro-expanded crate, compile-time Send/Sync probe",
   "All four feature sets are built on every run; the three buildable ones must build (also with -F unsafe_code) and their macro-expanded text may contain `unsafe` only in the marker impls of core's built-in derives, the fourth must fail with the compile_error text; a probe crate prints per-entry-point digests over the catalogue corpus for each configuration and they must be identical, also in three further runs per configuration in which every clock reading jumps ahead, OS randomness is fixed and every environment variable read by name has a value; a second probe asserts Send + Sync for 77 public types.",
   "The behavioural comparison covers the probe's corpus (catalogue with single deviations, registries over all ids), not every input.",
   "DESIGN.md section 3 C18"),
}
PENDING_REASON = "check not built yet in this round (work in progress; see DESIGN.md appendix C for the build order)"

props = [json.loads(l) for l in open('/verif/properties.jsonl')]
checks, na = [], []
for p in props:
    pid = p["id"]
    c = CHECKS.get(pid)
    if not c or not c[0]:
        na.append({"property_id": pid, "reason": PENDING_REASON})
        continue
    _, cat, tech, text, note, ref = c
    checks.append({
        "property_id": pid,
        "quick_cmd": f"./check {pid} --tier quick",
        "thorough_cmd": f"./check {pid} --tier thorough",
        "evidence_file": f"/verif/evidence/{pid}.json",
        "replay_cmd_template": f"./check {pid} --replay {{path}}",
        "engine": "harness",
        "level_claimed": {"category": cat, "text": text, "design_ref": ref},
        "level_note": note,
        "technique": tech,
    })
m = {
 "version": 1,
 "setup_cmd": "cd /verif/harness && CARGO_NET_OFFLINE=true cargo build --release --offline -p vchecks --bins && cargo build --release --offline -p vsr && cargo build --release --offline -p vchecks --bins --features tp-unstable --target-dir /verif/target/feat-unstable && /verif/target/release/c18 --prebuild",
 "hooks": {
   "guard": "tls_parser_verif",
   "enable": "RUSTFLAGS/--cfg tls_parser_verif via /verif/harness/.cargo/config.toml ([build] rustflags); the harness path-depends on /repo so every check rebuilds from its working tree",
   "baseline_off_cmd": "cd /repo && cargo test --workspace --no-fail-fast --offline",
   "source_commits": hook_commits(),
   "add_only": True,
 },
 "engines": [
   {"name": "harness", "path": "/verif/harness", "serves_properties": [c["property_id"] for c in checks],
    "kind_free_text": "Rust workspace: vcommon (enumerators, reference models, isolation, evidence) + vchecks (adapter to the crate, one binary per property); explicit-state search and bounded-exhaustive enumeration executing the real crate code. Each check binary also exists in a second build against the crate with all cargo features (target dir /verif/target/feat-unstable) that the check runs as a sub-process (cheap checks: quick and thorough tier; C01 C02 C04 C05 C06 C13: thorough tier) and whose violations it merges"},
 ],
 "checks": checks,
 "not_applicable": na,
 "notes": "All checks are exhaustive enumerations of a stated finite scope executing the real crate (model checking family); see DESIGN.md (section 8.5: 126 seeded property-breaking changes by independent sub-agents, which checks catch which, and the generator each miss led to; section 7: limits). known findings: /verif/known_findings.txt",
}
json.dump(m, open('/verif/MANIFEST.json','w'), indent=1)
print("checks:", [c["property_id"] for c in checks], "pending:", len(na))
