//! Independent second explorer (stateright, BFS) over the same transition functions as the primary
//! explorers of C07 and C08. Prints `states=<n> violations=<k>`; the thorough tiers compare the
//! number of unique states with the primary explorer's count (a disagreement is a machinery error:
//! one of the two explorers truncated or over-merged the search).
use stateright::{Checker, Model, Property};
use std::hash::{Hash, Hasher};
use vchecks::defrag::Op;
use vchecks::defrag_explore as dx;
use vcommon::reference::states as rs;

// ---------------------------------------------------------------- C07

#[derive(Clone, Debug)]
struct DState {
    hist: Vec<Op>,
    extra: dx::Extra,
    key: dx::Key,
    violation: bool,
}
impl PartialEq for DState {
    fn eq(&self, o: &Self) -> bool {
        self.key == o.key && self.violation == o.violation
    }
}
impl Eq for DState {}
impl Hash for DState {
    fn hash<H: Hasher>(&self, h: &mut H) {
        self.key.hash(h);
        self.violation.hash(h);
    }
}

struct DModel {
    sc: dx::Scenario,
}

impl Model for DModel {
    type State = DState;
    type Action = (Op, dx::Extra);
    fn init_states(&self) -> Vec<DState> {
        vec![DState { hist: vec![], extra: (0, 0), key: (vec![], None, vec![], None, (0, 0), 0), violation: false }]
    }
    fn actions(&self, s: &DState, out: &mut Vec<Self::Action>) {
        if s.violation {
            return;
        }
        out.extend((self.sc.actions)(&s.extra));
    }
    fn next_state(&self, s: &DState, a: Self::Action) -> Option<DState> {
        let (op, next) = a;
        let mut hist = s.hist.clone();
        match dx::step_and_compare(&self.sc, &s.hist, &op, &s.extra, &next) {
            Ok(key) => {
                hist.push(op);
                Some(DState { hist, extra: next, key, violation: false })
            }
            Err(_) => {
                hist.push(op);
                // one distinct violating state per witness history
                let mut key = s.key.clone();
                key.0 = format!("{:?}", hist).into_bytes();
                Some(DState { hist, extra: next, key, violation: true })
            }
        }
    }
    fn within_boundary(&self, s: &DState) -> bool {
        s.hist.len() <= self.sc.max_depth
    }
    fn properties(&self) -> Vec<Property<Self>> {
        vec![Property::always("implementation agrees with accumulate-then-parse", |_, s: &DState| !s.violation)]
    }
}

// ---------------------------------------------------------------- C08

#[derive(Clone, Debug, PartialEq, Eq, Hash)]
struct SState {
    imp: usize,
    table: usize,
    spec: rs::Spec,
    violation: bool,
}

struct SModel {
    nfa: rs::Nfa,
    reps: Vec<tls_parser::TlsMessage<'static>>,
    states: Vec<tls_parser::TlsState>,
}

impl Model for SModel {
    type State = SState;
    type Action = (usize, bool);
    fn init_states(&self) -> Vec<SState> {
        vec![SState { imp: rs::st("None"), table: rs::st("None"), spec: rs::Spec::init(&self.nfa), violation: false }]
    }
    fn actions(&self, s: &SState, out: &mut Vec<Self::Action>) {
        if s.violation {
            return;
        }
        for k in 0..rs::KINDS.len() {
            out.push((k, true));
            out.push((k, false));
        }
    }
    fn next_state(&self, s: &SState, (k, dir): Self::Action) -> Option<SState> {
        let got = vchecks::states::step(self.states[s.imp], &self.reps[k], dir);
        let spec = s.spec.step(&self.nfa, k, dir);
        let table = rs::ref_step(s.table, k, dir);
        match (got, spec, table) {
            (Ok(g), Some(nsp), Ok(t)) if g == t => Some(SState { imp: g, table: t, spec: nsp, violation: false }),
            (Err("InvalidTransition"), None, Err(())) => None,
            _ => Some(SState { imp: s.imp, table: s.table, spec: s.spec.clone(), violation: true }),
        }
    }
    fn properties(&self) -> Vec<Property<Self>> {
        vec![Property::always("implementation accepts exactly the documented flows", |_, s: &SState| !s.violation)]
    }
}

fn main() {
    let args: Vec<String> = std::env::args().collect();
    let which = args.get(1).map(|s| s.as_str()).unwrap_or("");
    vcommon::iso::install_panic_hook();
    match which {
        "c07-s0" => {
            let depth: usize = args.get(2).and_then(|s| s.parse().ok()).unwrap_or(4);
            // the primary explorer expands nodes up to depth-1 and records children at depth
            let m = DModel { sc: dx::s0(depth) };
            let c = m.checker().threads(1).spawn_bfs().join();
            let viol = c.discoveries().len();
            println!("states={} violations={}", c.unique_state_count(), viol);
        }
        "c07-s1" => {
            let idx: usize = args.get(2).and_then(|s| s.parse().ok()).unwrap_or(0);
            let thorough = args.get(3).map_or(false, |s| s == "thorough");
            let p = dx::s1_catalogue(thorough).into_iter().nth(idx).expect("payload index");
            let m = DModel { sc: dx::s1(p) };
            let c = m.checker().threads(1).spawn_bfs().join();
            println!("states={} violations={}", c.unique_state_count(), c.discoveries().len());
        }
        "c08" => {
            let m = SModel { nfa: rs::Nfa::compile(&rs::flows()), reps: vchecks::states::representatives(), states: vchecks::states::all_states() };
            let c = m.checker().threads(1).spawn_bfs().join();
            println!("states={} violations={}", c.unique_state_count(), c.discoveries().len());
        }
        _ => {
            eprintln!("usage: vsr c07-s0 <depth> | c07-s1 <payload index> [thorough] | c08");
            std::process::exit(2);
        }
    }
}
