//! Shared plumbing for the wire-space checks: one case = (target, input bytes).
use serde_json::json;
use vcommon::report::*;
use vcommon::v::{disagree, Got, Ref};

pub struct Target {
    pub name: &'static str,
    pub run: fn(&[u8]) -> Got,
    pub reference: fn(&[u8]) -> Ref,
}

pub fn ref_class(r: &Ref) -> &'static str {
    match r {
        Ref::Must(..) => "must",
        Ref::Reject(_) => "reject",
        Ref::Unspec(_) => "unspec",
    }
}

/// outcome class for histograms, e.g. "must/Ok", "reject/Verify"
pub fn class_pair(r: &Ref, g: &Got) -> &'static str {
    match (r, g.is_ok()) {
        (Ref::Must(..), true) => "must->Ok",
        (Ref::Must(..), false) => "must->ERR",
        (Ref::Reject(_), true) => "reject->OK",
        (Ref::Reject(_), false) => match g {
            Got::Incomplete(_) => "reject->Incomplete",
            _ => "reject->Error",
        },
        (Ref::Unspec(_), true) => "unspec->Ok",
        (Ref::Unspec(_), false) => "unspec->Err",
    }
}

/// true unless the reference only says "cut inside the fixed header"
pub fn nontrivial(r: &Ref) -> bool {
    match r {
        Ref::Reject(w) => !w.ends_with("header cut"),
        _ => true,
    }
}

/// When set, `check_case` does not judge results against the reference walkers (used by the
/// reference-free relational check C06, which must not report value disagreements that belong to
/// other properties).
pub static NO_REFERENCE_VERDICT: std::sync::atomic::AtomicBool = std::sync::atomic::AtomicBool::new(false);

/// Run one case through target and reference; record counts and a violation if they disagree.
/// Returns the implementation result for further (check-specific) oracles.
pub fn check_case(prop: &'static str, t: &Target, b: &[u8], sink: &mut Sink) -> (Got, Ref) {
    let g = (t.run)(b);
    let r = (t.reference)(b);
    sink.case(fnv(fnv(0, t.name.as_bytes()), b), nontrivial(&r));
    sink.count(t.name, class_pair(&r, &g));
    if NO_REFERENCE_VERDICT.load(std::sync::atomic::Ordering::Relaxed) {
        return (g, r);
    }
    if let Some(what) = disagree(&r, &g) {
        sink.violation(
            format!("{} {}", t.name, hexs(b)),
            format!("{}({}): {}", t.name, hexshort(b), what),
            json!({"kind":"parse","func":t.name,"input":hexs(b)}),
        );
    }
    let _ = prop;
    (g, r)
}

/// Generic replay for "parse" cases: re-run twice, require identical observations.
pub fn replay_parse(run: &Run, targets: &[&Target], case: &serde_json::Value, extra: &dyn Fn(&Target, &[u8], &mut Sink)) -> i32 {
    let name = case["func"].as_str().unwrap_or("");
    let Some(t) = targets.iter().find(|t| t.name == name) else {
        machinery_failure(run.prop, &format!("replay: unknown function {}", name));
    };
    let b = unhex(case["input"].as_str().unwrap_or(""));
    let mut outs = Vec::new();
    for _ in 0..2 {
        let mut s = Sink::new();
        check_case(run.prop, t, &b, &mut s);
        extra(t, &b, &mut s);
        outs.push(s.viol.iter().map(|v| v.what.clone()).collect::<Vec<_>>());
    }
    if outs[0] != outs[1] {
        machinery_failure(run.prop, "replay is not deterministic");
    }
    if outs[0].is_empty() {
        println!("replay: property holds on this case");
        0
    } else {
        println!("replay: {}", outs[0].join(" | "));
        println!("VIOLATION property={} replay={}", run.prop, run.replay.clone().unwrap());
        1
    }
}

/// vacuity guard: every target must have produced at least one Ok and one non-Ok outcome
pub fn require_both_outcomes(run: &Run, sink: &Sink, names: &[&'static str]) {
    if !sink.viol.is_empty() {
        return;
    }
    let g = sink.groups();
    for n in names {
        let Some(h) = g.get(n) else {
            machinery_failure(run.prop, &format!("vacuous: target {} was never exercised", n));
        };
        let ok: u64 = h.iter().filter(|(k, _)| k.ends_with("Ok")).map(|(_, v)| *v).sum();
        let err: u64 = h.iter().filter(|(k, _)| !k.ends_with("Ok")).map(|(_, v)| *v).sum();
        if ok == 0 || err == 0 {
            machinery_failure(run.prop, &format!("vacuous: target {} produced ok={} err={}", n, ok, err));
        }
    }
}

/// Standard suffix set for deviation sweeps (bytes that themselves look like valid structures).
pub fn std_suffixes() -> Vec<Vec<u8>> {
    vec![
        vec![0x00],
        vec![0xff, 0xff, 0xff],
        vec![0x16, 0x03, 0x03, 0x00, 0x04, 0x00, 0x00, 0x00, 0x00],
        vec![0x00, 0x17, 0x00, 0x00],
        // what usually follows: another record (application data, ChangeCipherSpec, a DTLS record)
        vec![0x17, 0x03, 0x03, 0x00, 0x02, 0xaa, 0xbb],
        vec![0x14, 0x03, 0x03, 0x00, 0x01, 0x01],
        vec![0x16, 0xfe, 0xfd, 0x00, 0x01, 0, 0, 0, 0, 0, 0x05, 0x00, 0x01, 0x00],
    ]
}

/// Every encoding of `cat` with every combination of at most `d` deviations, through `targets`.
/// `extra` is called after the reference comparison with the observed and expected outcome.
pub fn struct_sweep(
    run: &Run,
    targets: &[&Target],
    cat: &[vcommon::en::W],
    d: usize,
    suffixes: &[Vec<u8>],
    cut_dense: usize,
    extra: &(dyn Fn(&Target, &[u8], &Got, &Ref, &mut Sink) + Sync),
) -> Sink {
    par_run(run.threads, cat.len(), |i, sink| {
        let w = &cat[i];
        let mut f = |devs: &[vcommon::en::Dev], b: &[u8]| {
            for t in targets {
                let (g, r) = check_case(run.prop, t, b, sink);
                extra(t, b, &g, &r, sink);
                if devs.is_empty() {
                    sink.bump("undeviated encodings", 1);
                    if i % 37 == 0 {
                        sink.sample(6, || json!({"func": t.name, "input": hexshort(b), "deviations": 0, "reference": ref_class(&r), "got": g.class()}));
                    }
                } else if i % 53 == 1 && devs.len() == 1 {
                    sink.sample(10, || json!({"func": t.name, "input": hexshort(b), "deviation": format!("{:?}", devs), "reference": ref_class(&r), "got": g.class()}));
                }
            }
        };
        vcommon::en::deviations(w, d, suffixes, cut_dense, &mut f);
    })
}

/// Every string over a positional alphabet up to length n (optionally behind a fixed prefix /
/// wrapped by `wrap`), through one target.
pub fn alpha_sweep(
    run: &Run,
    target: &Target,
    alpha: &vcommon::en::Alpha,
    n: usize,
    wrap: &(dyn Fn(&[u8], &mut Vec<u8>) + Sync),
    extra: &(dyn Fn(&Target, &[u8], &Got, &Ref, &mut Sink) + Sync),
) -> Sink {
    let depth = 2.min(n);
    let mut shards: Vec<(bool, Vec<u8>)> = alpha.short(depth).into_iter().map(|s| (true, s)).collect();
    shards.extend(alpha.shards(depth).into_iter().map(|s| (false, s)));
    par_run(run.threads, shards.len(), |i, sink| {
        let (single, ref prefix) = shards[i];
        let mut buf: Vec<u8> = Vec::with_capacity(64);
        let mut f = |p: &[u8]| {
            buf.clear();
            wrap(p, &mut buf);
            let (g, r) = check_case(run.prop, target, &buf, sink);
            extra(target, &buf, &g, &r, sink);
        };
        if single {
            f(prefix);
        } else {
            alpha.visit(prefix, n, &mut f);
        }
    })
}

/// Undeviated encodings produced chunk by chunk (cross products too large to hold in memory):
/// each through every target as it stands, with one trailing byte and with the last byte cut off.
/// `wrap` puts the encoding into its enclosing structure (a record, ...).
pub fn grid_sweep(
    run: &Run,
    targets: &[&Target],
    nchunks: usize,
    gen: &(dyn Fn(usize, usize) -> Vec<vcommon::en::W> + Sync),
    wrap: &(dyn Fn(&vcommon::en::W) -> vcommon::en::W + Sync),
    extra: &(dyn Fn(&Target, &[u8], &Got, &Ref, &mut Sink) + Sync),
) -> Sink {
    par_run(run.threads, nchunks, |i, sink| {
        for w in gen(i, nchunks) {
            let w = wrap(&w);
            let mut b = w.buf.clone();
            b.push(0x16);
            for t in targets {
                for s in [&b[..b.len() - 1], &b[..], &b[..b.len() - 2]] {
                    let (g, r) = check_case(run.prop, t, s, sink);
                    extra(t, s, &g, &r, sink);
                }
                sink.bump("grid encodings", 1);
            }
        }
    })
}
/// every `step`-th encoding of a catalogue under each outer header of `en::wrappers`
pub fn wrapped(cat: &[vcommon::en::W], step: usize) -> Vec<vcommon::en::W> {
    cat.iter().step_by(step.max(1)).filter(|w| w.buf.len() <= 70000).flat_map(|w| vcommon::en::wrappers(&w.buf)).collect()
}
pub fn no_wrap(w: &vcommon::en::W) -> vcommon::en::W {
    w.clone()
}

pub fn no_extra(_: &Target, _: &[u8], _: &Got, _: &Ref, _: &mut Sink) {}
pub fn identity_wrap(p: &[u8], out: &mut Vec<u8>) {
    out.extend_from_slice(p);
}

/// The sizes tried for a variable-length field: all of them in the thorough tier; in the quick
/// tier every size up to 2200, every size within 300 of each power of two and of the record cap,
/// the top 300, and every 13th size elsewhere.
pub fn sizes(max: usize, thorough: bool) -> Vec<usize> {
    if thorough {
        return (0..=max).collect();
    }
    let mut v = Vec::new();
    for n in 0..=max {
        let near_pow2 = (8..=24).any(|k| {
            let p = 1usize << k;
            n + 300 >= p && n <= p + 300
        });
        let near_cap = n + 300 >= 16640 && n <= 16640 + 300;
        if n <= 2200 || near_pow2 || near_cap || n + 300 >= max || n % 13 == 0 {
            v.push(n);
        }
    }
    v
}

/// Well-formed encodings in which one variable-length field takes every size (all enclosing
/// length fields consistent), through `targets`.
pub fn size_sweep(
    run: &Run,
    targets: &[&Target],
    max: usize,
    build: &(dyn Fn(usize) -> vcommon::en::W + Sync),
    extra: &(dyn Fn(&Target, &[u8], &Got, &Ref, &mut Sink) + Sync),
) -> Sink {
    let all = sizes(max, run.tier == Tier::Thorough);
    let chunks: Vec<&[usize]> = all.chunks(64).collect();
    par_run(run.threads, chunks.len(), |i, sink| {
        for &n in chunks[i] {
            let w = build(n);
            for t in targets {
                let (g, r) = check_case(run.prop, t, &w.buf, sink);
                extra(t, &w.buf, &g, &r, sink);
                sink.bump("size-sweep cases", 1);
            }
        }
    })
}
