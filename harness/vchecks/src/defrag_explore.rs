//! Explicit-state exploration of the real TlsRecordsParser against the reference model
//! (engine E1), shared by C07 (verdict), C01 (panics / size bound) and C06 (slice provenance).
use crate::defrag::*;
use serde_json::{json, Value};
use std::collections::HashSet;
use tls_parser::*;
use vcommon::report::*;
use vcommon::v::Got;

pub type Extra = (usize, usize); // scenario cursor: (payload index, offset)
pub type Key = (Vec<u8>, Option<u8>, Vec<u8>, Option<u8>, Extra, u64);

pub struct Scenario {
    pub name: &'static str,
    pub alpha: Vec<Rec>,
    /// actions available at a scenario cursor: (operation, next cursor)
    pub actions: Box<dyn Fn(&Extra) -> Vec<(Op, Extra)> + Sync + Send>,
    /// S1 only: payloads (type, bytes, single-message?) for the direct formulation
    pub payloads: Vec<(u8, Vec<u8>, bool)>,
    pub max_depth: usize,
}

pub fn op_str(op: &Op, alpha: &[Rec]) -> String {
    match op {
        Op::Reset => "reset".into(),
        Op::Parse(i) => format!("parse({:02x}:{})", alpha[*i].ty, hexs(&alpha[*i].data)),
        Op::NoCopy(i) => format!("nocopy({:02x}:{})", alpha[*i].ty, hexs(&alpha[*i].data)),
    }
}

pub fn hist_json(h: &[Op], alpha: &[Rec]) -> Value {
    json!(h
        .iter()
        .map(|op| match op {
            Op::Reset => json!({"op":"reset"}),
            Op::Parse(i) => json!({"op":"parse_record","type":alpha[*i].ty,"version":alpha[*i].ver,"data":hexs(&alpha[*i].data)}),
            Op::NoCopy(i) => json!({"op":"parse_record_nocopy","type":alpha[*i].ty,"version":alpha[*i].ver,"data":hexs(&alpha[*i].data)}),
        })
        .collect::<Vec<_>>())
}

/// replay a history on a fresh real parser and a fresh reference
pub fn run_hist(h: &[Op], alpha: &[Rec]) -> (TlsRecordsParser, RefState) {
    let mut p = TlsRecordsParser::default();
    let mut st = RefState::default();
    for op in h {
        let (_, region, _) = ref_step(&mut st, op, alpha);
        let _ = impl_step(&mut p, op, alpha, region);
    }
    (p, st)
}

/// execute `hist` then `op` on both sides and compare; Ok(child key) or Err(violation text)
pub fn step_and_compare(sc: &Scenario, hist: &[Op], op: &Op, extra: &Extra, next: &Extra) -> Result<Key, String> {
    let (mut p, mut st) = run_hist(hist, &sc.alpha);
    let before = (p.verif_defrag_buffer().to_vec(), p.verif_current_record_type().map(|t| t.0));
    let st_before = st.clone();
    let (exp, region, unchanged) = ref_step(&mut st, op, &sc.alpha);
    let obs = impl_step(&mut p, op, &sc.alpha, region);
    if let Some(m) = compare(op, &before, &obs, &exp, region, unchanged, &st) {
        return Err(m);
    }
    // direct formulation of the split property (independent of the reference bookkeeping)
    if let (Op::Parse(i), Some((pty, pbytes, single))) = (op, sc.payloads.get(extra.0)) {
        let r = &sc.alpha[*i];
        let c = extra.1;
        let is_feed = next.0 != extra.0 || next.1 != extra.1 || r.data.is_empty();
        let in_split = if c == 0 {
            st_before.ty.is_none() || (st_before.ty == Some(*pty) && st_before.acc.is_empty())
        } else {
            st_before.ty == Some(*pty) && st_before.acc == pbytes[..c]
        };
        if *single && is_feed && r.ty == *pty && in_split && c + r.data.len() <= pbytes.len() && pbytes[c..c + r.data.len()] == r.data[..] {
            let end = c + r.data.len();
            if end < pbytes.len() {
                if !matches!(obs.got, Got::Incomplete(_)) || !obs.in_progress {
                    return Err(format!(
                        "split of a single-message payload: fragment ending at byte {} of {} answered {:?} (in progress: {}), expected Incomplete with defragmentation in progress",
                        end,
                        pbytes.len(),
                        obs.got,
                        obs.in_progress
                    ));
                }
            } else {
                let whole = one_shot(pbytes, *pty, pbytes.len());
                if obs.got != whole || obs.in_progress {
                    return Err(format!(
                        "last fragment of a split payload returned {:?} (in progress: {}), parsing the unsplit payload returns {:?}",
                        obs.got, obs.in_progress, whole
                    ));
                }
            }
        }
    }
    Ok((obs.buf, obs.ty, st.acc.clone(), st.ty, *next, if FINE_KEY.load(std::sync::atomic::Ordering::Relaxed) { obs.hidden } else { 0 }))
}

pub struct Explored {
    pub states: usize,
    pub transitions: usize,
    pub depth: usize,
    pub outcomes: std::collections::BTreeMap<String, u64>,
    pub complete: bool,
}

/// With FINE_KEY on, the digest of the parser's Debug text is part of the state key (hidden fields split states);
/// off (default), the key is the hook-visible state only.
pub static FINE_KEY: std::sync::atomic::AtomicBool = std::sync::atomic::AtomicBool::new(false);

pub fn explore(run: &Run, sc: &Scenario, sink: &mut Sink) -> Explored {
    explore_budget(run, sc, sink, None)
}

/// The exploration with the hidden-state digest in the key, limited to `budget` states: an object that carries a
/// counter or a statistic in its Debug text never repeats a state, and the search is then cut off (reported, not a
/// verdict) instead of unrolling every history.
pub fn explore_fine(run: &Run, sc: &Scenario, sink: &mut Sink, budget: usize) -> Explored {
    FINE_KEY.store(true, std::sync::atomic::Ordering::SeqCst);
    let e = explore_budget(run, sc, sink, Some(budget));
    FINE_KEY.store(false, std::sync::atomic::Ordering::SeqCst);
    e
}

fn explore_budget(run: &Run, sc: &Scenario, sink: &mut Sink, budget: Option<usize>) -> Explored {
    let init_extra: Extra = (0, 0);
    let fine = FINE_KEY.load(std::sync::atomic::Ordering::SeqCst);
    let mut seen: HashSet<Key> = HashSet::new();
    seen.insert((vec![], None, vec![], None, init_extra, if fine { fnv(0, format!("{:?}", TlsRecordsParser::default()).as_bytes()) } else { 0 }));
    let mut frontier: Vec<(Vec<Op>, Extra)> = vec![(vec![], init_extra)];
    let mut transitions = 0usize;
    let mut depth = 0usize;
    let mut outcomes = std::collections::BTreeMap::new();
    let mut complete = true;
    while !frontier.is_empty() {
        if depth >= sc.max_depth {
            complete = false;
            break;
        }
        if budget.map_or(false, |b| seen.len() > b) {
            complete = false;
            break;
        }
        depth += 1;
        // expand all nodes of this level in parallel; merge in node order (deterministic)
        let results: Vec<Vec<(Op, Extra, Result<Key, String>)>> = {
            let out: std::sync::Mutex<Vec<(usize, Vec<(Op, Extra, Result<Key, String>)>)>> = std::sync::Mutex::new(Vec::new());
            let fr = &frontier;
            let _ = par_run(run.threads, fr.len(), |i, _| {
                let (hist, extra) = &fr[i];
                let mut v = Vec::new();
                for (op, next) in (sc.actions)(extra) {
                    let r = step_and_compare(sc, hist, &op, extra, &next);
                    v.push((op, next, r));
                }
                out.lock().unwrap().push((i, v));
            });
            let mut o = out.into_inner().unwrap();
            o.sort_by_key(|x| x.0);
            o.into_iter().map(|x| x.1).collect()
        };
        let mut next_frontier = Vec::new();
        for (ni, res) in results.into_iter().enumerate() {
            let (hist, _) = &frontier[ni];
            for (op, next, r) in res {
                transitions += 1;
                sink.evals += 1;
                let mut h = hist.clone();
                h.push(op.clone());
                match r {
                    Err(what) => {
                        let key = format!("{} {}", sc.name, h.iter().map(|o| op_str(o, &sc.alpha)).collect::<Vec<_>>().join(" "));
                        sink.violation(
                            key,
                            format!("[{}] after {} operation(s): {}", sc.name, h.len(), what),
                            json!({"kind":"history","scenario":sc.name,"ops":hist_json(&h, &sc.alpha)}),
                        );
                        *outcomes.entry("VIOLATION".to_string()).or_insert(0) += 1;
                    }
                    Ok(key) => {
                        // outcome class for the histogram: recompute cheaply from the key transition
                        let cls = if key.3.is_some() { "in-progress" } else { "idle" };
                        *outcomes.entry(format!("{}:{}", match op { Op::Reset => "reset", Op::Parse(_) => "parse", Op::NoCopy(_) => "nocopy" }, cls)).or_insert(0) += 1;
                        if seen.insert(key) {
                            if sink.samples.len() < 6 && h.len() == 3 {
                                sink.samples.push(json!({"scenario": sc.name, "history": h.iter().map(|o| op_str(o, &sc.alpha)).collect::<Vec<_>>()}));
                            }
                            next_frontier.push((h, next));
                        }
                    }
                }
            }
        }
        if std::env::var("VERIF_DEBUG").is_ok() {
            eprintln!("[{}] depth {} states {} frontier {} transitions {}", sc.name, depth, seen.len(), next_frontier.len(), transitions);
        }
        frontier = next_frontier;
    }
    Explored {
        states: seen.len(),
        transitions,
        depth,
        outcomes,
        complete,
    }
}

pub fn rec(ty: u8, data: &[u8]) -> Rec {
    Rec { ty, data: data.to_vec(), ver: 0x0303 }
}

pub fn s0(depth: usize) -> Scenario {
    let alpha = vec![
        rec(0x16, &[0x16]),
        rec(0x16, &[0x00, 0x00]),
        rec(0x16, &[0x00, 0x00, 0x00]),
        rec(0x16, &[0x00]),
        rec(0x16, &[0x0e, 0x00, 0x00, 0x03, 0xaa]),
        rec(0x16, &[0xbb, 0xcc]),
        rec(0x16, &[0x00, 0x00, 0x00, 0x00]),
        rec(0x16, &[0xff, 0x00, 0x00, 0x00]),
        rec(0x16, &[]),
        rec(0x18, &[0x01, 0x00, 0x02, 0xaa]),
        rec(0x18, &[0xbb]),
        rec(0x18, &[]),
        rec(0x17, &[0x01, 0x02, 0x03]),
        rec(0x17, &[]),
        rec(0x14, &[0x01]),
        rec(0x14, &[]),
        rec(0x15, &[0x01, 0x00]),
        rec(0x15, &[0x02]),
        rec(0x19, &[0x00]),
    ];
    let n = alpha.len();
    Scenario {
        name: "S0",
        alpha,
        actions: Box::new(move |_| {
            let mut v = vec![(Op::Reset, (0, 0))];
            for i in 0..n {
                v.push((Op::Parse(i), (0, 0)));
                v.push((Op::NoCopy(i), (0, 0)));
            }
            v
        }),
        payloads: vec![],
        max_depth: depth,
    }
}

pub fn client_hello_min() -> Vec<u8> {
    let mut b = vec![0x01, 0x00, 0x00, 0x29, 0x03, 0x03];
    b.extend((0..32).map(|i| 0x40 + i as u8));
    b.extend([0x00, 0x00, 0x02, 0x00, 0x2f, 0x01, 0x00]);
    b
}

pub fn s1_catalogue(thorough: bool) -> Vec<(u8, Vec<u8>)> {
    let mut payloads: Vec<(u8, Vec<u8>)> = vec![
        (0x16, vec![0x0e, 0x00, 0x00, 0x03, 0xaa, 0xbb, 0xcc]),
        (0x16, vec![0x00, 0x00, 0x00, 0x00, 0x0e, 0x00, 0x00, 0x01, 0xaa]),
        (0x18, vec![0x01, 0x00, 0x03, 0xaa, 0xbb, 0xcc]),
        (0x18, vec![0x02, 0x00, 0x02, 0xaa, 0xbb, 0xcc, 0xdd]),
        (0x16, vec![0xff, 0x00, 0x00, 0x01, 0xaa]),
        (0x17, vec![0x01, 0x02, 0x03]),
        (0x16, vec![0x01, 0x00, 0x00, 0x02, 0x03, 0x03]),
        (0x16, client_hello_min()),
    ];
    if thorough {
        let mut bad = client_hello_min();
        bad[38] = 33; // session id length 33: invalid body
        payloads.push((0x16, bad));
        payloads.push((
            0x16,
            vec![0x0e, 0, 0, 0, 0x0e, 0, 0, 1, 0xaa, 0x10, 0, 0, 2, 0xbb, 0xcc],
        ));
    }
    payloads
}

/// S1: payload `first` in every possible split, then a second payload with disjoint byte values.
pub fn s1(first: (u8, Vec<u8>)) -> Scenario {
    let payloads: Vec<(u8, Vec<u8>)> = vec![first, (0x16, vec![0x0e, 0x00, 0x00, 0x02, 0xe1, 0xe2])];
    let mut alpha: Vec<Rec> = Vec::new();
    let mut index: std::collections::HashMap<(usize, usize, usize), usize> = std::collections::HashMap::new();
    for (pi, (ty, p)) in payloads.iter().enumerate() {
        for c in 0..=p.len() {
            for l in 0..=(p.len() - c) {
                index.insert((pi, c, l), alpha.len());
                alpha.push(rec(*ty, &p[c..c + l]));
            }
        }
    }
    let foreign_base = alpha.len();
    // records of a type different from both payloads (a same-type record would simply be one
    // more fragment and make the accumulation unbounded; S0 covers those)
    alpha.push(rec(0x14, &[0x01]));
    alpha.push(rec(0x15, &[0x01, 0x00]));
    alpha.push(rec(0x19, &[0x00]));
    if payloads[0].0 != 0x17 {
        alpha.push(rec(0x17, &[0x09]));
    }
    if payloads[0].0 != 0x18 {
        alpha.push(rec(0x18, &[0x01, 0x00, 0x00]));
    }
    let nforeign = alpha.len() - foreign_base;
    let lens: Vec<usize> = payloads.iter().map(|p| p.1.len()).collect();
    let last = payloads.len() - 1;
    let singles: Vec<(u8, Vec<u8>, bool)> = payloads
        .iter()
        .map(|(ty, p)| {
            let whole_ok = matches!(one_shot(p, *ty, p.len()), Got::Ok(_, n) if n == p.len());
            let prefixes_frag = (0..p.len()).all(|n| {
                matches!(
                    one_shot(&p[..n], *ty, n),
                    Got::Incomplete(_) | Got::Error("Complete") | Got::Failure("Complete")
                )
            });
            (*ty, p.clone(), whole_ok && prefixes_frag)
        })
        .collect();
    Scenario {
        name: "S1",
        alpha,
        actions: Box::new(move |&(pi, c)| {
            let mut v = Vec::new();
            if pi > last {
                return v;
            }
            let rem = lens[pi] - c;
            for l in 0..=rem {
                // feeding the last byte of a payload moves the cursor to the next payload
                let next = if l > 0 && c + l == lens[pi] { (pi + 1, 0) } else { (pi, c + l) };
                v.push((Op::Parse(index[&(pi, c, l)]), next));
            }
            for f in 0..nforeign {
                v.push((Op::Parse(foreign_base + f), (pi, c)));
            }
            v.push((Op::NoCopy(index[&(pi, c, rem.min(1))]), (pi, c)));
            v.push((Op::NoCopy(foreign_base), (pi, c)));
            v.push((Op::Reset, (pi, 0)));
            v
        }),
        payloads: singles,
        max_depth: usize::MAX,
    }
}

/// S2: the 10 MiB cap. Deterministic histories; observation is reduced to lengths (the buffers
/// are 10 MiB) plus one full content comparison at the end.
pub fn s2(sink: &mut Sink, frag: usize, thorough: bool) -> (usize, usize) {
    let mut steps = 0;
    let mut histories = 0;
    let finals: Vec<i64> = if thorough { vec![-3, -2, -1, 0, 1, 2] } else { vec![-2, -1, 0, 1] };
    // first fragment: a handshake message declaring 2^24-1 bytes (never complete below the cap)
    let mut first = vec![0x0e, 0xff, 0xff, 0xff];
    first.resize(frag, 0x5a);
    let cont = vec![0xa5u8; frag];
    let full = (MAX_DATA - 1) / frag; // number of whole fragments that still fit below the cap
    for (d, hdr_mode) in finals.iter().flat_map(|d| [(*d, 0u8), (*d, 1), (*d, 2)]) {
        histories += 1;
        let mut p = TlsRecordsParser::default();
        let mut acc: Vec<u8> = Vec::new();
        let mut fail = |sink: &mut Sink, step: usize, what: String| {
            sink.violation(
                format!("S2 frag={} final={} hdr={} step={}", frag, d, hdr_mode, step),
                format!("[S2] fragments of {} bytes, final delta {} (declared length mode {}): step {}: {}", frag, d, hdr_mode, step, what),
                json!({"kind":"cap","frag":frag,"final_delta":d}),
            );
        };
        let mut ok = true;
        for k in 0..full {
            let data: &[u8] = if k == 0 { &first } else { &cont };
            let r = TlsRawRecord {
                hdr: TlsRecordHeader {
                    record_type: TlsRecordType(0x16),
                    version: TlsVersion(0x0303),
                    len: data.len() as u16,
                },
                data,
            };
            let res = vcommon::iso::guarded(|| match p.parse_record(r) {
                Err(tls_parser::Err::Incomplete(_)) => "Incomplete",
                Ok(_) => "Ok",
                Err(_) => "Err",
            });
            steps += 1;
            sink.evals += 1;
            acc.extend_from_slice(data);
            let res = res.unwrap_or("Panic");
            if res != "Incomplete" || !p.defrag_in_progress() || p.verif_defrag_buffer().len() != acc.len() {
                fail(
                    sink,
                    k,
                    format!(
                        "answered {} with {} bytes buffered (in progress: {}), expected Incomplete with {} bytes",
                        res,
                        p.verif_defrag_buffer().len(),
                        p.defrag_in_progress(),
                        acc.len()
                    ),
                );
                ok = false;
                break;
            }
        }
        if !ok {
            continue;
        }
        // final fragment making the total land on cap + d
        let fl = (MAX_DATA as i64 + d - acc.len() as i64) as usize;
        let last = vec![0x77u8; fl];
        // the declared length of the last fragment: consistent, understated (0) or overstated (65535)
        let declared = match hdr_mode {
            0 => fl as u16,
            1 => 0,
            _ => 65535,
        };
        let r = TlsRawRecord {
            hdr: TlsRecordHeader {
                record_type: TlsRecordType(0x16),
                version: TlsVersion(0x0303),
                len: declared,
            },
            data: &last,
        };
        let before = p.verif_defrag_buffer().len();
        let res = vcommon::iso::guarded(|| match p.parse_record(r) {
            Err(tls_parser::Err::Incomplete(_)) => "Incomplete".to_string(),
            Ok(_) => "Ok".to_string(),
            Err(tls_parser::Err::Error(e)) | Err(tls_parser::Err::Failure(e)) => format!("{:?}", e.code),
        })
        .unwrap_or_else(|m| format!("Panic {}", m));
        steps += 1;
        sink.evals += 1;
        let after = p.verif_defrag_buffer().len();
        let expect_refuse = d >= 0;
        if expect_refuse {
            if res != "TooLarge" || after != before || !p.defrag_in_progress() {
                fail(sink, full, format!("fragment bringing the buffer to {} bytes answered {} (buffer {} -> {}), expected TooLarge with the state unchanged", MAX_DATA as i64 + d, res, before, after));
            }
        } else {
            acc.extend_from_slice(&last);
            if res != "Incomplete" || after != acc.len() || after >= MAX_DATA {
                fail(sink, full, format!("fragment bringing the buffer to {} bytes answered {} (buffer {} -> {}), expected Incomplete", MAX_DATA as i64 + d, res, before, after));
            }
        }
        if p.verif_defrag_buffer() != &acc[..] && !expect_refuse {
            fail(sink, full + 1, "buffer content differs from the concatenation of the fragments".into());
        }
        if p.verif_defrag_buffer().len() >= MAX_DATA {
            fail(sink, full + 1, format!("buffer holds {} bytes (>= 10 MiB)", p.verif_defrag_buffer().len()));
        }
        // a foreign-type record is still refused with Tag, and reset gives a fresh parser
        let f = [0x01u8];
        let r = TlsRawRecord {
            hdr: TlsRecordHeader {
                record_type: TlsRecordType(0x14),
                version: TlsVersion(0x0303),
                len: 1,
            },
            data: &f,
        };
        let tag = matches!(p.parse_record(r), Err(tls_parser::Err::Error(e)) if e.code == tls_parser::nom::error::ErrorKind::Tag);
        steps += 1;
        if !tag {
            fail(sink, full + 2, "foreign-type record not refused with Tag near the cap".into());
        }
        p.reset();
        if p.defrag_in_progress() || !p.verif_defrag_buffer().is_empty() {
            fail(sink, full + 3, "reset does not give a fresh parser".into());
        }
        if sink.samples.len() < 10 {
            sink.samples.push(json!({"scenario":"S2","fragment_bytes":frag,"fragments":full,"final_total": MAX_DATA as i64 + d, "answer": res}));
        }
    }
    (histories, steps)
}


/// S4: hand-built raw records longer than any record on the wire (the fields of TlsRawRecord are public):
/// a first fragment of about 10 MiB is buffered as it is; what follows must be refused or appended
/// exactly as the reference says, without panic or arithmetic overflow. Returns (histories, steps).
pub fn s4(sink: &mut Sink) -> (usize, usize) {
    let mut histories = 0;
    let mut steps = 0;
    OVERSIZE_RECORDS.with(|o| o.set(true));
    for first_len in [MAX_DATA - 2, MAX_DATA - 1, MAX_DATA, MAX_DATA + 1, 70000] {
        let mut first = vec![0x01, 0xff, 0xff, 0xff];
        first.resize(first_len, 0x11);
        let alpha = vec![
            Rec { ty: 0x16, data: first, ver: 0x0303 },
            rec(0x16, &[]),
            rec(0x16, &[0x22]),
            rec(0x16, &[0x33; 5]),
            rec(0x17, &[1, 2, 3]),
            rec(0x16, &[0x0e, 0, 0, 0]),
        ];
        for tail in [vec![Op::Parse(1), Op::Parse(2), Op::Parse(3)], vec![Op::Parse(3), Op::Parse(2)], vec![Op::Parse(2), Op::NoCopy(5), Op::Parse(4), Op::Parse(1)]] {
            let mut ops = vec![Op::Parse(0)];
            ops.extend(tail);
            ops.extend([Op::Reset, Op::Parse(5)]);
            histories += 1;
            steps += ops.len();
            sink.evals += ops.len() as u64;
            if let Some((n, m)) = run_history(&alpha, &ops) {
                sink.violation(
                    format!("S4 first={} op {}", first_len, n),
                    format!("[S4 oversize first fragment of {} bytes] operation {} ({:.40}): {}", first_len, n, op_str(&ops[n], &alpha), m),
                    json!({"kind":"oversize","first_len":first_len}),
                );
            }
        }
    }
    OVERSIZE_RECORDS.with(|o| o.set(false));
    (histories, steps)
}

/// S5: one operation repeated many times inside a defragmentation ("any sequence of calls", uniform and long):
/// after a first fragment, n x {empty fragment | 1-byte fragment | record of another type | refused nocopy call |
/// empty application-data record}, then the fragment that completes the message; n up to 70000 for the
/// operations that do not grow the buffer. Returns (histories, steps).
pub fn s5(sink: &mut Sink, thorough: bool) -> (usize, usize) {
    let mut histories = 0;
    let mut steps = 0;
    // a Finished-like message of 4100 bytes: room for thousands of 1-byte fragments
    let mut msg = vec![0x14, 0x00, 0x10, 0x00];
    msg.extend((0..4096u32).map(|i| (i % 251) as u8));
    let reps_const: &[usize] = if thorough { &[1, 2, 31, 32, 33, 34, 63, 64, 65, 127, 128, 129, 255, 256, 257, 1000, 1024, 1025, 4096, 65535, 65536, 70000] } else { &[32, 33, 34, 64, 65, 128, 129, 256, 257, 1025, 65537] };
    let reps_grow: &[usize] = if thorough { &[1, 2, 31, 32, 33, 34, 63, 64, 65, 127, 128, 129, 255, 256, 257, 1000, 1024, 1025, 4000] } else { &[32, 33, 64, 65, 256, 257, 1025] };
    for kind in 0..5usize {
        let reps = if kind == 1 { reps_grow } else { reps_const };
        for &n in reps {
            let first = 4usize + 7;
            let mut alpha = vec![rec(0x16, &msg[..first])];
            let (op, grows): (Op, bool) = match kind {
                0 => {
                    alpha.push(rec(0x16, &[]));
                    (Op::Parse(1), false)
                }
                1 => {
                    alpha.push(rec(0x16, &[0x00]));
                    (Op::Parse(1), true)
                }
                2 => {
                    alpha.push(rec(0x15, &[1, 0]));
                    (Op::Parse(1), false)
                }
                3 => {
                    alpha.push(rec(0x16, &[0x0e, 0, 0, 0]));
                    (Op::NoCopy(1), false)
                }
                _ => {
                    alpha.push(rec(0x17, &[]));
                    (Op::Parse(1), false)
                }
            };
            // the 1-byte fragments must be the message's own bytes for the final result to be the message
            let mut ops = vec![Op::Parse(0)];
            let mut at = first;
            if grows {
                for _ in 0..n {
                    alpha.push(rec(0x16, &msg[at..at + 1]));
                    ops.push(Op::Parse(alpha.len() - 1));
                    at += 1;
                }
            } else {
                ops.extend(std::iter::repeat(op).take(n));
            }
            alpha.push(rec(0x16, &msg[at..]));
            ops.push(Op::Parse(alpha.len() - 1));
            alpha.push(rec(0x16, &[0x0e, 0, 0, 0]));
            ops.push(Op::Parse(alpha.len() - 1));
            histories += 1;
            steps += ops.len();
            sink.evals += ops.len() as u64;
            if let Some((k, m)) = run_history(&alpha, &ops) {
                sink.violation(
                    format!("S5 kind {} n {} op {}", kind, n, k),
                    format!("[S5 repeated operation, kind {} x {}] operation {} ({:.60}): {}", kind, n, k, op_str(&ops[k], &alpha), m),
                    json!({"kind":"repeat","op_kind":kind,"n":n}),
                );
            }
        }
    }
    (histories, steps)
}


/// S6: long histories of whole cycles - a two-fragment message completed `n` times on one parser without reset
/// (a counter of completed messages, a generation number ...), and single messages whose total size is exactly
/// 2^16 - 1, 2^16, 2^16 + 1, 2^17 +- 1, 3 * 2^16 (a size kept in 16 bits), fed in even and uneven fragments.
/// Returns (histories, steps).
pub fn s6(sink: &mut Sink, thorough: bool) -> (usize, usize) {
    let mut histories = 0;
    let mut steps = 0;
    // (a) cycles
    for n in if thorough { vec![255usize, 256, 257, 65535, 65536, 65537, 70000] } else { vec![257, 65537] } {
        let alpha = vec![rec(0x16, &[0x0e, 0x00]), rec(0x16, &[0x00, 0x00]), rec(0x18, &[0x01, 0x00]), rec(0x18, &[0x01, 0xaa, 0, 0])];
        let mut ops = Vec::with_capacity(2 * n + 4);
        for k in 0..n {
            if k % 1000 == 999 {
                ops.push(Op::Parse(2));
                ops.push(Op::Parse(3));
            } else {
                ops.push(Op::Parse(0));
                ops.push(Op::Parse(1));
            }
        }
        histories += 1;
        steps += ops.len();
        sink.evals += ops.len() as u64;
        if let Some((k, m)) = run_history(&alpha, &ops) {
            sink.violation(format!("S6 cycles {} op {}", n, k), format!("[S6 {} completed two-fragment messages in a row] operation {} ({}): {}", n, k, op_str(&ops[k], &alpha), m), json!({"kind":"cycles","n":n}));
        }
    }
    // (b) totals around multiples of 2^16
    for total in [65535usize, 65536, 65537, 131071, 131072, 131073, 196608] {
        for frag in [16384usize, 10000] {
            if !thorough && frag == 10000 && total > 131072 {
                continue;
            }
            let hl = total - 4;
            let mut msg = vec![0x14, (hl >> 16) as u8, (hl >> 8) as u8, hl as u8];
            msg.extend((0..hl).map(|i| (i % 251) as u8));
            let mut alpha = Vec::new();
            let mut ops = Vec::new();
            let mut at = 0;
            while at < total {
                let e = (at + frag).min(total);
                alpha.push(rec(0x16, &msg[at..e]));
                ops.push(Op::Parse(alpha.len() - 1));
                at = e;
            }
            alpha.push(rec(0x16, &[0x0e, 0, 0, 0]));
            ops.push(Op::Parse(alpha.len() - 1));
            histories += 1;
            steps += ops.len();
            sink.evals += ops.len() as u64;
            if let Some((k, m)) = run_history(&alpha, &ops) {
                sink.violation(format!("S6 total {} frag {} op {}", total, frag, k), format!("[S6 message of {} bytes in fragments of {}] operation {}: {:.300}", total, frag, k, m), json!({"kind":"total","total":total,"frag":frag}));
            }
        }
    }
    (histories, steps)
}
