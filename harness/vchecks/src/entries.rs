//! C01 registry: every public parsing entry point as `fn(&[u8]) -> class`, which parses and then
//! formats the returned value with Debug (and Display where implemented).
use nom_derive::Parse;
use std::hint::black_box;
use tls_parser::nom::{Err, IResult};
use tls_parser::*;

pub struct Entry {
    pub name: &'static str,
    /// which corpus family feeds it
    pub family: &'static str,
    pub run: fn(&[u8]) -> &'static str,
}

fn finish<T: std::fmt::Debug>(r: IResult<&[u8], T>) -> &'static str {
    match r {
        Ok((rem, v)) => {
            let s = format!("{:?}", v);
            black_box(s.len());
            let t = format!("{:#?}", v);
            black_box(t.len());
            black_box(rem.len());
            "Ok"
        }
        Err(Err::Incomplete(n)) => {
            black_box(format!("{:?}", n).len());
            "Incomplete"
        }
        Err(Err::Error(e)) => {
            black_box(format!("{:?}", e.code).len());
            "Error"
        }
        Err(Err::Failure(e)) => {
            black_box(format!("{:?}", e.code).len());
            "Failure"
        }
    }
}

/// extra formatting for extension values: the type tag and its Display
fn finish_ext(r: IResult<&[u8], TlsExtension>) -> &'static str {
    if let Ok((_, e)) = &r {
        let t = TlsExtensionType::from(e);
        black_box(format!("{} {:?}", t, t).len());
    }
    finish(r)
}

fn finish_exts(r: IResult<&[u8], Vec<TlsExtension>>) -> &'static str {
    if let Ok((_, v)) = &r {
        for e in v {
            let t = TlsExtensionType::from(e);
            black_box(format!("{}", t).len());
        }
    }
    finish(r)
}

macro_rules! e {
    ($fam:expr, $name:ident) => {
        Entry { name: stringify!($name), family: $fam, run: |b| finish($name(b)) }
    };
    ($fam:expr, $label:expr, $call:expr) => {
        Entry { name: $label, family: $fam, run: $call }
    };
}

/// boundary values of an explicit length argument relative to the input length
fn lens(n: usize) -> Vec<usize> {
    let mut v = vec![n, 0, 1, 3, 4, 5, n.saturating_sub(1), n + 1, (1 << 24) - 1, usize::MAX];
    let mut seen = Vec::new();
    v.retain(|x| if seen.contains(x) { false } else { seen.push(*x); true });
    v
}

/// composite entries run several argument variants; the class reported is that of the first
/// (natural) variant, the others are executed for their side effects (panic / heap monitors)
fn worst(a: &'static str, b: &'static str) -> &'static str {
    if a == "-" {
        b
    } else {
        a
    }
}

macro_rules! with_len {
    ($f:ident) => {
        |b| {
            let mut c = "-";
            for l in lens(b.len()) {
                c = worst(c, finish($f(b, l)));
            }
            c
        }
    };
}

fn hdr_variants(b: &[u8]) -> Vec<TlsRecordHeader> {
    let mut v = Vec::new();
    for ty in [0x16u8, 0x14, 0x15, 0x17, 0x18, 0x19, 0x00, 0xff] {
        for len in [b.len() as u16, 0, 1, 2, 3, 0xffff, (b.len() as u16).wrapping_sub(1), (b.len() as u16).wrapping_add(1)] {
            v.push(TlsRecordHeader { record_type: TlsRecordType(ty), version: TlsVersion(0x0303), len });
        }
    }
    v
}

pub fn entries() -> Vec<Entry> {
    #[allow(deprecated)]
    let v = vec![
        // ---- records
        e!("record", parse_tls_record_header),
        e!("record", parse_tls_plaintext),
        e!("record", parse_tls_encrypted),
        e!("record", parse_tls_raw_record),
        e!("record", tls_parser),
        e!("record", tls_parser_many),
        e!("payload", "parse_tls_record_with_header", |b| {
            let mut c = "-";
            for h in hdr_variants(b) {
                black_box(format!("{:?}", h).len());
                c = worst(c, finish(parse_tls_record_with_header(b, &h)));
            }
            c
        }),
        // ---- messages
        e!("payload", parse_tls_message_changecipherspec),
        e!("payload", parse_tls_message_alert),
        e!("payload", parse_tls_message_applicationdata),
        e!("payload", "parse_tls_message_heartbeat", |b| {
            let mut c = "-";
            for l in [b.len() as u16, 0u16, 1, 2, 3, 4, (b.len() as u16).wrapping_add(1), 0xffff] {
                c = worst(c, finish(parse_tls_message_heartbeat(b, l)));
            }
            c
        }),
        e!("handshake", parse_tls_message_handshake),
        // ---- handshake bodies
        e!("hsbody", parse_tls_handshake_msg_hello_request),
        e!("hsbody", parse_tls_handshake_client_hello),
        e!("hsbody", parse_tls_handshake_msg_client_hello),
        e!("hsbody", parse_tls_handshake_server_hello),
        e!("hsbody", parse_tls_handshake_msg_server_hello),
        e!("hsbody", "parse_tls_handshake_msg_newsessionticket", with_len!(parse_tls_handshake_msg_newsessionticket)),
        e!("hsbody", parse_tls_handshake_msg_hello_retry_request),
        e!("hsbody", parse_tls_handshake_msg_certificate),
        e!("hsbody", "parse_tls_handshake_msg_serverkeyexchange", with_len!(parse_tls_handshake_msg_serverkeyexchange)),
        e!("hsbody", "parse_tls_handshake_msg_serverdone", with_len!(parse_tls_handshake_msg_serverdone)),
        e!("hsbody", "parse_tls_handshake_msg_certificateverify", with_len!(parse_tls_handshake_msg_certificateverify)),
        e!("hsbody", "parse_tls_handshake_msg_clientkeyexchange", with_len!(parse_tls_handshake_msg_clientkeyexchange)),
        e!("hsbody", parse_tls_handshake_certificaterequest),
        e!("hsbody", parse_tls_handshake_msg_certificaterequest),
        e!("hsbody", "parse_tls_handshake_msg_finished", with_len!(parse_tls_handshake_msg_finished)),
        e!("hsbody", parse_tls_handshake_certificatestatus),
        e!("hsbody", parse_tls_handshake_msg_certificatestatus),
        e!("hsbody", parse_tls_handshake_next_protocol),
        e!("hsbody", parse_tls_handshake_msg_next_protocol),
        e!("hsbody", parse_tls_handshake_msg_key_update),
        // ---- extensions
        e!("ext", "parse_tls_extension", |b| finish_ext(parse_tls_extension(b))),
        e!("ext", "parse_tls_client_hello_extension", |b| finish_ext(parse_tls_client_hello_extension(b))),
        e!("ext", "parse_tls_server_hello_extension", |b| finish_ext(parse_tls_server_hello_extension(b))),
        e!("ext", "parse_tls_extension_unknown", |b| finish_ext(parse_tls_extension_unknown(b))),
        e!("extlist", "parse_tls_extensions", |b| finish_exts(parse_tls_extensions(b))),
        e!("extlist", "parse_tls_client_hello_extensions", |b| finish_exts(parse_tls_client_hello_extensions(b))),
        e!("extlist", "parse_tls_server_hello_extensions", |b| finish_exts(parse_tls_server_hello_extensions(b))),
        e!("ext", parse_tls_extension_sni),
        e!("ext", parse_tls_extension_max_fragment_length),
        e!("ext", parse_tls_extension_status_request),
        e!("ext", parse_tls_extension_elliptic_curves),
        e!("ext", parse_tls_extension_ec_point_formats),
        e!("ext", parse_tls_extension_signature_algorithms),
        e!("ext", parse_tls_extension_heartbeat),
        e!("ext", parse_tls_extension_encrypt_then_mac),
        e!("ext", parse_tls_extension_extended_master_secret),
        e!("ext", parse_tls_extension_session_ticket),
        e!("ext", parse_tls_extension_key_share),
        e!("ext", parse_tls_extension_pre_shared_key),
        e!("ext", parse_tls_extension_early_data),
        e!("ext", parse_tls_extension_supported_versions),
        e!("ext", parse_tls_extension_cookie),
        e!("ext", parse_tls_extension_psk_key_exchange_modes),
        e!("extcontent", parse_tls_extension_sni_hostname),
        e!("extcontent", parse_tls_extension_sni_content),
        e!("extcontent", parse_tls_extension_max_fragment_length_content),
        e!("extcontent", parse_tls_extension_elliptic_curves_content),
        e!("extcontent", parse_tls_extension_ec_point_formats_content),
        e!("extcontent", parse_tls_extension_signature_algorithms_content),
        e!("extcontent", parse_tls_extension_heartbeat_content),
        e!("extcontent", parse_tls_extension_alpn_content),
        e!("extcontent", parse_tls_extension_signed_certificate_timestamp_content),
        e!("extcontent", parse_tls_extension_psk_key_exchange_modes_content),
        e!("extcontent", parse_tls_extension_renegotiation_info_content),
        e!("extcontent", parse_tls_extension_encrypted_server_name),
        e!("extcontent", parse_named_groups),
        // ---- DTLS
        e!("dtls", parse_dtls_record_header),
        e!("dtls", parse_dtls_plaintext_record),
        e!("dtls", parse_dtls_plaintext_records),
        e!("dtlshs", parse_dtls_message_handshake),
        e!("payload", parse_dtls_message_changecipherspec),
        e!("payload", parse_dtls_message_alert),
        e!("dtlshs", "parse_dtls_record_with_header", |b| {
            let mut c = "-";
            for ty in [0x16u8, 0x14, 0x15, 0x17, 0x18, 0xff] {
                for len in [b.len() as u16, 0, 0xffff] {
                    let h = DTLSRecordHeader { content_type: TlsRecordType(ty), version: TlsVersion(0xfefd), epoch: 1, sequence_number: 2, length: len };
                    black_box(format!("{:?}", h).len());
                    c = worst(c, finish(parse_dtls_record_with_header(b, &h)));
                }
            }
            c
        }),
        // ---- key exchange, signatures, SCT
        e!("kx", parse_dh_params),
        e!("kx", parse_ec_parameters),
        e!("kx", parse_ecdh_params),
        e!("kx", "ECPoint::parse", |b| finish(ECPoint::parse(b))),
        e!("kx", "ECCurve::parse", |b| finish(ECCurve::parse(b))),
        e!("kx", "ExplicitPrimeContent::parse", |b| finish(ExplicitPrimeContent::parse(b))),
        e!("kx", "ECParametersContent::parse", |b| {
            let mut c = "-";
            for ct in [3u8, 1, 0, 2, 4, 255] {
                c = worst(c, finish(ECParametersContent::parse(b, ECCurveType(ct))));
            }
            c
        }),
        e!("kx", parse_digitally_signed),
        e!("kx", parse_digitally_signed_old),
        e!("kx", "parse_content_and_signature", |b| {
            let mut c = "-";
            for ext in [true, false] {
                c = worst(c, finish(parse_content_and_signature(b, parse_dh_params, ext)));
                c = worst(c, finish(parse_content_and_signature(b, parse_ecdh_params, ext)));
            }
            c
        }),
        e!("sct", parse_ct_signed_certificate_timestamp),
        e!("sct", parse_ct_signed_certificate_timestamp_list),
        // ---- derived parsers of the small wire types
        e!("kx", "derived Parse impls (TlsRecordHeader, TlsMessageAlert, registry newtypes)", |b| {
            let mut c = finish(ServerDHParams::parse(b));
            c = worst(c, finish(TlsRecordHeader::parse(b)));
            c = worst(c, finish(TlsMessageAlert::parse(b)));
            c = worst(c, finish(TlsVersion::parse(b)));
            c = worst(c, finish(TlsCipherSuiteID::parse(b)));
            c = worst(c, finish(NamedGroup::parse(b)));
            c = worst(c, finish(SignatureScheme::parse(b)));
            c = worst(c, finish(SignatureAndHashAlgorithm::parse(b)));
            c = worst(c, finish(ServerDHParams::parse(b)));
            c = worst(c, finish(ServerECDHParams::parse(b)));
            c = worst(c, finish(ECParameters::parse(b)));
            c
        }),
    ];
    v
}

/// names of `pub fn parse_*` / `tls_parser*` found in the crate's sources
pub fn scan_pub_parse_fns() -> Vec<String> {
    let mut out = Vec::new();
    if let Ok(rd) = std::fs::read_dir("/repo/src") {
        let mut files: Vec<_> = rd.filter_map(|e| e.ok()).map(|e| e.path()).collect();
        files.sort();
        for f in files {
            if let Ok(s) = std::fs::read_to_string(&f) {
                for line in s.lines() {
                    let l = line.trim_start();
                    if let Some(rest) = l.strip_prefix("pub fn ") {
                        let name: String = rest.chars().take_while(|c| c.is_alphanumeric() || *c == '_').collect();
                        if name.starts_with("parse_") || name.starts_with("tls_parser") {
                            out.push(name);
                        }
                    }
                }
            }
        }
    }
    out.sort();
    out.dedup();
    out
}
