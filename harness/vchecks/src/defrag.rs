//! C07 adapter: executing operations on the real TlsRecordsParser and on the reference model
//! "accumulate same-type fragments until the one-shot record-payload parser succeeds".
use crate::mirror::{got_of, kind_name, Base, ToV};
use tls_parser::nom::{Err, IResult, Needed};
use tls_parser::*;
use vcommon::iso::guarded;
use vcommon::v::{Got, OUTSIDE, V};

pub const MAX_DATA: usize = 10 * 1024 * 1024;

#[derive(Clone, Debug, PartialEq, Eq, Hash)]
pub struct Rec {
    pub ty: u8,
    pub data: Vec<u8>,
    /// record-layer version in the header handed to the real parser (the reference never looks at it)
    pub ver: u16,
}

#[derive(Clone, Debug, PartialEq, Eq, Hash)]
pub enum Op {
    /// parse_record(alphabet[i])
    Parse(usize),
    /// parse_record_nocopy(alphabet[i])
    NoCopy(usize),
    Reset,
}

fn hdr_for(ty: u8, len: usize) -> TlsRecordHeader {
    TlsRecordHeader {
        record_type: TlsRecordType(ty),
        version: TlsVersion(0x0303),
        len: len as u16,
    }
}

thread_local! {
    /// set while a history contains hand-built records longer than a record can be on the wire: the clause
    /// "the buffer never reaches 10 MiB" is stated for records within the record-length cap only
    pub static OVERSIZE_RECORDS: std::cell::Cell<bool> = const { std::cell::Cell::new(false) };
}

pub fn raw<'a>(r: &'a Rec) -> TlsRawRecord<'a> {
    let mut hdr = hdr_for(r.ty, r.data.len());
    hdr.version = TlsVersion(r.ver);
    TlsRawRecord { hdr, data: &r.data }
}

/// Run one history on a fresh real parser and the reference; the first disagreement, if any.
pub fn run_history(alpha: &[Rec], ops: &[Op]) -> Option<(usize, String)> {
    let mut p = TlsRecordsParser::default();
    let mut st = RefState::default();
    for (n, op) in ops.iter().enumerate() {
        let before = (p.verif_defrag_buffer().to_vec(), p.verif_current_record_type().map(|t| t.0));
        let (exp, region, unchanged) = ref_step(&mut st, op, alpha);
        let obs = impl_step(&mut p, op, alpha, region);
        if let Some(m) = compare(op, &before, &obs, &exp, region, unchanged, &st) {
            return Some((n, m));
        }
    }
    None
}

// ---------------------------------------------------------------- reference model

#[derive(Clone, Debug, PartialEq, Eq, Hash, Default)]
pub struct RefState {
    pub acc: Vec<u8>,
    pub ty: Option<u8>,
}

/// which buffer the slices of an Ok result must point into
#[derive(Clone, Copy, Debug, PartialEq, Eq)]
pub enum Region {
    Record,
    Buffer,
}

fn norm(g: Got) -> Got {
    match g {
        Got::Incomplete(_) => Got::Incomplete(None),
        o => o,
    }
}

/// The crate's own one-shot record-payload parser (C07 defines the defragmenter relative to it).
pub fn one_shot(data: &[u8], ty: u8, len: usize) -> Got {
    let h = hdr_for(ty, len);
    norm(got_of(data, parse_tls_record_with_header(data, &h)))
}

fn fragmented(g: &Got) -> bool {
    matches!(g, Got::Incomplete(_) | Got::Error("Complete") | Got::Failure("Complete"))
}

/// One reference step: expected result, the region its slices live in, whether the state must be unchanged.
pub fn ref_step(st: &mut RefState, op: &Op, alpha: &[Rec]) -> (Got, Region, bool) {
    match op {
        Op::Reset => {
            *st = RefState::default();
            (Got::Error("reset"), Region::Record, false)
        }
        Op::NoCopy(i) => {
            if st.ty.is_some() {
                return (Got::Failure("NonEmpty"), Region::Record, true);
            }
            let r = &alpha[*i];
            let g = one_shot(&r.data, r.ty, r.data.len());
            let g = if fragmented(&g) { Got::Incomplete(None) } else { g };
            (g, Region::Record, true)
        }
        Op::Parse(i) => {
            let r = &alpha[*i];
            match st.ty {
                None => {
                    let g = one_shot(&r.data, r.ty, r.data.len());
                    if r.ty == 0x14 || r.ty == 0x15 {
                        // never defragmented
                        let g = if fragmented(&g) { Got::Incomplete(None) } else { g };
                        return (g, Region::Record, true);
                    }
                    if fragmented(&g) {
                        st.ty = Some(r.ty);
                        st.acc = r.data.clone();
                        (Got::Incomplete(None), Region::Record, false)
                    } else {
                        (g, Region::Record, true)
                    }
                }
                Some(t) => {
                    if t != r.ty {
                        return (Got::Error("Tag"), Region::Buffer, true);
                    }
                    if st.acc.len().saturating_add(r.data.len()) >= MAX_DATA {
                        return (Got::Error("TooLarge"), Region::Buffer, true);
                    }
                    st.acc.extend_from_slice(&r.data);
                    let g = one_shot(&st.acc, t, st.acc.len());
                    if g.is_ok() {
                        st.ty = None;
                        (g, Region::Buffer, false)
                    } else if fragmented(&g) {
                        (Got::Incomplete(None), Region::Buffer, false)
                    } else {
                        (g, Region::Buffer, false)
                    }
                }
            }
        }
    }
}

// ---------------------------------------------------------------- implementation executor

/// result of a call with absolute addresses, taken before the borrow of the parser ends
enum RawObs {
    Ok { v: V, rem_ptr: usize, rem_len: usize },
    Other(Got),
}

fn observe<'x>(r: IResult<&'x [u8], Vec<TlsMessage<'x>>>) -> RawObs {
    let abs = Base {
        ptr: 0,
        len: usize::MAX,
        content: false,
    };
    match r {
        Ok((rem, v)) => RawObs::Ok {
            v: v.to_v(&abs),
            rem_ptr: rem.as_ptr() as usize,
            rem_len: rem.len(),
        },
        Err(Err::Incomplete(Needed::Size(_))) | Err(Err::Incomplete(Needed::Unknown)) => {
            RawObs::Other(Got::Incomplete(None))
        }
        Err(Err::Error(e)) => RawObs::Other(Got::Error(kind_name(e.code))),
        Err(Err::Failure(e)) => RawObs::Other(Got::Failure(kind_name(e.code))),
    }
}

fn rebase(v: &V, b: &Base) -> V {
    match v {
        V::S(_, 0) => V::S(0, 0),
        V::S(p, l) => {
            if *p >= b.ptr && p + l <= b.ptr + b.len {
                V::S(p - b.ptr, *l)
            } else {
                V::S(OUTSIDE, *l)
            }
        }
        V::L(x) => V::L(x.iter().map(|y| rebase(y, b)).collect()),
        V::N(n, x) => V::N(n, x.iter().map(|y| rebase(y, b)).collect()),
        V::Some(x) => V::some(rebase(x, b)),
        o => o.clone(),
    }
}

/// Everything observable after one operation on the real object.
#[derive(Clone, Debug, PartialEq, Eq)]
pub struct Obs {
    pub got: Got,
    pub in_progress: bool,
    pub buf: Vec<u8>,
    pub ty: Option<u8>,
    /// digest of the parser's derived Debug text: whatever other state the object carries (a cache, a counter, a
    /// remembered header field) is part of the explored state, so two histories are merged only if the whole
    /// object looks the same
    pub hidden: u64,
}

/// Apply one operation to the real parser. `region` says which buffer an Ok result is expected
/// to borrow from (slices elsewhere come out as OUTSIDE).
pub fn impl_step(p: &mut TlsRecordsParser, op: &Op, alpha: &[Rec], region: Region) -> Obs {
    let got = match op {
        Op::Reset => {
            p.reset();
            Got::Error("reset")
        }
        Op::Parse(i) | Op::NoCopy(i) => {
            let r = &alpha[*i];
            let nocopy = matches!(op, Op::NoCopy(_));
            let res = guarded(|| {
                let rr = raw(r);
                if nocopy {
                    observe(p.parse_record_nocopy(rr))
                } else {
                    observe(p.parse_record(rr))
                }
            });
            match res {
                Err(m) => Got::Panic(m),
                Ok(RawObs::Other(g)) => g,
                Ok(RawObs::Ok { v, rem_ptr, rem_len }) => {
                    let base = match region {
                        Region::Record => Base::of(&r.data),
                        Region::Buffer => Base::of(p.verif_defrag_buffer()),
                    };
                    if rem_len > base.len {
                        Got::BadRemainder(format!("remainder of {} bytes, source buffer has {}", rem_len, base.len))
                    } else {
                        let consumed = base.len - rem_len;
                        if rem_len > 0 && rem_ptr != base.ptr + consumed {
                            Got::BadRemainder(format!(
                                "remainder ({} bytes) is not the tail of the {:?} it should borrow from",
                                rem_len, region
                            ))
                        } else {
                            Got::Ok(rebase(&v, &base), consumed)
                        }
                    }
                }
            }
        }
    };
    let hidden = if crate::defrag_explore::FINE_KEY.load(std::sync::atomic::Ordering::Relaxed) && p.verif_defrag_buffer().len() <= 4096 { vcommon::report::fnv(0, format!("{:?}", p).as_bytes()) } else { 0 };
    Obs {
        got,
        in_progress: p.defrag_in_progress(),
        buf: p.verif_defrag_buffer().to_vec(),
        ty: p.verif_current_record_type().map(|t| t.0),
        hidden,
    }
}

/// Compare one implementation step with the reference; `before` is the implementation's state
/// before the call. Returns a description of the first disagreement.
pub fn compare(
    op: &Op,
    before: &(Vec<u8>, Option<u8>),
    obs: &Obs,
    exp: &Got,
    region: Region,
    unchanged: bool,
    st: &RefState,
) -> Option<String> {
    if let Got::Panic(m) = &obs.got {
        return Some(format!("panic: {}", m));
    }
    if obs.got != *exp {
        return Some(format!("{:?} returned {:?}, accumulate-then-parse gives {:?}", op, obs.got, exp));
    }
    if obs.in_progress != st.ty.is_some() {
        return Some(format!(
            "after {:?}: defrag_in_progress() = {}, reference says {}",
            op,
            obs.in_progress,
            st.ty.is_some()
        ));
    }
    if obs.ty != st.ty {
        return Some(format!("after {:?}: current record type {:?}, reference {:?}", op, obs.ty, st.ty));
    }
    if (st.ty.is_some() || (exp.is_ok() && region == Region::Buffer)) && obs.buf != st.acc {
        return Some(format!(
            "after {:?}: buffered bytes differ from the concatenation of the fragments ({} vs {} bytes)",
            op,
            obs.buf.len(),
            st.acc.len()
        ));
    }
    if unchanged && (obs.buf != before.0 || obs.ty != before.1) {
        return Some(format!("{:?} must leave the state unchanged but the buffer / type changed", op));
    }
    if obs.buf.len() >= MAX_DATA && !OVERSIZE_RECORDS.with(|o| o.get()) {
        return Some(format!("buffer reached {} bytes (>= 10 MiB)", obs.buf.len()));
    }
    None
}
