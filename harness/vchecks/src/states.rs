//! C08 adapter: the 25 states and representative messages of every kind.
use tls_parser::*;
use vcommon::reference::states::{KINDS, STATES};

pub fn all_states() -> Vec<TlsState> {
    use TlsState::*;
    vec![
        None,
        ClientHello,
        AskResumeSession,
        ResumeSession,
        ServerHello,
        Certificate,
        CertificateSt,
        ServerKeyExchange,
        ServerHelloDone,
        ClientKeyExchange,
        ClientChangeCipherSpec,
        CRCertRequest,
        CRHelloDone,
        CRCert,
        CRClientKeyExchange,
        CRCertVerify,
        NoCertSKE,
        NoCertHelloDone,
        NoCertCKE,
        PskHelloDone,
        PskCKE,
        SessionEncrypted,
        Alert,
        Finished,
        Invalid,
    ]
}

pub fn state_index(s: TlsState) -> usize {
    let n = format!("{:?}", s);
    STATES
        .iter()
        .position(|x| *x == n)
        .unwrap_or_else(|| panic!("state {} not in reference list", n))
}

static R32: [u8; 32] = [7u8; 32];
static R32B: [u8; 32] = [
    0, 1, 2, 3, 4, 5, 6, 7, 8, 9, 10, 11, 12, 13, 14, 15, 16, 17, 18, 19, 20, 21, 22, 23, 24, 25, 26, 27, 28, 29, 30, 31,
];
static BIG: [u8; 300] = [0xabu8; 300];
static SID33: [u8; 33] = [9u8; 33];
static EXT: [u8; 6] = [0x00, 0x17, 0x00, 0x00, 0xff, 0x01];

/// Messages of one kind; index = payload variant. Alerts are handled separately (full sweep).
pub fn messages(kind: &str) -> Vec<TlsMessage<'static>> {
    use TlsMessage as M;
    use TlsMessageHandshake as H;
    let hs = |h: TlsMessageHandshake<'static>| M::Handshake(h);
    let cids = |v: &[u16]| v.iter().map(|&x| TlsCipherSuiteID(x)).collect::<Vec<_>>();
    let comps = |v: &[u8]| v.iter().map(|&x| TlsCompressionID(x)).collect::<Vec<_>>();
    match kind {
        "HReq" => vec![hs(H::HelloRequest)],
        "CH0" => vec![
            hs(H::ClientHello(TlsClientHelloContents::new(0x0303, &R32, None, vec![], vec![], None))),
            hs(H::ClientHello(TlsClientHelloContents::new(
                0x0301,
                &R32B,
                None,
                cids(&[0xc02f, 0x002f]),
                comps(&[0]),
                Some(&EXT),
            ))),
            hs(H::ClientHello(TlsClientHelloContents::new(
                0xffff,
                &BIG[..5],
                None,
                cids(&[0; 200]),
                comps(&[1; 255]),
                Some(&BIG),
            ))),
        ],
        "CH1" => vec![
            // session id present but empty (cannot come out of the parser, can be constructed)
            hs(H::ClientHello(TlsClientHelloContents::new(0x0303, &R32, Some(&[]), vec![], vec![], None))),
            hs(H::ClientHello(TlsClientHelloContents::new(
                0x0303,
                &R32,
                Some(&R32B[..1]),
                vec![],
                vec![],
                None,
            ))),
            hs(H::ClientHello(TlsClientHelloContents::new(
                0x0301,
                &R32B,
                Some(&R32B),
                cids(&[0xc02f]),
                comps(&[0]),
                Some(&EXT),
            ))),
            hs(H::ClientHello(TlsClientHelloContents::new(
                0x0000,
                &R32,
                Some(&SID33),
                cids(&[1, 2, 3]),
                comps(&[]),
                Some(&BIG),
            ))),
        ],
        "SH" => vec![
            hs(H::ServerHello(TlsServerHelloContents::new(0x0303, &R32, None, 0xc02f, 0, None))),
            hs(H::ServerHello(TlsServerHelloContents::new(
                0x0300,
                &R32B,
                Some(&R32B),
                0,
                1,
                Some(&EXT),
            ))),
            hs(H::ServerHello(TlsServerHelloContents::new(
                0x7f12,
                &BIG,
                Some(&SID33),
                0xffff,
                0xff,
                Some(&BIG),
            ))),
        ],
        "SH13" => vec![
            hs(H::ServerHelloV13Draft18(TlsServerHelloV13Draft18Contents {
                version: TlsVersion(0x7f12),
                random: &R32,
                cipher: TlsCipherSuiteID(0x1301),
                ext: None,
            })),
            hs(H::ServerHelloV13Draft18(TlsServerHelloV13Draft18Contents {
                version: TlsVersion(0x0303),
                random: &R32B,
                cipher: TlsCipherSuiteID(0),
                ext: Some(&EXT),
            })),
            hs(H::ServerHelloV13Draft18(TlsServerHelloV13Draft18Contents {
                version: TlsVersion(0xffff),
                random: &[],
                cipher: TlsCipherSuiteID(0xffff),
                ext: Some(&BIG),
            })),
        ],
        "NST" => vec![
            hs(H::NewSessionTicket(TlsNewSessionTicketContent {
                ticket_lifetime_hint: 0,
                ticket: &[],
            })),
            hs(H::NewSessionTicket(TlsNewSessionTicketContent {
                ticket_lifetime_hint: 7200,
                ticket: &R32,
            })),
            hs(H::NewSessionTicket(TlsNewSessionTicketContent {
                ticket_lifetime_hint: u32::MAX,
                ticket: &BIG,
            })),
        ],
        "EOED" => vec![hs(H::EndOfEarlyData)],
        "HRR" => vec![
            hs(H::HelloRetryRequest(TlsHelloRetryRequestContents {
                version: TlsVersion(0x7f12),
                cipher: TlsCipherSuiteID(0x1301),
                ext: None,
            })),
            hs(H::HelloRetryRequest(TlsHelloRetryRequestContents {
                version: TlsVersion(0x0304),
                cipher: TlsCipherSuiteID(0),
                ext: Some(&EXT),
            })),
            hs(H::HelloRetryRequest(TlsHelloRetryRequestContents {
                version: TlsVersion(0),
                cipher: TlsCipherSuiteID(0xffff),
                ext: Some(&BIG),
            })),
        ],
        "Cert" => vec![
            hs(H::Certificate(TlsCertificateContents { cert_chain: vec![] })),
            hs(H::Certificate(TlsCertificateContents {
                cert_chain: vec![RawCertificate { data: &R32 }],
            })),
            hs(H::Certificate(TlsCertificateContents {
                cert_chain: vec![
                    RawCertificate { data: &BIG },
                    RawCertificate { data: &[] },
                    RawCertificate { data: &R32B },
                ],
            })),
        ],
        "SKE" => vec![
            hs(H::ServerKeyExchange(TlsServerKeyExchangeContents { parameters: &[] })),
            hs(H::ServerKeyExchange(TlsServerKeyExchangeContents { parameters: &R32 })),
            hs(H::ServerKeyExchange(TlsServerKeyExchangeContents { parameters: &BIG })),
        ],
        "CReq" => vec![
            hs(H::CertificateRequest(TlsCertificateRequestContents {
                cert_types: vec![],
                sig_hash_algs: None,
                unparsed_ca: vec![],
            })),
            hs(H::CertificateRequest(TlsCertificateRequestContents {
                cert_types: vec![1, 2, 64],
                sig_hash_algs: Some(vec![0x0401, 0x0403]),
                unparsed_ca: vec![&R32],
            })),
            hs(H::CertificateRequest(TlsCertificateRequestContents {
                cert_types: vec![255; 255],
                sig_hash_algs: Some(vec![]),
                unparsed_ca: vec![&BIG, &[], &R32B],
            })),
        ],
        "SHD" => vec![hs(H::ServerDone(&[])), hs(H::ServerDone(&R32)), hs(H::ServerDone(&BIG))],
        "CV" => vec![
            hs(H::CertificateVerify(&[])),
            hs(H::CertificateVerify(&R32)),
            hs(H::CertificateVerify(&BIG)),
        ],
        "CKE" => vec![
            hs(H::ClientKeyExchange(TlsClientKeyExchangeContents::Unknown(&[]))),
            hs(H::ClientKeyExchange(TlsClientKeyExchangeContents::Dh(&R32))),
            hs(H::ClientKeyExchange(TlsClientKeyExchangeContents::Ecdh(ECPoint { point: &BIG[..65] }))),
            hs(H::ClientKeyExchange(TlsClientKeyExchangeContents::Unknown(&BIG))),
        ],
        "Fin" => vec![hs(H::Finished(&[])), hs(H::Finished(&R32[..12])), hs(H::Finished(&BIG))],
        "CSt" => vec![
            hs(H::CertificateStatus(TlsCertificateStatusContents {
                status_type: 1,
                blob: &[],
            })),
            hs(H::CertificateStatus(TlsCertificateStatusContents {
                status_type: 0,
                blob: &R32,
            })),
            hs(H::CertificateStatus(TlsCertificateStatusContents {
                status_type: 255,
                blob: &BIG,
            })),
        ],
        "NP" => vec![
            hs(H::NextProtocol(TlsNextProtocolContent {
                selected_protocol: &[],
                padding: &[],
            })),
            hs(H::NextProtocol(TlsNextProtocolContent {
                selected_protocol: b"h2",
                padding: &R32,
            })),
            hs(H::NextProtocol(TlsNextProtocolContent {
                selected_protocol: &BIG[..255],
                padding: &BIG[..255],
            })),
        ],
        "KU" => vec![hs(H::KeyUpdate(0)), hs(H::KeyUpdate(1)), hs(H::KeyUpdate(255))],
        "CCS" => vec![M::ChangeCipherSpec],
        "AppData" => vec![
            M::ApplicationData(TlsMessageApplicationData { blob: &[] }),
            M::ApplicationData(TlsMessageApplicationData { blob: &R32 }),
            M::ApplicationData(TlsMessageApplicationData { blob: &BIG }),
        ],
        "Heartbeat" => vec![
            M::Heartbeat(TlsMessageHeartbeat {
                heartbeat_type: TlsHeartbeatMessageType(1),
                payload_len: 0,
                payload: &[],
            }),
            M::Heartbeat(TlsMessageHeartbeat {
                heartbeat_type: TlsHeartbeatMessageType(2),
                payload_len: 32,
                payload: &R32,
            }),
            M::Heartbeat(TlsMessageHeartbeat {
                heartbeat_type: TlsHeartbeatMessageType(255),
                payload_len: 0xffff,
                payload: &BIG,
            }),
        ],
        "AlertWarning" => vec![alert(1, 0), alert(1, 0x28), alert(1, 0xff)],
        "AlertOther" => vec![alert(2, 0), alert(0, 0x28), alert(0xff, 0xff), alert(3, 1)],
        _ => panic!("unknown kind {}", kind),
    }
}

pub fn alert(sev: u8, code: u8) -> TlsMessage<'static> {
    TlsMessage::Alert(TlsMessageAlert {
        severity: TlsAlertSeverity(sev),
        code: TlsAlertDescription(code),
    })
}

/// one representative message per kind, in KINDS order
pub fn representatives() -> Vec<TlsMessage<'static>> {
    KINDS.iter().map(|k| messages(k).remove(0)).collect()
}

/// Ok(state index) / Err(error name)
pub fn step(s: TlsState, m: &TlsMessage, to_server: bool) -> Result<usize, &'static str> {
    match tls_state_transition(s, m, to_server) {
        Ok(n) => Ok(state_index(n)),
        Err(StateChangeError::InvalidTransition) => Err("InvalidTransition"),
        Err(StateChangeError::ParseError) => Err("ParseError"),
    }
}

/// Messages of every kind with widely varied content, obtained by parsing the handshake catalogue,
/// the magic-random hellos and hellos whose extension block is every known extension (alone and
/// in pairs). Returns (kind index, message); buffers are leaked on purpose (process lifetime).
pub fn parsed_corpus() -> Vec<(usize, TlsMessage<'static>)> {
    use vcommon::catalogue as cat;
    use vcommon::reference::states::kind;
    let mut bufs: Vec<Vec<u8>> = Vec::new();
    for w in cat::handshake_messages(false) {
        bufs.push(w.buf);
    }
    for w in cat::magic_hellos() {
        if w.lens.first().map_or(false, |l| l.label == "hs_len") {
            bufs.push(w.buf);
        }
    }
    for w in cat::hellos_with_extension_lists() {
        if w.lens.first().map_or(false, |l| l.label == "hs_len") {
            bufs.push(w.buf);
        }
    }
    let mut out = Vec::new();
    for b in bufs {
        let b: &'static [u8] = Box::leak(b.into_boxed_slice());
        if let Ok((_, m)) = parse_tls_message_handshake(b) {
            let k = match &m {
                TlsMessage::Handshake(h) => match h {
                    TlsMessageHandshake::HelloRequest => "HReq",
                    TlsMessageHandshake::ClientHello(c) => {
                        if c.session_id.is_some() {
                            "CH1"
                        } else {
                            "CH0"
                        }
                    }
                    TlsMessageHandshake::ServerHello(_) => "SH",
                    TlsMessageHandshake::ServerHelloV13Draft18(_) => "SH13",
                    TlsMessageHandshake::NewSessionTicket(_) => "NST",
                    TlsMessageHandshake::EndOfEarlyData => "EOED",
                    TlsMessageHandshake::HelloRetryRequest(_) => "HRR",
                    TlsMessageHandshake::Certificate(_) => "Cert",
                    TlsMessageHandshake::ServerKeyExchange(_) => "SKE",
                    TlsMessageHandshake::CertificateRequest(_) => "CReq",
                    TlsMessageHandshake::ServerDone(_) => "SHD",
                    TlsMessageHandshake::CertificateVerify(_) => "CV",
                    TlsMessageHandshake::ClientKeyExchange(_) => "CKE",
                    TlsMessageHandshake::Finished(_) => "Fin",
                    TlsMessageHandshake::CertificateStatus(_) => "CSt",
                    TlsMessageHandshake::NextProtocol(_) => "NP",
                    TlsMessageHandshake::KeyUpdate(_) => "KU",
                },
                _ => continue,
            };
            out.push((kind(k), m));
        }
    }
    out
}
