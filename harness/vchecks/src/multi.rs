//! Differential oracle for the multi-record parsers (C16, and the datagram clause of C10): the
//! explicit loop over the real single-record parser.
use crate::mirror::{call, Base, ToV};
use serde_json::json;
use tls_parser::*;
use vcommon::iso::guarded;
use vcommon::report::*;
use vcommon::v::{Got, V};

/// explicit loop over the real single-record parser: (records, offset where parsing stops, first-record outcome)
pub fn loop_tls(b: &[u8]) -> (Vec<V>, usize, bool) {
    let base = Base::of(b);
    let mut v = Vec::new();
    let mut off = 0;
    let mut first_ok = false;
    loop {
        match parse_tls_plaintext(&b[off..]) {
            Ok((rem, r)) => {
                let used = b.len() - off - rem.len();
                v.push(r.to_v(&base));
                first_ok = true;
                if used == 0 {
                    break;
                }
                off += used;
            }
            Err(_) => break,
        }
    }
    (v, off, first_ok)
}

pub fn loop_dtls(b: &[u8]) -> (Vec<V>, usize, bool) {
    let base = Base::of(b);
    let mut v = Vec::new();
    let mut off = 0;
    let mut first_ok = false;
    loop {
        match parse_dtls_plaintext_record(&b[off..]) {
            Ok((rem, r)) => {
                let used = b.len() - off - rem.len();
                v.push(r.to_v(&base));
                first_ok = true;
                if used == 0 {
                    break;
                }
                off += used;
            }
            Err(_) => break,
        }
    }
    (v, off, first_ok)
}

pub fn check(b: &[u8], sink: &mut Sink) {
    for (name, dtls) in [("tls_parser_many", false), ("parse_dtls_plaintext_records", true)] {
        let got = if dtls { call(b, parse_dtls_plaintext_records) } else { call(b, tls_parser_many) };
        let exp = guarded(|| if dtls { loop_dtls(b) } else { loop_tls(b) });
        let (recs, stop, first_ok) = match exp {
            Ok(x) => x,
            Err(p) => {
                sink.violation(format!("{} {} panic", name, key_of(b)), format!("single-record parser panics: {}", p), json!({"kind":"many","input":enc_input(b)}));
                continue;
            }
        };
        sink.case(fnv(dtls as u64, b), true);
        let n = recs.len();
        sink.count(name, match n {
            0 => "0 records",
            1 => "1 record",
            2 => "2 records",
            _ => "3+ records",
        });
        let bad = match &got {
            Got::Ok(V::L(items), consumed) => {
                if !first_ok {
                    Some("succeeds although the very first record does not parse".to_string())
                } else if *items != recs {
                    Some(format!("returns {} record(s), the explicit loop {}: {:?} vs {:?}", items.len(), n, items, recs))
                } else if *consumed != stop {
                    Some(format!("remainder starts at byte {}, the first failing / incomplete record starts at {}", consumed, stop))
                } else {
                    None
                }
            }
            Got::Panic(p) => Some(format!("panic: {}", p)),
            Got::BadRemainder(m) => Some(m.clone()),
            _ => {
                if first_ok {
                    Some(format!("fails with {:?} although the first record parses", got))
                } else {
                    None
                }
            }
        };
        if let Some(w) = bad {
            sink.violation(
                format!("{} {}", name, key_of(b)),
                format!("{}({}): {:.600}", name, hexshort(b), w),
                json!({"kind":"many","input":enc_input(b)}),
            );
        }
    }
    // the deprecated alias
    #[allow(deprecated)]
    let a = call(b, tls_parser);
    let p = call(b, parse_tls_plaintext);
    sink.evals += 1;
    sink.count("tls_parser", if a.is_ok() { "Ok" } else { "not-Ok" });
    if a != p {
        sink.violation(
            format!("tls_parser {}", key_of(b)),
            format!("tls_parser({}) = {:.300} but parse_tls_plaintext gives {:.300}", hexshort(b), format!("{:?}", a), format!("{:?}", p)),
            json!({"kind":"many","input":enc_input(b)}),
        );
    }
}

