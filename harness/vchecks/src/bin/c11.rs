//! C11 — unknown enumerated code points are accepted and preserved (E3: complete field domains).
use serde_json::{json, Map};
use vchecks::sweep::*;
use vchecks::fields::*;
use vchecks::targets::*;
use vcommon::report::*;
use vcommon::v::Ref;

fn main() {
    let run = Run::from_args("C11", "exploration");
    let fs = fields();
    if let Some(v) = run.load_replay() {
        if v["case"]["kind"] == "history" {
            machinery_failure(run.prop, "defragmenter histories are replayed with ./check C07 --replay");
        }
        let all: Vec<&Target> = fs.iter().flat_map(|f| f.targets.iter().copied()).collect();
        std::process::exit(replay_parse(&run, &all, &v["case"], &|_, _, _| {}));
    }
    // work items: (field, 4096-chunk)
    let mut items: Vec<(usize, u32, u32)> = Vec::new();
    for (fi, f) in fs.iter().enumerate() {
        if f.bits == 0 {
            continue;
        }
        let n = 1u32 << f.bits;
        let mut lo = 0;
        while lo < n {
            items.push((fi, lo, (lo + 4096).min(n)));
            lo += 4096;
        }
    }
    let sink = par_run(run.threads, items.len(), |i, sink| {
        let (fi, lo, hi) = items[i];
        let f = &fs[fi];
        for x in lo..hi {
            let w = (f.build)(x);
            for t in &f.targets {
                let (g, r) = check_case(run.prop, t, &w.buf, sink);
                sink.count(f.name, if g.is_ok() { "accepted" } else { "REJECTED" });
                // the enclosing structure is well-formed by construction: the reference must say so
                if !matches!(r, Ref::Must(..)) {
                    machinery_failure(run.prop, &format!("field {:?} value {}: the enclosing structure is not well-formed for the reference ({:?})", f.name, x, r));
                }
                if x == 0x99 {
                    sink.sample(40, || json!({"field": f.name, "value": x, "func": t.name, "input": hexshort(&w.buf), "got": g.class()}));
                }
            }
        }
    });
    // combinations of header fields (a guard keyed on several fields at once): every content type x
    // 12 versions x every high byte of the declared length (low byte 00 / ff), complete records
    let versions: [u16; 12] = [0x0300, 0x0301, 0x0302, 0x0303, 0x0304, 0x0200, 0x0002, 0x0100, 0xfeff, 0xfefd, 0x0000, 0xffff];
    let grid = par_run(run.threads, 256, |ty, sink| {
        let mut buf = vec![0u8; 5 + 16640 + 4];
        for &ver in &versions {
            for hi in 0..=0x41usize {
                for lo in [0x00usize, 0xff] {
                    let len = (hi << 8) | lo;
                    if len > 16640 {
                        continue;
                    }
                    buf[0] = ty as u8;
                    buf[1] = (ver >> 8) as u8;
                    buf[2] = ver as u8;
                    buf[3] = hi as u8;
                    buf[4] = lo as u8;
                    for t in [&RAW_RECORD, &ENCRYPTED] {
                        let (g, r) = check_case(run.prop, t, &buf[..5 + len + 4], sink);
                        sink.count("content type x version x length grid", if g.is_ok() { "accepted" } else { "REJECTED" });
                        if !matches!(r, Ref::Must(..)) {
                            machinery_failure(run.prop, "grid record not well-formed for the reference");
                        }
                    }
                }
            }
        }
    });
    let mut sink = sink;
    sink.merge(grid);
    // enumerated fields in combination: the hello messages over version x magic random x session id x cipher kind x
    // all 256 compression ids x extension block (the well-formed ones; the others belong to C03/C04)
    for (server, dtls) in [(true, false), (false, false), (true, true), (false, true)] {
        let t: &'static Target = if dtls { &DTLS_HANDSHAKE } else { &MSG_HANDSHAKE };
        let sg = par_run(run.threads, 64, |c, sink| {
            for w in vcommon::catalogue::hello_grid(server, dtls, run.tier == Tier::Thorough, c, 64) {
                if !matches!((t.reference)(&w.buf), Ref::Must(..)) {
                    continue;
                }
                let (g, _) = check_case(run.prop, t, &w.buf, sink);
                sink.count("hello field grid", if g.is_ok() { "accepted" } else { "REJECTED" });
            }
        });
        sink.merge(sg);
    }
    // the record version of raw records handed to the defragmenter: every value, on the first fragment, on the
    // continuation and on both, of a ClientHello split over two records (accepted = the message comes out)
    {
        use vchecks::defrag::{run_history, Op, Rec};
        let p = vchecks::defrag_explore::client_hello_min();
        let sd = par_run(run.threads, 256, |hi, sink| {
            for lo in 0..256u32 {
                let ver = ((hi as u32) << 8 | lo) as u16;
                for (v0, v1) in [(ver, 0x0303), (0x0303, ver), (ver, ver), (ver, !ver), (ver, ver.swap_bytes())] {
                    let alpha = vec![Rec { ty: 0x16, data: p[..7].to_vec(), ver: v0 }, Rec { ty: 0x16, data: p[7..].to_vec(), ver: v1 }];
                    let ops = [Op::Parse(0), Op::Parse(1)];
                    sink.evals += 2;
                    sink.count("record version of defragmenter input", "accepted");
                    if let Some((n, m)) = run_history(&alpha, &ops) {
                        sink.violation(
                            format!("defrag versions {:#06x} {:#06x}", v0, v1),
                            format!("a ClientHello split over two records with versions {:#06x} / {:#06x}: operation {}: {}", v0, v1, n, m),
                            json!({"kind":"history","scenario":"C11 record versions","ops":vchecks::defrag_explore::hist_json(&ops[..=n], &alpha)}),
                        );
                    }
                }
            }
        });
        sink.merge(sd);
    }
    // lists of enumerated values (signature algorithms, certificate types, cipher suites, compression methods, groups,
    // versions, modes) whose bytes happen to be another well-formed structure: every value is still returned as it is
    {
        let (msgs, exts) = vcommon::catalogue::enum_lists_with_foreign_content();
        for (t, items) in [(&MSG_HANDSHAKE, &msgs), (&EXTENSION, &exts)] {
            for w in items {
                if matches!((t.reference)(&w.buf), Ref::Must(..)) {
                    let (g, _) = check_case(run.prop, t, &w.buf, &mut sink);
                    sink.count("enumerated lists with foreign content", if g.is_ok() { "accepted" } else { "REJECTED" });
                }
            }
        }
    }
    // the catalogues of well-formed extensions (multi-entry lists with known and unknown code points in every order): each
    // value stays where it was
    {
        let mut k = vcommon::catalogue::known_extensions();
        k.extend(vcommon::catalogue::text_extensions());
        k.extend(vcommon::catalogue::semantic_extensions().into_iter().map(|e| {
            let mut w = vcommon::en::W::new();
            w.bytes(&e.1);
            w
        }));
        // name / protocol / group lists in ascending, descending and repeated order of their code points
        for order in [vec![0u8, 5, 255], vec![255, 5, 0], vec![5, 0], vec![7, 7, 0, 0], vec![1, 0, 1, 0]] {
            k.push(vcommon::catalogue::ext(0, |w| {
                w.block(2, "l", |w| {
                    for (i, t) in order.iter().enumerate() {
                        w.u8(*t);
                        w.block(2, "n", |w| {
                            w.bytes(format!("h{}.example", i).as_bytes());
                        });
                    }
                });
            }));
            for t in [10u16, 13] {
                k.push(vcommon::catalogue::ext(t, |w| {
                    w.block(2, "l", |w| {
                        for t in &order {
                            w.u16(*t as u16 * 257);
                        }
                    });
                }));
            }
        }
        let sx = par_run(run.threads, k.len().div_ceil(16), |c, sink| {
            for w in k.iter().skip(c * 16).take(16).filter(|w| w.buf.len() < 70000) {
                for t in [&EXTENSION, &EXTENSIONS] {
                    if !matches!((t.reference)(&w.buf), Ref::Must(..)) {
                        continue;
                    }
                    let (g, _) = check_case(run.prop, t, &w.buf, sink);
                    sink.count("extension catalogues", if g.is_ok() { "accepted" } else { "REJECTED" });
                }
            }
        });
        sink.merge(sx);
    }
    // DTLS (and TLS) alert records over epoch x number of alerts x position of the swept alert: all 65536 (level, description)
    // pairs in the first / second alert of records with 1..3 alerts, epochs 0 / 1 / 0xffff
    {
        let sa = par_run(run.threads, 256, |lvl, sink| {
            for desc in 0..=255u8 {
                for nalerts in 1..=3usize {
                    for pos in 0..nalerts.min(2) {
                        let mut payload = Vec::new();
                        for k in 0..nalerts {
                            if k == pos {
                                payload.extend([lvl as u8, desc]);
                            } else {
                                payload.extend([1u8, 0]);
                            }
                        }
                        for epoch in [0u16, 1, 0xffff] {
                            let w = vcommon::catalogue::dtls_record(0x15, 0xfefd, epoch, 5, |w| {
                                w.bytes(&payload);
                            });
                            if matches!((DTLS_RECORD.reference)(&w.buf), Ref::Must(..)) {
                                let (g, _) = check_case(run.prop, &DTLS_RECORD, &w.buf, sink);
                                sink.count("DTLS alert grid", if g.is_ok() { "accepted" } else { "REJECTED" });
                            }
                        }
                        if nalerts > 1 {
                            let w = vcommon::catalogue::record(0x15, 0x0303, |w| {
                                w.bytes(&payload);
                            });
                            if matches!((PLAINTEXT.reference)(&w.buf), Ref::Must(..)) {
                                let (g, _) = check_case(run.prop, &PLAINTEXT, &w.buf, sink);
                                sink.count("TLS alert grid", if g.is_ok() { "accepted" } else { "REJECTED" });
                            }
                        }
                    }
                }
            }
        });
        sink.merge(sa);
    }
    // encrypted_server_name: suite x group (registered or not, in every combination) x field sizes; key_share: group x size
    {
        let mut k = vcommon::catalogue::esni_grid();
        k.extend(vcommon::catalogue::group_size_extensions());
        let sx = par_run(run.threads, k.len().div_ceil(64), |c, sink| {
            for w in k.iter().skip(c * 64).take(64) {
                for t in [&EXTENSION, &EXTENSIONS] {
                    if !matches!((t.reference)(&w.buf), Ref::Must(..)) {
                        continue;
                    }
                    let (g, _) = check_case(run.prop, t, &w.buf, sink);
                    sink.count("extension field grids", if g.is_ok() { "accepted" } else { "REJECTED" });
                }
            }
        });
        sink.merge(sx);
    }
    // records that look like SSLv2-compatible hellos / other protocols are records like any other for the envelope parsers
    let foreign = vcommon::catalogue::foreign_protocols();
    let sf = par_run(run.threads, foreign.len(), |i, sink| {
        let b = &foreign[i];
        let len = ((b[3] as usize) << 8) | b[4] as usize;
        if len <= 16640 && b.len() >= 5 + len {
            for t in [&RAW_RECORD, &ENCRYPTED] {
                let (g, _) = check_case(run.prop, t, b, sink);
                sink.count("foreign-protocol shaped records", if g.is_ok() { "accepted" } else { "REJECTED" });
            }
        }
    });
    sink.merge(sf);
    let mut cov = Map::new();
    cov.insert("exhaustive".into(), json!(true));
    cov.insert("fields".into(), json!(fs.iter().filter(|f| f.bits > 0).map(|f| json!({"field": f.name, "values": 1u32 << f.bits, "entry_points": f.targets.iter().map(|t| t.name).collect::<Vec<_>>()})).collect::<Vec<_>>()));
    cov.insert("rule".into(), json!(
        "for each enumerated field that does not select the structure being parsed: an otherwise well-formed enclosing structure with the field ranging over its entire domain (256 or 65536 values; both axes for two-byte pairs), parsed through every entry point exposing the field; oracle: accepted, and the whole decoded value equals the strict reference decode (the field equals the wire value, nothing else changes). Plus, for the raw / encrypted record envelope, the grid of every content type x 12 versions x every high byte of the declared length (complete records). Plus the hello messages (TLS and DTLS, client and server) over version x 7 randoms (HelloRetryRequest value, downgrade sentinels) x 2 session ids x 60 cipher kinds x 5 (thorough: all 256) compression ids x 4 extension blocks. Plus every record version on the first fragment / continuation / both (and two different values) of a ClientHello split over two records through TlsRecordsParser. Distinct by construction; non-trivial: every case"));
    // the same check against the crate built with all cargo features (std, serialize, unstable)
    let mut sink = sink;
    run.all_features_variant(&mut sink);
    let code = run.finish(
        &sink,
        cov,
        vec!["fields that select a structure (TLS ServerHello version, EC curve type, handshake and content type of parse_tls_plaintext, known extension types) are outside the statement and covered by C03/C04/C05/C13".into()],
    );
    std::process::exit(code);
}
