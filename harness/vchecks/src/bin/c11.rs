//! C11 — unknown enumerated code points are accepted and preserved (E3: complete field domains).
use serde_json::{json, Map};
use vchecks::sweep::*;
use vchecks::targets::*;
use vcommon::catalogue as cat;
use vcommon::en::W;
use vcommon::report::*;
use vcommon::v::Ref;

// for types that are neither known nor GREASE every dispatcher must answer Unknown(type, data),
// i.e. exactly what the generic reference says
static EXT_CLIENT_REF: Target = Target {
    name: "parse_tls_client_hello_extension",
    run: |b| vchecks::mirror::call(b, tls_parser::parse_tls_client_hello_extension),
    reference: vcommon::reference::wire::ref_extension,
};
static EXT_SERVER_REF: Target = Target {
    name: "parse_tls_server_hello_extension",
    run: |b| vchecks::mirror::call(b, tls_parser::parse_tls_server_hello_extension),
    reference: vcommon::reference::wire::ref_extension,
};

struct Field {
    name: &'static str,
    bits: u32,
    targets: Vec<&'static Target>,
    /// encoding of the enclosing structure with the field set to x (second parameter for 2-D fields)
    build: Box<dyn Fn(u32) -> W + Sync>,
}

fn fields() -> Vec<Field> {
    let mut f: Vec<Field> = Vec::new();
    let mut add = |name: &'static str, bits: u32, targets: Vec<&'static Target>, build: Box<dyn Fn(u32) -> W + Sync>| {
        f.push(Field { name, bits, targets, build })
    };
    let hello = |w: &mut W, version: u16, ciphers: &[u16], comps: &[u8]| {
        w.u16(version);
        w.fill(32, 0x40);
        w.u8(0);
        w.block(2, "ciphers", |w| {
            for c in ciphers {
                w.u16(*c);
            }
        });
        w.block(1, "comps", |w| {
            for c in comps {
                w.u8(*c);
            }
        });
    };
    add("record version (plaintext / raw / encrypted)", 16, vec![&PLAINTEXT, &RAW_RECORD, &ENCRYPTED, &TWO_STEP], Box::new(|x| {
        cat::record(0x16, x as u16, |w| {
            w.bytes(&[0x0e, 0, 0, 0]);
        })
    }));
    add("content type of raw / encrypted records", 8, vec![&RAW_RECORD, &ENCRYPTED], Box::new(|x| cat::record(x as u8, 0x0303, |w| {
        w.fill(3, 1);
    })));
    add("DTLS record version", 16, vec![&DTLS_RECORD], Box::new(|x| {
        cat::dtls_record(0x15, x as u16, 1, 2, |w| {
            w.u8(1).u8(0);
        })
    }));
    add("ClientHello version (inside a record)", 16, vec![&PLAINTEXT], Box::new(move |x| {
        cat::record(0x16, 0x0301, |w| {
            w.append(&cat::hs(1, |w| hello(w, x as u16, &[0x002f], &[0])));
        })
    }));
    add("ClientHello version (message level)", 16, vec![&MSG_HANDSHAKE], Box::new(move |x| cat::hs(1, |w| hello(w, x as u16, &[0x002f], &[0]))));
    add("HelloRetryRequest version", 16, vec![&MSG_HANDSHAKE], Box::new(|x| cat::hs(6, |w| {
        w.u16(x as u16).u16(0x1301);
    })));
    add("DTLS ClientHello / ServerHello / HelloVerifyRequest version", 16, vec![&DTLS_HANDSHAKE], Box::new(|x| {
        cat::dtls_hs(1, 0, None, 0, |w| cat::client_hello_body(w, x as u16, 0, 1, 1, cat::ExtBlock::Absent, Some(3)))
    }));
    add("DTLS ServerHello version", 16, vec![&DTLS_HANDSHAKE], Box::new(|x| {
        cat::dtls_hs(2, 0, None, 0, |w| {
            w.u16(x as u16);
            w.fill(32, 0x20);
            w.u8(0).u16(0xc02f).u8(0);
        })
    }));
    add("DTLS HelloVerifyRequest version", 16, vec![&DTLS_HANDSHAKE], Box::new(|x| {
        cat::dtls_hs(3, 0, None, 0, |w| {
            w.u16(x as u16);
            w.block(1, "cookie", |w| {
                w.fill(2, 7);
            });
        })
    }));
    add("cipher-suite id in a ClientHello list", 16, vec![&MSG_HANDSHAKE], Box::new(move |x| cat::hs(1, |w| hello(w, 0x0303, &[0x1301, x as u16, !(x as u16)], &[0]))));
    add("ServerHello cipher-suite id", 16, vec![&MSG_HANDSHAKE], Box::new(|x| {
        cat::hs(2, |w| {
            w.u16(0x0303);
            w.fill(32, 0x20);
            w.u8(0).u16(x as u16).u8(0);
        })
    }));
    add("draft-18 ServerHello / HelloRetryRequest cipher-suite id", 16, vec![&MSG_HANDSHAKE], Box::new(|x| {
        if x % 2 == 0 {
            cat::hs(2, |w| {
                w.u16(0x7f12);
                w.fill(32, 0x20);
                w.u16(x as u16);
            })
        } else {
            cat::hs(6, |w| {
                w.u16(0x7f12).u16(x as u16);
            })
        }
    }));
    add("compression id in a ClientHello list", 8, vec![&MSG_HANDSHAKE], Box::new(move |x| cat::hs(1, |w| hello(w, 0x0303, &[], &[x as u8, 0, !(x as u8)]))));
    add("ServerHello compression id", 8, vec![&MSG_HANDSHAKE], Box::new(|x| {
        cat::hs(2, |w| {
            w.u16(0x0301);
            w.fill(32, 0x20);
            w.u8(0).u16(0x002f).u8(x as u8);
        })
    }));
    add("alert level x description (TLS)", 16, vec![&PLAINTEXT, &TWO_STEP], Box::new(|x| {
        cat::record(0x15, 0x0303, |w| {
            w.u16(x as u16);
        })
    }));
    add("alert level x description (DTLS)", 16, vec![&DTLS_RECORD], Box::new(|x| {
        cat::dtls_record(0x15, 0xfefd, 0, 0, |w| {
            w.u16(x as u16);
        })
    }));
    add("heartbeat message type", 8, vec![&PLAINTEXT, &TWO_STEP], Box::new(|x| {
        cat::record(0x18, 0x0303, |w| {
            w.u8(x as u8);
            w.block(2, "hb", |w| {
                w.fill(1, 3);
            });
            w.fill(2, 0);
        })
    }));
    add("heartbeat extension mode", 8, vec![&EXTENSION], Box::new(|x| cat::ext_with(15, &[x as u8])));
    add("max_fragment_length code", 8, vec![&EXTENSION], Box::new(|x| cat::ext_with(1, &[x as u8])));
    add("extension type (parse_tls_extension_unknown)", 16, vec![&EXT_UNKNOWN], Box::new(|x| cat::ext_with(x as u16, &[1, 2, 3])));
    add("extension type (all three dispatchers and the list parser; unassigned / GREASE types keep their number)", 16, vec![&EXTENSION, &EXTENSIONS, &EXT_CLIENT_REF, &EXT_SERVER_REF], Box::new(|x| {
        // known types would select a structure: map them onto a neighbouring unassigned value
        let t = x as u16;
        let t = if vcommon::reference::iana::KNOWN_EXT_TYPES.contains(&t) { t ^ 0x4000 } else { t };
        cat::ext_with(t, &[9, 8])
    }));
    add("named group in supported_groups", 16, vec![&EXTENSION], Box::new(|x| {
        cat::ext(10, |w| {
            w.block(2, "l", |w| {
                w.u16(0x0017).u16(x as u16);
            });
        })
    }));
    add("named group in ECParameters / ServerECDHParams", 16, vec![&EC_PARAMETERS, &ECDH_PARAMS], Box::new(|x| {
        let mut w = W::new();
        w.u8(3).u16(x as u16);
        w.block(1, "pt", |w| {
            w.fill(3, 4);
        });
        w
    }));
    add("encrypted_server_name cipher suite / group", 16, vec![&EXTENSION], Box::new(|x| {
        cat::ext(0xffce, |w| {
            w.u16(x as u16).u16(!(x as u16));
            w.block(2, "a", |_| {});
            w.block(2, "b", |_| {});
            w.block(2, "c", |_| {});
        })
    }));
    add("signature scheme in signature_algorithms", 16, vec![&EXTENSION], Box::new(|x| {
        cat::ext(13, |w| {
            w.block(2, "l", |w| {
                w.u16(x as u16);
            });
        })
    }));
    add("hash x signature algorithm in DigitallySigned", 16, vec![&SIGNED], Box::new(|x| {
        let mut w = W::new();
        w.u16(x as u16);
        w.block(2, "sig", |w| {
            w.fill(2, 0x30);
        });
        w
    }));
    add("signature_algorithms entry in CertificateRequest", 16, vec![&MSG_HANDSHAKE], Box::new(|x| cat::hs(13, |w| {
        w.u8(1).u8(1);
        w.block(2, "algs", |w| {
            w.u16(x as u16);
        });
        w.u16(0);
    })));
    add("certificate type in CertificateRequest", 8, vec![&MSG_HANDSHAKE], Box::new(|x| cat::hs(13, |w| {
        w.u8(2).u8(x as u8).u8(1);
        w.block(2, "algs", |w| {
            w.u16(0x0401);
        });
        w.u16(0);
    })));
    add("SNI name type", 8, vec![&EXTENSION], Box::new(|x| {
        cat::ext(0, |w| {
            w.block(2, "l", |w| {
                w.u8(x as u8);
                w.block(2, "n", |w| {
                    w.bytes(b"a.b");
                });
            });
        })
    }));
    add("certificate status type (CertificateStatus message)", 8, vec![&MSG_HANDSHAKE], Box::new(|x| cat::hs(22, |w| {
        w.u8(x as u8);
        w.block(3, "blob", |w| {
            w.fill(2, 0x30);
        });
    })));
    add("certificate status type (status_request extension)", 8, vec![&EXTENSION], Box::new(|x| cat::ext_with(5, &[x as u8, 0, 0, 0, 0])));
    add("PSK key exchange mode", 8, vec![&EXTENSION], Box::new(|x| cat::ext_with(45, &[2, x as u8, 1])));
    add("EC point format", 8, vec![&EXTENSION], Box::new(|x| cat::ext_with(11, &[2, 0, x as u8])));
    add("supported version", 16, vec![&EXTENSION], Box::new(|x| {
        cat::ext(43, |w| {
            w.block(1, "l", |w| {
                w.u16(0x0304).u16(x as u16);
            });
        })
    }));
    add("CT version", 8, vec![&SCT], Box::new(|x| {
        let mut w = W::new();
        cat::sct_entry(&mut w, x as u8, 5, 0, 4, 3, 2);
        w
    }));
    add("CT version (list)", 8, vec![&SCT_LIST], Box::new(|x| {
        let mut w = W::new();
        w.block(2, "list", |w| cat::sct_entry(w, x as u8, 5, 0, 4, 3, 2));
        w
    }));
    add("SCT hash x signature algorithm", 16, vec![&SCT], Box::new(|x| {
        let mut w = W::new();
        cat::sct_entry(&mut w, 0, 5, 0, (x >> 8) as u8, x as u8, 2);
        w
    }));
    add("KeyUpdate request value", 8, vec![&MSG_HANDSHAKE], Box::new(|x| cat::hs(24, |w| {
        w.u8(x as u8);
    })));
    add("EC curve type is a selector (only 1 and 3 parse): excluded, see C13", 0, vec![], Box::new(|_| W::new()));
    f
}

fn main() {
    let run = Run::from_args("C11", "exploration");
    let fs = fields();
    if let Some(v) = run.load_replay() {
        let all: Vec<&Target> = fs.iter().flat_map(|f| f.targets.iter().copied()).collect();
        std::process::exit(replay_parse(&run, &all, &v["case"], &|_, _, _| {}));
    }
    // work items: (field, 4096-chunk)
    let mut items: Vec<(usize, u32, u32)> = Vec::new();
    for (fi, f) in fs.iter().enumerate() {
        if f.bits == 0 {
            continue;
        }
        let n = 1u32 << f.bits;
        let mut lo = 0;
        while lo < n {
            items.push((fi, lo, (lo + 4096).min(n)));
            lo += 4096;
        }
    }
    let sink = par_run(run.threads, items.len(), |i, sink| {
        let (fi, lo, hi) = items[i];
        let f = &fs[fi];
        for x in lo..hi {
            let w = (f.build)(x);
            for t in &f.targets {
                let (g, r) = check_case(run.prop, t, &w.buf, sink);
                sink.count(f.name, if g.is_ok() { "accepted" } else { "REJECTED" });
                // the enclosing structure is well-formed by construction: the reference must say so
                if !matches!(r, Ref::Must(..)) {
                    machinery_failure(run.prop, &format!("field {:?} value {}: the enclosing structure is not well-formed for the reference ({:?})", f.name, x, r));
                }
                if x == 0x99 {
                    sink.sample(40, || json!({"field": f.name, "value": x, "func": t.name, "input": hexshort(&w.buf), "got": g.class()}));
                }
            }
        }
    });
    // combinations of header fields (a guard keyed on several fields at once): every content type x
    // 12 versions x every high byte of the declared length (low byte 00 / ff), complete records
    let versions: [u16; 12] = [0x0300, 0x0301, 0x0302, 0x0303, 0x0304, 0x0200, 0x0002, 0x0100, 0xfeff, 0xfefd, 0x0000, 0xffff];
    let grid = par_run(run.threads, 256, |ty, sink| {
        let mut buf = vec![0u8; 5 + 16640 + 4];
        for &ver in &versions {
            for hi in 0..=0x41usize {
                for lo in [0x00usize, 0xff] {
                    let len = (hi << 8) | lo;
                    if len > 16640 {
                        continue;
                    }
                    buf[0] = ty as u8;
                    buf[1] = (ver >> 8) as u8;
                    buf[2] = ver as u8;
                    buf[3] = hi as u8;
                    buf[4] = lo as u8;
                    for t in [&RAW_RECORD, &ENCRYPTED] {
                        let (g, r) = check_case(run.prop, t, &buf[..5 + len + 4], sink);
                        sink.count("content type x version x length grid", if g.is_ok() { "accepted" } else { "REJECTED" });
                        if !matches!(r, Ref::Must(..)) {
                            machinery_failure(run.prop, "grid record not well-formed for the reference");
                        }
                    }
                }
            }
        }
    });
    let mut sink = sink;
    sink.merge(grid);
    let mut cov = Map::new();
    cov.insert("exhaustive".into(), json!(true));
    cov.insert("fields".into(), json!(fs.iter().filter(|f| f.bits > 0).map(|f| json!({"field": f.name, "values": 1u32 << f.bits, "entry_points": f.targets.iter().map(|t| t.name).collect::<Vec<_>>()})).collect::<Vec<_>>()));
    cov.insert("rule".into(), json!(
        "for each enumerated field that does not select the structure being parsed: an otherwise well-formed enclosing structure with the field ranging over its entire domain (256 or 65536 values; both axes for two-byte pairs), parsed through every entry point exposing the field; oracle: accepted, and the whole decoded value equals the strict reference decode (the field equals the wire value, nothing else changes). Plus, for the raw / encrypted record envelope, the grid of every content type x 12 versions x every high byte of the declared length (complete records). Distinct by construction; non-trivial: every case"));
    let code = run.finish(
        &sink,
        cov,
        vec!["fields that select a structure (TLS ServerHello version, EC curve type, handshake and content type of parse_tls_plaintext, known extension types) are outside the statement and covered by C03/C04/C05/C13".into()],
    );
    std::process::exit(code);
}
