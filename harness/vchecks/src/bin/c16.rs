//! C16 — multi-record parsers equal repeated single-record parsing (differential, E2).
use serde_json::{json, Map};
use vchecks::multi::check;
use vcommon::catalogue as cat;
use vcommon::en::Alpha;
use vcommon::report::*;

fn main() {
    let run = Run::from_args("C16", "exploration");
    if let Some(v) = run.load_replay() {
        let b = dec_input(&v["case"]["input"]);
        let mut outs = Vec::new();
        for _ in 0..2 {
            let mut s = Sink::new();
            check(&b, &mut s);
            outs.push(s.viol.iter().map(|v| v.what.clone()).collect::<Vec<_>>());
        }
        if outs[0] != outs[1] {
            machinery_failure(run.prop, "replay is not deterministic");
        }
        if outs[0].is_empty() {
            println!("replay: property holds on this case");
            std::process::exit(0);
        }
        println!("replay: {}", outs[0].join(" | "));
        println!("VIOLATION property={} replay={}", run.prop, run.replay.clone().unwrap());
        std::process::exit(1);
    }
    let thorough = run.tier == Tier::Thorough;
    vcommon::en::WRAP_LIES.store(true, std::sync::atomic::Ordering::Relaxed);
    // record catalogues (valid records of every kind, TLS and DTLS)
    let hs = cat::small_handshake_messages();
    let mut recs: Vec<Vec<u8>> = vec![
        cat::record(0x14, 0x0303, |w| {
            w.u8(1);
        })
        .buf,
        cat::record(0x15, 0x0303, |w| {
            w.u8(1).u8(0);
        })
        .buf,
        cat::record(0x16, 0x0303, |w| {
            w.append(&hs[0]);
        })
        .buf,
        cat::record(0x16, 0x0301, |w| {
            w.append(&hs[3]).append(&hs[1]);
        })
        .buf,
        cat::record(0x16, 0x0303, |w| {
            w.append(&hs[10]);
        })
        .buf,
        cat::record(0x17, 0x0303, |w| {
            w.fill(5, 0x17);
        })
        .buf,
        cat::record(0x17, 0x0303, |_| {}).buf,
        cat::record(0x18, 0x0303, |w| {
            w.u8(1);
            w.block(2, "hb", |w| {
                w.fill(2, 9);
            });
            w.fill(3, 0);
        })
        .buf,
    ];
    // records carrying hellos whose extension blocks are those of deployed stacks (TLS 1.3 server blocks, PSK, HRR, browser-like ClientHello)
    let profiles = cat::hello_profiles();
    for (pi, server) in [(5usize, true), (6, true), (8, true), (0, false), (1, false)] {
        let block = &profiles[pi];
        recs.push(
            cat::record(0x16, 0x0303, |w| {
                w.append(&cat::hs(if server { 2 } else { 1 }, |w| {
                    w.u16(0x0303);
                    w.fill(32, 0x20);
                    w.block(1, "sid_len", |w| {
                        w.fill(32, 9);
                    });
                    if server {
                        w.u16(0x1301).u8(0);
                    } else {
                        w.block(2, "ciphers_len", |w| {
                            w.u16(0x1301).u16(0x00ff);
                        });
                        w.block(1, "comp_len", |w| {
                            w.u8(0);
                        });
                    }
                    w.block(2, "ext_len", |w| {
                        w.bytes(block);
                    });
                }));
            })
            .buf,
        );
    }
    let d_hs = cat::dtls_handshake_messages();
    let drecs: Vec<Vec<u8>> = vec![
        cat::dtls_record(0x14, 0xfefd, 0, 1, |w| {
            w.u8(1);
        })
        .buf,
        cat::dtls_record(0x15, 0xfefd, 0, 2, |w| {
            w.u8(2).u8(40);
        })
        .buf,
        cat::dtls_record(0x16, 0xfefd, 0, 3, |w| {
            w.append(&d_hs[0]);
        })
        .buf,
        cat::dtls_record(0x16, 0xfefd, 1, 4, |w| {
            w.append(&d_hs[d_hs.len() - 1]).append(&d_hs[d_hs.len() - 2]);
        })
        .buf,
    ];
    recs.extend(drecs);
    // terminators: nothing, strict prefixes of a valid record, oversize header, valid header with bad content, garbage
    let mut terms: Vec<Vec<u8>> = vec![vec![]];
    for r in [&recs[2], &recs[5], &recs[10]] {
        for cut in [1usize, 4, 5, 6, 12, 13, 14, r.len() - 1] {
            if cut < r.len() {
                terms.push(r[..cut].to_vec());
            }
        }
    }
    terms.push(vec![0x16, 0x03, 0x03, 0x41, 0x01, 0x00]);
    terms.push(vec![0x16, 0xfe, 0xfd, 0, 0, 0, 0, 0, 0, 0, 0, 0x41, 0x01, 0x00]);
    terms.push(vec![0x16, 0x03, 0x03, 0x00, 0x04, 0xff, 0x00, 0x00, 0x00]);
    terms.push(vec![0x14, 0x03, 0x03, 0x00, 0x01, 0x02]);
    terms.push(vec![0x99, 0x03, 0x03, 0x00, 0x00]);
    terms.push(vec![0xff; 20]);
    terms.push(vec![0x00]);
    let nrec = recs.len();
    let k = run.tier.pick(3, 4);
    // all concatenations of 0..k records followed by one terminator
    let mut seqs: Vec<Vec<usize>> = vec![vec![]];
    let mut level: Vec<Vec<usize>> = vec![vec![]];
    for _ in 0..k {
        let mut next = Vec::new();
        for s in &level {
            for r in 0..nrec {
                let mut t = s.clone();
                t.push(r);
                next.push(t);
            }
        }
        seqs.extend(next.iter().cloned());
        level = next;
    }
    let nseq = seqs.len();
    let mut sink = par_run(run.threads, seqs.len(), |i, sink| {
        let mut b: Vec<u8> = Vec::new();
        for &r in &seqs[i] {
            b.extend_from_slice(&recs[r]);
        }
        let base = b.len();
        for (ti, t) in terms.iter().enumerate() {
            b.truncate(base);
            b.extend_from_slice(t);
            check(&b, sink);
            if i % 97 == 3 && ti == 2 {
                sink.sample(6, || json!({"records": seqs[i], "terminator": hexs(t), "buffer": hexshort(&b)}));
            }
        }
    });
    // malformed records of every kind after 0..2 valid records: every single deviation (lying length
    // field, cut) of records carrying each kind of catalogue handshake message, TLS and DTLS
    let mut bad: Vec<Vec<u8>> = Vec::new();
    let sfx: Vec<Vec<u8>> = vec![];
    let mut sources: Vec<vcommon::en::W> = Vec::new();
    for m in cat::handshake_messages(false).into_iter().step_by(run.tier.pick(9, 3)) {
        sources.push(cat::record(0x16, 0x0303, |w| {
            w.append(&m);
        }));
    }
    for (i, m) in cat::dtls_handshake_messages().into_iter().enumerate().step_by(run.tier.pick(5, 2)) {
        sources.push(cat::dtls_record(0x16, 0xfefd, 0, i as u64, |w| {
            w.append(&m);
        }));
    }
    for w in &sources {
        vcommon::en::deviations(w, 1, &sfx, 24, &mut |devs, b| {
            if devs.iter().all(|d| matches!(d, vcommon::en::Dev::Lie(..))) {
                bad.push(b.to_vec());
            }
        });
    }
    let nbad = bad.len();
    let short_seqs: Vec<Vec<usize>> = seqs.iter().filter(|s| s.len() <= 2).cloned().collect();
    let sb = par_run(run.threads, bad.len(), |i, sink| {
        let mut b: Vec<u8> = Vec::new();
        for s in &short_seqs {
            // keep TLS prefixes for TLS terminators and DTLS prefixes for DTLS ones mostly, but mix as well
            b.clear();
            for &r in s {
                b.extend_from_slice(&recs[r]);
            }
            b.extend_from_slice(&bad[i]);
            check(&b, sink);
        }
    });
    sink.merge(sb);
    sink.bump("malformed-record terminators", nbad as u64);
    // a wider record catalogue (the above plus records whose payload is a prefix of each long message stream: runs of
    // HelloRequests, zero bytes, unknown types, flights, alerts, ...): all ordered pairs, and triples behind each of the
    // first three kinds of record (ChangeCipherSpec, alert, handshake)
    {
        let mut wide: Vec<Vec<u8>> = recs.clone();
        for (ty, s) in cat::message_streams() {
            for n in [8usize, 24, 40, 100] {
                let mut r = vec![ty, 0x03, 0x03, 0, n as u8];
                r.extend_from_slice(&s[..n]);
                wide.push(r);
            }
        }
        let nw = wide.len();
        let pairs: Vec<(usize, usize)> = (0..nw).flat_map(|a| (0..nw).map(move |b| (a, b))).collect();
        let sw = par_run(run.threads, pairs.len(), |i, sink| {
            let (a, b) = pairs[i];
            let mut buf = wide[a].clone();
            buf.extend_from_slice(&wide[b]);
            check(&buf, sink);
            for first in 0..3usize {
                let mut t = wide[first].clone();
                t.extend_from_slice(&buf);
                check(&t, sink);
            }
        });
        sink.merge(sw);
        sink.bump("wide-catalogue records", nw as u64);
    }
    // DTLS datagrams over the cross product of the record header fields: every ordered pair (and triples through a fixed
    // first record) of records with type x version x epoch x sequence number (0, 1, 2^32-1, 2^32, 2^47, 2^48-1): nothing in
    // one record's header decides about the next record
    {
        let d_small = cat::dtls_hs(14, 1, None, 0, |_| {}).buf;
        let mut hdrs: Vec<Vec<u8>> = Vec::new();
        for ty in [0x14u8, 0x15, 0x16] {
            for ver in [0xfefdu16, 0xfeff, 0xfefc, 0x0303] {
                for epoch in [0u16, 1, 0xffff] {
                    for seq in [0u64, 1, 0xffff_ffff, 0x1_0000_0000, 1 << 47, (1 << 48) - 1] {
                        hdrs.push(
                            cat::dtls_record(ty, ver, epoch, seq, |w| {
                                match ty {
                                    0x14 => {
                                        w.u8(1);
                                    }
                                    0x15 => {
                                        w.u8(1).u8(0);
                                    }
                                    _ => {
                                        w.bytes(&d_small);
                                    }
                                }
                            })
                            .buf,
                        );
                    }
                }
            }
        }
        let n = hdrs.len();
        let sd = par_run(run.threads, n, |a, sink| {
            for b in 0..n {
                let mut buf = hdrs[a].clone();
                buf.extend_from_slice(&hdrs[b]);
                check(&buf, sink);
                if (a + b) % 7 == 0 {
                    let mut t = hdrs[(a * 31 + b) % n].clone();
                    t.extend_from_slice(&buf);
                    check(&t, sink);
                }
            }
        });
        sink.merge(sd);
        sink.bump("DTLS header-field record pairs", (n * n) as u64);
    }
    // a hello carrying each known / semantic extension (max_fragment_length codes, record_size_limit, supported_versions, ...)
    // followed by a valid record of each size class: nothing an earlier record says limits what a later record may be
    {
        let mut blocks: Vec<Vec<u8>> = cat::known_extensions().into_iter().filter(|w| w.buf.len() < 200).map(|w| w.buf).collect();
        blocks.extend(cat::semantic_extensions().into_iter().map(|e| e.1));
        blocks.extend(cat::hello_profiles());
        for code in 0..=5u8 {
            blocks.push(vec![0, 1, 0, 1, code]);
            blocks.push(vec![0, 28, 0, 2, 0, 64u8.wrapping_shl(code as u32 % 3)]);
        }
        let sizes = [0usize, 100, 513, 1025, 2049, 4097, 16384];
        let items: Vec<(usize, bool, bool)> = (0..blocks.len()).flat_map(|b| [(b, true, false), (b, false, false), (b, true, true), (b, false, true)]).collect();
        let sx = par_run(run.threads, items.len(), |i, sink| {
            let (bi, server, dtls) = items[i];
            let block = &blocks[bi];
            let body = |w: &mut vcommon::en::W| {
                w.u16(if dtls { 0xfefd } else { 0x0303 });
                w.fill(32, 0x20);
                w.block(1, "sid_len", |w| {
                    w.fill(8, 9);
                });
                if server {
                    w.u16(0xc02f).u8(0);
                } else {
                    if dtls {
                        w.block(1, "cookie_len", |_| {});
                    }
                    w.block(2, "ciphers_len", |w| {
                        w.u16(0xc02f).u16(0x00ff);
                    });
                    w.block(1, "comp_len", |w| {
                        w.u8(0);
                    });
                }
                w.block(2, "ext_len", |w| {
                    w.bytes(block);
                });
            };
            let ty = if server { 2 } else { 1 };
            let hello = if dtls { cat::dtls_record(0x16, 0xfefd, 0, 1, |w| { w.append(&cat::dtls_hs(ty, 0, None, 0, body)); }).buf } else { cat::record(0x16, 0x0303, |w| { w.append(&cat::hs(ty, body)); }).buf };
            for &n in &sizes {
                // small followers of every other kind (heartbeat request / response, alerts, ChangeCipherSpec): what a hello
                // announced never makes the multi-record parser refuse a record the single-record parser takes
                if n == 0 && !dtls {
                    for small in [&[0x18u8, 3, 3, 0, 5, 1, 0, 2, 0xaa, 0xbb][..], &[0x18, 3, 3, 0, 5, 2, 0, 2, 0xaa, 0xbb][..], &[0x15, 3, 3, 0, 2, 1, 0][..], &[0x15, 3, 3, 0, 2, 2, 40][..], &[0x14, 3, 3, 0, 1, 1][..]] {
                        let mut b = hello.clone();
                        b.extend_from_slice(small);
                        check(&b, sink);
                        b.extend_from_slice(&[0x17, 3, 3, 0, 1, 9]);
                        check(&b, sink);
                    }
                }
                for fty in [0x17u8, 0x16] {
                    if dtls && fty == 0x17 {
                        continue;
                    }
                    let mut b = hello.clone();
                    let payload: Vec<u8> = if fty == 0x17 {
                        vec![0xa7; n]
                    } else if dtls {
                        // the DTLS decoder knows ClientKeyExchange (opaque body) but neither Finished nor application data
                        cat::dtls_hs(16, 5, None, 0, |w| { w.fill(n.saturating_sub(12), 0x77); }).buf
                    } else {
                        cat::hs(20, |w| { w.fill(n.saturating_sub(4), 0x77); }).buf
                    };
                    if dtls {
                        b.extend([fty, 0xfe, 0xfd, 0, if fty == 0x17 { 1 } else { 0 }, 0, 0, 0, 0, 0, 7, (payload.len() >> 8) as u8, payload.len() as u8]);
                    } else {
                        b.extend([fty, 0x03, 0x03, (payload.len() >> 8) as u8, payload.len() as u8]);
                    }
                    b.extend_from_slice(&payload);
                    check(&b, sink);
                }
            }
        });
        sink.merge(sx);
        sink.bump("hello-with-extension x follower-size buffers", (items.len() * sizes.len() * 2) as u64);
    }
    // buffers of many records (5..1000), alone and followed by a truncated record
    let many = cat::many_records();
    let nmany = many.len();
    let sm = par_run(run.threads, many.len(), |i, sink| {
        let (_, b, _) = &many[i];
        check(b, sink);
        let mut c = b.clone();
        c.extend([0x15, 0x03, 0x03, 0x00, 0x02, 0x01]);
        check(&c, sink);
        c.truncate(b.len() + 3);
        check(&c, sink);
    });
    sink.merge(sm);
    sink.bump("many-record buffers", nmany as u64);
    // buffers whose total size crosses 10 MiB (the defragmenter's constant), 2^24 [and 2^25]: full-size records
    {
        let counts: Vec<usize> = if thorough { vec![639, 640, 641, 1023, 1024, 1025, 2047, 2048, 2049] } else { vec![640, 641, 1024, 1025] };
        let items: Vec<(usize, bool)> = counts.iter().flat_map(|&n| [(n, false), (n, true)]).collect();
        let sh = par_run(run.threads.min(4), items.len(), |i, sink| {
            let (n, dtls) = items[i];
            let mut b: Vec<u8> = Vec::with_capacity(n * 16400 + 16);
            for k in 0..n {
                if dtls {
                    b.extend([0x17, 0xfe, 0xfd, 0, 0, 0, 0, 0, 0, (k >> 8) as u8, k as u8, 0x40, 0x00]);
                } else {
                    b.extend([0x17, 0x03, 0x03, 0x40, 0x00]);
                }
                let at = b.len();
                b.resize(at + 16384, (k % 251) as u8);
            }
            check(&b, sink);
            b.extend([0x17, 0x03, 0x03, 0x00, 0x09, 1, 2]);
            check(&b, sink);
            sink.bump("buffers above 10 MiB", 1);
        });
        sink.merge(sh);
    }
    // complete records at and above the length cap (the multi-record parsers must refuse exactly what
    // the single-record parser refuses), alone, after valid records and followed by more data
    let mut caps: Vec<Vec<u8>> = Vec::new();
    for len in [16639usize, 16640, 16641, 16642, 20000, 65535] {
        for (ty, fillb) in [(0x14u8, 1u8), (0x15, 1), (0x17, 7), (0x16, 0)] {
            let mut t = vec![ty, 0x03, 0x03, (len >> 8) as u8, len as u8];
            t.extend(std::iter::repeat(fillb).take(len));
            caps.push(t);
            if ty != 0x17 {
                let mut d = vec![ty, 0xfe, 0xfd, 0, 0, 0, 0, 0, 0, 0, 1, (len >> 8) as u8, len as u8];
                d.extend(std::iter::repeat(fillb).take(len));
                caps.push(d);
            }
        }
    }
    let ncaps = caps.len();
    let scap = par_run(run.threads, caps.len(), |i, sink| {
        check(&caps[i], sink);
        for pre in [2usize, 9] {
            let mut b = recs[pre].clone();
            b.extend_from_slice(&caps[i]);
            check(&b, sink);
        }
        let mut b = caps[i].clone();
        b.extend_from_slice(&recs[0]);
        check(&b, sink);
        b.truncate(caps[i].len() - 1);
        check(&b, sink);
    });
    sink.merge(scap);
    sink.bump("complete records around / above the cap", ncaps as u64);
    // every short string over a record-oriented alphabet
    let a = Alpha::new(
        &[&[0x14, 0x15, 0x16, 0x17, 0x18, 0xff], &[0x03], &[0x03], &[0x00, 0x41], &[0x00, 0x01, 0x02, 0x04, 0x05]],
        &[0x00, 0x01, 0x14, 0x16, 0x03],
    );
    let n = run.tier.pick(10, 12);
    let shards = a.shards(5);
    let shorts = a.short(5);
    let s2 = par_run(run.threads, shards.len() + 1, |i, sink| {
        if i == shards.len() {
            for s in &shorts {
                check(s, sink);
            }
        } else {
            a.visit(&shards[i], n, &mut |p| check(p, sink));
        }
    });
    sink.merge(s2);
    // DTLS-oriented strings
    let ad = Alpha::new(
        &[&[0x14, 0x15, 0x16, 0xff], &[0xfe], &[0xfd], &[0x00], &[0x00, 0x01], &[0x00], &[0x00], &[0x00], &[0x00], &[0x00], &[0x00, 0xff], &[0x00, 0x41], &[0x00, 0x01, 0x02, 0x0c]],
        &[0x00, 0x01, 0x02, 0x14, 0x0e],
    );
    let nd = run.tier.pick(17, 18);
    let dsh = ad.shards(13);
    let s3 = par_run(run.threads, dsh.len(), |i, sink| {
        ad.visit(&dsh[i], nd, &mut |p| check(p, sink));
    });
    sink.merge(s3);
    if sink.viol.is_empty() {
        let g = sink.groups();
        for name in ["tls_parser_many", "parse_dtls_plaintext_records"] {
            let h = g.get(name).cloned().unwrap_or_default();
            if h.len() < 4 {
                machinery_failure(run.prop, &format!("vacuous: {} outcome classes {:?}", name, h));
            }
        }
    }
    let _ = thorough;
    let mut cov = Map::new();
    cov.insert("exhaustive".into(), json!(true));
    cov.insert("record_catalogue".into(), json!(nrec));
    cov.insert("terminators".into(), json!(terms.len()));
    cov.insert("concatenations".into(), json!(nseq));
    cov.insert("rule".into(), json!(format!(
        "every concatenation of 0..{} records from a {}-record catalogue (8 TLS, 4 DTLS) followed by each of {} terminators (nothing, strict prefixes of valid records, oversize headers, valid header with bad content, unknown type, garbage), plus every single lying-length deviation of records carrying each kind of catalogue handshake message (TLS and DTLS) after 0..2 valid records, through tls_parser_many and parse_dtls_plaintext_records; complete records of 16639 / 16640 / 16641 / 16642 / 20000 / 65535 bytes (4 TLS and 3 DTLS kinds) alone, after valid records and followed by data; all ordered pairs (and triples behind a ChangeCipherSpec / alert / handshake record) of a wide catalogue: those records, records carrying hellos with the extension blocks of deployed stacks and records whose payload is a prefix (8 / 24 / 40 / 100 bytes) of each of 25 message streams; buffers of 5 / 6 / 7 / 8 / 15 / 100 / 255 / 256 / 257 / 1000 minimal records of 5 kinds; every string of length <= {} (TLS) / <= {} (DTLS) over record-oriented positional alphabets. Oracle: the explicit loop over the real single-record parser (same records by value and slice position, remainder = first failing record, failure iff the first record fails); tls_parser == parse_tls_plaintext on every buffer. Non-trivial: every buffer",
        k, nrec, terms.len(), n, nd)));
    // the same check against the crate built with all cargo features (std, serialize, unstable)
    let mut sink = sink;
    run.all_features_variant(&mut sink);
    let code = run.finish(&sink, cov, vec!["differential oracle: the single-record parsers are taken as given here (their correctness is C02/C03/C10)".into()]);
    std::process::exit(code);
}
