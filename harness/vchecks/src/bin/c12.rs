//! C12 — cipher-suite registry: complete sweep (E3) of all 65536 ids x all lookup routes, all
//! registry rows x all columns, all names and perturbed names.
use serde_json::{json, Map, Value};
use std::collections::{BTreeMap, BTreeSet};
use std::convert::TryFrom;
use tls_parser::*;
use vcommon::iso::guarded;
use vcommon::reference::ciphers::*;
use vcommon::report::*;

fn kx_of(t: &str) -> Option<TlsCipherKx> {
    use TlsCipherKx::*;
    Some(match t {
        "NULL" => Null,
        "PSK" => Psk,
        "KRB5" => Krb5,
        "SRP" => Srp,
        "RSA" => Rsa,
        "DH" => Dh,
        "DHE" => Dhe,
        "ECDH" => Ecdh,
        "ECDHE" => Ecdhe,
        "AECDH" => Aecdh,
        "ECCPWD" => Eccpwd,
        "TLS13" => Tls13,
        _ => return None,
    })
}
fn au_of(t: &str) -> Option<TlsCipherAu> {
    use TlsCipherAu::*;
    Some(match t {
        "NULL" => Null,
        "PSK" => Psk,
        "KRB5" => Krb5,
        "SRP" => Srp,
        "SRP+DSS" => Srp_Dss,
        "SRP+RSA" => Srp_Rsa,
        "DSS" => Dss,
        "RSA" => Rsa,
        "DHE" => Dhe,
        "ECDSA" => Ecdsa,
        "ECCPWD" => Eccpwd,
        "TLS13" => Tls13,
        _ => return None,
    })
}
fn enc_of(t: &str) -> Option<TlsCipherEnc> {
    use TlsCipherEnc::*;
    Some(match t {
        "NULL" => Null,
        "DES" => Des,
        "3DES" => TripleDes,
        "RC2" => Rc2,
        "RC4" => Rc4,
        "ARIA" => Aria,
        "IDEA" => Idea,
        "SEED" => Seed,
        "AES" => Aes,
        "CAMELLIA" => Camellia,
        "CHACHA20_POLY1305" => Chacha20_Poly1305,
        "SM4" => Sm4,
        "AEGIS" => Aegis,
        _ => return None,
    })
}
fn mode_of(t: &str) -> Option<TlsCipherEncMode> {
    use TlsCipherEncMode::*;
    Some(match t {
        "" | "NULL" => Null,
        "CBC" => Cbc,
        "CCM" => Ccm,
        "GCM" => Gcm,
        _ => return None,
    })
}
fn mac_of(t: &str) -> Option<TlsCipherMac> {
    use TlsCipherMac::*;
    Some(match t {
        "NULL" => Null,
        "HMAC-MD5" => HmacMd5,
        "HMAC-SHA1" => HmacSha1,
        "HMAC-SHA256" => HmacSha256,
        "HMAC-SHA384" => HmacSha384,
        "HMAC-SHA512" => HmacSha512,
        "AEAD" => Aead,
        _ => return None,
    })
}
fn prf_of(t: &str) -> Option<TlsPRF> {
    use TlsPRF::*;
    Some(match t {
        "DEFAULT" => Default,
        "NULL" => Null,
        "MD5ANDSHA1" => Md5AndSha1,
        "SHA1" => Sha1,
        "SHA256" => Sha256,
        "SHA384" => Sha384,
        "SHA512" => Sha512,
        "SM3" => Sm3,
        _ => return None,
    })
}

/// the same word ignoring case and punctuation (KUZNYECHIK / Kuznyechik, MD5ANDSHA1 / Md5AndSha1)
fn same_word(a: &str, b: &str) -> bool {
    let n = |x: &str| x.chars().filter(|c| c.is_ascii_alphanumeric()).map(|c| c.to_ascii_lowercase()).collect::<String>();
    n(a) == n(b)
}

struct Cx {
    rows: Vec<Row>,
    by_id: BTreeMap<u16, usize>,
    by_name: BTreeMap<String, usize>,
}

/// every field of a registry entry against the reference row
fn check_entry(cx: &Cx, row: &Row, s: &TlsCipherSuite) -> Vec<(String, String)> {
    let _ = cx;
    let mut out = Vec::new();
    let mut bad = |col: &str, got: String, exp: String| {
        out.push((
            col.to_string(),
            format!("suite {:#06x} {}: {} is {}, the registry file says {}", row.id, row.name, col, got, exp),
        ))
    };
    if s.id.0 != row.id {
        bad("id", format!("{:#06x}", s.id.0), format!("{:#06x}", row.id));
    }
    if s.name != row.name {
        bad("name", s.name.to_string(), row.name.clone());
    }
    match kx_of(&row.kx) {
        Some(k) if k == s.kx => {}
        // a token this check's table does not know (a row added later): the variant must at least be called like the token
        None if same_word(&format!("{:?}", s.kx), &row.kx) => {}
        _ => bad("kx", format!("{:?}", s.kx), row.kx.clone()),
    }
    match au_of(&row.au) {
        Some(k) if k == s.au => {}
        // a token this check's table does not know (a row added later): the variant must at least be called like the token
        None if same_word(&format!("{:?}", s.au), &row.au) => {}
        _ => bad("au", format!("{:?}", s.au), row.au.clone()),
    }
    match enc_of(&row.enc) {
        Some(k) if k == s.enc => {}
        // a token this check's table does not know (a row added later): the variant must at least be called like the token
        None if same_word(&format!("{:?}", s.enc), &row.enc) => {}
        _ => bad("enc", format!("{:?}", s.enc), row.enc.clone()),
    }
    match mode_of(&row.mode) {
        Some(k) if k == s.enc_mode => {}
        // a token this check's table does not know (a row added later): the variant must at least be called like the token
        None if same_word(&format!("{:?}", s.enc_mode), &row.mode) => {}
        _ => bad("enc_mode", format!("{:?}", s.enc_mode), row.mode.clone()),
    }
    if s.enc_size != row.key_bits {
        bad("enc_size", s.enc_size.to_string(), row.key_bits.to_string());
    }
    match mac_of(&row.mac) {
        Some(k) if k == s.mac => {}
        // a token this check's table does not know (a row added later): the variant must at least be called like the token
        None if same_word(&format!("{:?}", s.mac), &row.mac) => {}
        _ => bad("mac", format!("{:?}", s.mac), row.mac.clone()),
    }
    if s.mac_size != row.mac_bits {
        bad("mac_size", s.mac_size.to_string(), row.mac_bits.to_string());
    }
    match prf_of(&row.prf) {
        Some(k) if k == s.prf => {}
        // a token this check's table does not know (a row added later): the variant must at least be called like the token
        None if same_word(&format!("{:?}", s.prf), &row.prf) => {}
        _ => bad("prf", format!("{:?}", s.prf), row.prf.clone()),
    }
    // derived sizes
    if s.enc_key_size() != (row.key_bits / 8) as usize {
        bad("enc_key_size()", s.enc_key_size().to_string(), (row.key_bits / 8).to_string());
    }
    let exp_block = match row.enc.as_str() {
        "DES" | "3DES" | "IDEA" | "RC2" => 8,
        "AES" | "ARIA" | "CAMELLIA" | "SEED" | "SM4" => 16,
        _ => 0,
    };
    // judged only for the ciphers this check knows the block size of
    if enc_of(&row.enc).is_some() && s.enc_block_size() != exp_block {
        bad("enc_block_size()", s.enc_block_size().to_string(), exp_block.to_string());
    }
    let exp_mac = match row.mac.as_str() {
        "NULL" | "AEAD" => 0,
        "HMAC-MD5" => 16,
        "HMAC-SHA1" => 20,
        "HMAC-SHA256" => 32,
        "HMAC-SHA384" => 48,
        "HMAC-SHA512" => 64,
        _ => usize::MAX,
    };
    if exp_mac != usize::MAX && s.mac_length() != exp_mac {
        bad("mac_length()", s.mac_length().to_string(), exp_mac.to_string());
    }
    if row.mac.starts_with("HMAC") && s.mac_length() != (s.mac_size / 8) as usize {
        bad("mac_length() vs mac_size/8", s.mac_length().to_string(), (s.mac_size / 8).to_string());
    }
    out
}

/// agreement of a registry entry (as the crate exposes it) with the algorithm tokens of its name;
/// returns (violations, judged?)
fn check_name_tokens(s: &TlsCipherSuite) -> (Vec<(String, String)>, bool) {
    let mut out = Vec::new();
    let name = s.name;
    if IRREGULAR_NAMES.contains(&name) {
        return (out, false);
    }
    let (kxau, suffix) = match name.split_once("_WITH_") {
        Some((p, sfx)) => match PREFIX_KX_AU.iter().find(|(n, _, _)| *n == p) {
            Some((_, k, a)) => ((*k, *a), sfx),
            None => return (out, false),
        },
        None => match name.strip_prefix("TLS_") {
            Some(sfx) => (("TLS13", "TLS13"), sfx),
            None => return (out, false),
        },
    };
    let Some((enc, mode, bits, hash)) = suffix_tokens(suffix) else {
        return (out, false);
    };
    let mut bad = |col: &str, got: String, exp: String| {
        out.push((
            format!("name-{}", col),
            format!("suite {:#06x} {}: {} is {}, the name says {}", s.id.0, name, col, got, exp),
        ))
    };
    if kx_of(kxau.0) != Some(s.kx) {
        bad("kx", format!("{:?}", s.kx), kxau.0.into());
    }
    if au_of(kxau.1) != Some(s.au) {
        bad("au", format!("{:?}", s.au), kxau.1.into());
    }
    if enc_of(enc) != Some(s.enc) {
        bad("enc", format!("{:?}", s.enc), enc.into());
    }
    if mode_of(mode) != Some(s.enc_mode) {
        bad("enc_mode", format!("{:?}", s.enc_mode), mode.into());
    }
    if bits != s.enc_size {
        bad("enc_size", s.enc_size.to_string(), bits.to_string());
    }
    let aead = mode == "GCM" || mode == "CCM";
    if aead {
        if s.mac != TlsCipherMac::Aead {
            bad("mac", format!("{:?}", s.mac), "AEAD".into());
        }
        if let Some(h) = hash {
            if prf_of(h) != Some(s.prf) {
                bad("prf", format!("{:?}", s.prf), h.into());
            }
        }
    } else if let Some(h) = hash {
        if let Some((m, mb)) = mac_for_hash(h) {
            if mac_of(m) != Some(s.mac) {
                bad("mac", format!("{:?}", s.mac), m.into());
            }
            if mb != s.mac_size {
                bad("mac_size", s.mac_size.to_string(), mb.to_string());
            }
            let prf = match h {
                "SHA256" => "SHA256",
                "SHA384" => "SHA384",
                "SHA512" => "SHA512",
                _ => "DEFAULT",
            };
            if prf_of(prf) != Some(s.prf) {
                bad("prf", format!("{:?}", s.prf), prf.into());
            }
        }
    }
    (out, true)
}

/// the four id lookup routes for one id
fn check_id(cx: &Cx, id: u16) -> Vec<(String, String)> {
    let mut out = Vec::new();
    let listed = cx.by_id.get(&id);
    let routes: [(&str, Option<&'static TlsCipherSuite>); 4] = [
        ("from_id", TlsCipherSuite::from_id(id)),
        ("TryFrom<u16>", <&TlsCipherSuite>::try_from(id).ok()),
        ("TryFrom<TlsCipherSuiteID>", <&TlsCipherSuite>::try_from(TlsCipherSuiteID(id)).ok()),
        ("get_ciphersuite", TlsCipherSuiteID(id).get_ciphersuite()),
    ];
    for (rn, got) in routes {
        match (listed, got) {
            (None, None) => {}
            (None, Some(s)) => out.push((
                format!("route {}", rn),
                format!("{}({:#06x}) returns suite {} although the id is not in the registry file", rn, id, s.name),
            )),
            (Some(_), None) => out.push((
                format!("route {}", rn),
                format!("{}({:#06x}) returns nothing although the id is listed", rn, id),
            )),
            (Some(&ri), Some(s)) => {
                if s.id.0 != id {
                    out.push((
                        format!("route {}", rn),
                        format!("{}({:#06x}) returns a suite carrying id {:#06x}", rn, id, s.id.0),
                    ));
                }
                for (c, w) in check_entry(cx, &cx.rows[ri], s) {
                    out.push((format!("route {} {}", rn, c), w));
                }
            }
        }
    }
    out
}

fn check_name_query(cx: &Cx, q: &str) -> Vec<(String, String)> {
    let mut out = Vec::new();
    let exp = cx.by_name.get(q);
    let routes: [(&str, Option<&'static TlsCipherSuite>); 2] = [
        ("from_name", TlsCipherSuite::from_name(q)),
        ("TryFrom<&str>", <&TlsCipherSuite>::try_from(q).ok()),
    ];
    for (rn, got) in routes {
        match (exp, got) {
            (None, None) => {}
            (None, Some(s)) => out.push((
                rn.to_string(),
                format!("{}({:?}) returns suite {} for a string that is not a registry name", rn, q, s.name),
            )),
            (Some(_), None) => out.push((rn.to_string(), format!("{}({:?}) finds nothing", rn, q))),
            (Some(&ri), Some(s)) => {
                if s.name != q || s.id.0 != cx.rows[ri].id {
                    out.push((
                        rn.to_string(),
                        format!("{}({:?}) returns suite {} / {:#06x}", rn, q, s.name, s.id.0),
                    ));
                }
            }
        }
    }
    out
}

/// perturbations of one registry name (deterministic)
fn perturbations(name: &str) -> Vec<String> {
    let mut v = Vec::new();
    let chars: Vec<char> = name.chars().collect();
    for n in 0..chars.len() {
        v.push(chars[..n].iter().collect());
    }
    for c in ['_', 'A', '0', ' ', '8'] {
        v.push(format!("{}{}", name, c));
        v.push(format!("{}{}", c, name));
    }
    for i in 0..chars.len() {
        for c in ['A', '_', '0', 'x'] {
            if chars[i] != c {
                let mut m = chars.clone();
                m[i] = c;
                v.push(m.into_iter().collect());
            }
        }
        // deletion
        let mut m = chars.clone();
        m.remove(i);
        v.push(m.into_iter().collect());
    }
    v.push(name.to_lowercase());
    v.push(name.to_uppercase());
    v.push(format!("{}_SHA", name));
    // alias-style spellings: other prefixes, no prefix, other separators, surrounding blanks
    if let Some(tail) = name.strip_prefix("TLS_") {
        for pre in ["SSL_", "SSL3_", "TLS1_", "TLS13_", "tls_", "ssl_", "", "_", "TLS", "TLS__", "DTLS_", "TLS-"] {
            v.push(format!("{}{}", pre, tail));
        }
        v.push(tail.replace('_', "-"));
        v.push(tail.replace("_WITH_", "-").replace('_', "-"));
        v.push(tail.replace("_WITH_", "_"));
    }
    v.push(name.replace('_', "-"));
    v.push(name.replace('_', " "));
    v.push(name.replace('_', ""));
    for (a, b) in [("_WITH_", "_with_"), ("SHA256", "SHA-256"), ("SHA", "SHA1"), ("_CBC", ""), ("AES_128", "AES128"), ("AES_256", "AES256"), ("3DES_EDE", "3DES"), ("DHE", "EDH"), ("ECDHE", "EECDH")] {
        if name.contains(a) {
            v.push(name.replacen(a, b, 1));
        }
    }
    // token-level edits: every '_'-separated token duplicated, deleted, swapped with its neighbour
    let toks: Vec<&str> = name.split('_').collect();
    for i in 0..toks.len() {
        let mut d: Vec<&str> = toks.clone();
        d.insert(i, toks[i]);
        v.push(d.join("_"));
        let mut r: Vec<&str> = toks.clone();
        r.remove(i);
        v.push(r.join("_"));
        if i + 1 < toks.len() {
            let mut w: Vec<&str> = toks.clone();
            w.swap(i, i + 1);
            v.push(w.join("_"));
        }
    }
    v.push(format!("{}_{}", name, name));
    v.push(format!("{}{}", name, name));
    for (pre, post) in [(" ", ""), ("", " "), ("\t", ""), ("", "\n"), ("", "\0"), ("\u{feff}", "")] {
        v.push(format!("{}{}{}", pre, name, post));
    }
    v
}

fn build_cx(run: &Run) -> Cx {
    let text = std::fs::read_to_string("/repo/scripts/tls-ciphersuites.txt")
        .unwrap_or_else(|e| machinery_failure(run.prop, &format!("cannot read registry file: {}", e)));
    let rows = parse_registry(&text).unwrap_or_else(|e| machinery_failure(run.prop, &e));
    let mut by_id = BTreeMap::new();
    let mut by_name = BTreeMap::new();
    for (i, r) in rows.iter().enumerate() {
        by_id.insert(r.id, i);
        by_name.insert(r.name.clone(), i);
    }
    Cx { rows, by_id, by_name }
}

fn run_case(cx: &Cx, case: &Value) -> Vec<(String, String)> {
    match case["kind"].as_str() {
        Some("id") => check_id(cx, case["id"].as_u64().unwrap() as u16),
        Some("name") => check_name_query(cx, case["query"].as_str().unwrap()),
        Some("static-slice") => {
            let Some(s) = TlsCipherSuite::from_id(case["id"].as_u64().unwrap() as u16) else { return Vec::new() };
            let name: &'static str = s.name;
            let k = (case["cut"].as_u64().unwrap() as usize).min(name.len());
            let mut out = Vec::new();
            for q in [&name[..k], &name[k..]] {
                if q.len() != name.len() && !cx.by_name.contains_key(q) {
                    out.extend(check_name_query(cx, q));
                }
            }
            out
        }
        Some("tokens") => {
            let id = case["id"].as_u64().unwrap() as u16;
            TlsCipherSuite::from_id(id).map(|s| check_name_tokens(s).0).unwrap_or_default()
        }
        Some("global") => global_checks(cx),
        _ => machinery_failure("C12", "unknown replay kind"),
    }
}

/// snapshot preservation, id/name uniqueness, registry size
fn global_checks(cx: &Cx) -> Vec<(String, String)> {
    let mut out = Vec::new();
    // (1) assignments present in the committed snapshot are never altered
    let snap = std::fs::read_to_string("/verif/data/tls-ciphersuites.snapshot")
        .unwrap_or_else(|e| machinery_failure("C12", &format!("cannot read snapshot: {}", e)));
    let snap = parse_registry(&snap).unwrap_or_else(|e| machinery_failure("C12", &e));
    for r in &snap {
        match cx.by_id.get(&r.id) {
            None => out.push((
                format!("snapshot {:#06x}", r.id),
                format!("IANA assignment {:#06x} {} has disappeared from the registry file", r.id, r.name),
            )),
            Some(&i) => {
                if cx.rows[i] != *r {
                    out.push((
                        format!("snapshot {:#06x}", r.id),
                        format!("IANA assignment {:#06x} {} was altered in the registry file: {:?} -> {:?}", r.id, r.name, r, cx.rows[i]),
                    ));
                }
            }
        }
    }
    // ids and names unique in the file
    if cx.by_id.len() != cx.rows.len() {
        out.push(("file ids".into(), "duplicate id in the registry file".into()));
    }
    if cx.by_name.len() != cx.rows.len() {
        out.push(("file names".into(), "duplicate name in the registry file".into()));
    }
    // (2) CIPHERS holds exactly the reference ids
    let keys: BTreeSet<u16> = CIPHERS.keys().copied().collect();
    let want: BTreeSet<u16> = cx.by_id.keys().copied().collect();
    if CIPHERS.len() != cx.rows.len() || keys != want {
        let extra: Vec<_> = keys.difference(&want).map(|x| format!("{:#06x}", x)).collect();
        let missing: Vec<_> = want.difference(&keys).map(|x| format!("{:#06x}", x)).collect();
        out.push((
            "CIPHERS keys".into(),
            format!("CIPHERS has {} entries, the file {}; extra {:?}, missing {:?}", CIPHERS.len(), cx.rows.len(), extra, missing),
        ));
    }
    for (k, v) in CIPHERS.entries() {
        if v.id.0 != *k {
            out.push((
                format!("CIPHERS key {:#06x}", k),
                format!("CIPHERS[{:#06x}] carries id {:#06x}", k, v.id.0),
            ));
        }
    }
    let names: BTreeSet<&str> = CIPHERS.values().map(|v| v.name).collect();
    if names.len() != CIPHERS.len() {
        out.push(("CIPHERS names".into(), "two registry entries share a name".into()));
    }
    out
}

fn main() {
    let run = Run::from_args("C12", "exploration");
    let cx = build_cx(&run);
    if let Some(v) = run.load_replay() {
        let a = run_case(&cx, &v["case"]);
        let b = run_case(&cx, &v["case"]);
        if a != b {
            machinery_failure(run.prop, "replay is not deterministic");
        }
        let key = v["key"].as_str().unwrap_or("");
        let hit: Vec<_> = a.iter().filter(|(k, _)| key.ends_with(k.as_str()) || key.is_empty()).collect();
        let hit = if hit.is_empty() { a.iter().collect() } else { hit };
        if hit.is_empty() {
            println!("replay: property holds on this case");
            std::process::exit(0);
        }
        println!("replay: {}", hit[0].1);
        println!("VIOLATION property={} replay={}", run.prop, run.replay.clone().unwrap());
        std::process::exit(1);
    }
    if cx.rows.len() < 300 {
        machinery_failure(run.prop, "registry file has fewer than 300 rows: reference reader broken?");
    }
    let mut sink = Sink::new();
    for (k, w) in guarded(|| global_checks(&cx)).unwrap_or_else(|p| vec![("global panic".into(), p)]) {
        sink.violation(format!("global {}", k), w, json!({"kind":"global"}));
    }
    sink.evals += cx.rows.len() as u64 * 2 + CIPHERS.len() as u64;
    // (3) all 65536 ids x 4 routes (includes the 10-column comparison for listed ids)
    let chunks: Vec<u32> = (0..65536u32).step_by(2048).collect();
    let s2 = par_run(run.threads, chunks.len(), |i, sink| {
        for id in chunks[i]..chunks[i] + 2048 {
            let id = id as u16;
            let listed = cx.by_id.contains_key(&id);
            let near = listed || cx.by_id.contains_key(&id.wrapping_sub(1)) || cx.by_id.contains_key(&id.wrapping_add(1));
            sink.case(fnv(1, &id.to_be_bytes()), near);
            sink.count("id lookup", if listed { "listed" } else { "unlisted" });
            let r = guarded(|| check_id(&cx, id)).unwrap_or_else(|p| vec![("panic".into(), format!("lookup of {:#06x} panics: {}", id, p))]);
            for (k, w) in r {
                sink.violation(format!("id {:#06x} {}", id, k), w, json!({"kind":"id","id":id}));
            }
            if listed {
                if let Some(s) = TlsCipherSuite::from_id(id) {
                    let (v, judged) = check_name_tokens(s);
                    sink.count("name tokens", if judged { "judged" } else { "irregular-or-unknown-tokens" });
                    for (k, w) in v {
                        sink.violation(format!("tokens {:#06x} {}", id, k), w, json!({"kind":"tokens","id":id}));
                    }
                    if id == 0xc02f {
                        sink.sample(4, || json!({"id": "0xc02f", "entry": format!("{:?}", s)}));
                    }
                }
            }
        }
    });
    sink.merge(s2);
    // (4) names and perturbed names
    let names: Vec<&String> = cx.by_name.keys().collect();
    let s3 = par_run(run.threads, names.len(), |i, sink| {
        let name = names[i];
        let mut qs = perturbations(name);
        qs.push(name.to_string());
        if i == 0 {
            qs.push(String::new());
            qs.push("TLS".into());
        }
        for q in qs {
            let is_name = cx.by_name.contains_key(&q);
            sink.case(fnv(2, q.as_bytes()), true);
            sink.count("name lookup", if is_name { "registry name" } else { "perturbed" });
            let r = guarded(|| check_name_query(&cx, &q)).unwrap_or_else(|p| vec![("panic".into(), format!("lookup of {:?} panics: {}", q, p))]);
            for (k, w) in r {
                sink.violation(format!("name {:?} {}", q, k), w, json!({"kind":"name","query":q}));
            }
            if i == 5 {
                sink.sample(3, || json!({"name_query": q, "is_registry_name": is_name}));
            }
        }
    });
    sink.merge(s3);
    // (5) "nothing for any other string": every string of length <= 5 over the alphabet registry names are made of
    //     (A-Z, 0-9, _), bare and behind the TLS_ prefix [thorough: length 6 bare]; a lookup that goes through a
    //     lossy key (a 32-bit hash of the name, a truncated or case-folded name) answers for some of them
    {
        const AB: &[u8] = b"ABCDEFGHIJKLMNOPQRSTUVWXYZ0123456789_";
        let thorough = run.tier == Tier::Thorough;
        let shards: Vec<(usize, usize)> = (0..AB.len()).flat_map(|a| (0..AB.len()).map(move |b| (a, b))).collect();
        let ss = par_run(run.threads, shards.len(), |i, sink| {
            let (a, b) = shards[i];
            let mut n = 0u64;
            let mut probe = |sink: &mut Sink, q: &[u8]| {
                let q = std::str::from_utf8(q).unwrap_or("");
                n += 1;
                if TlsCipherSuite::from_name(q).is_some() || <&TlsCipherSuite>::try_from(q).is_ok() {
                    for (k, w) in check_name_query(&cx, q) {
                        sink.violation(format!("name {:?} {}", q, k), w, json!({"kind":"name","query":q}));
                    }
                }
            };
            // strings that start with the two letters of this shard, lengths 2..=max; shard (0, 0) also does lengths 0 and 1
            let maxlen = if thorough { 6 } else { 5 };
            let mut buf: Vec<u8> = Vec::with_capacity(16);
            let mut pre: Vec<u8> = b"TLS_".to_vec();
            if i == 0 {
                probe(sink, b"");
                for &c in AB {
                    probe(sink, &[c]);
                    probe(sink, &[b'T', b'L', b'S', b'_', c]);
                }
            }
            for len in 2..=maxlen {
                let mut idx = vec![0usize; len - 2];
                loop {
                    buf.clear();
                    buf.push(AB[a]);
                    buf.push(AB[b]);
                    buf.extend(idx.iter().map(|&k| AB[k]));
                    probe(sink, &buf);
                    if len <= 5 {
                        pre.truncate(4);
                        pre.extend_from_slice(&buf);
                        probe(sink, &pre);
                    }
                    let mut p = idx.len();
                    loop {
                        if p == 0 {
                            break;
                        }
                        p -= 1;
                        idx[p] += 1;
                        if idx[p] < AB.len() {
                            break;
                        }
                        idx[p] = 0;
                        if p == 0 {
                            p = usize::MAX;
                            break;
                        }
                    }
                    if idx.is_empty() || p == usize::MAX {
                        break;
                    }
                }
            }
            sink.evals += n;
            sink.bump("short strings over the name alphabet", n);
        });
        sink.merge(ss);
    }
    // (6) strings shaped like an id instead of a name (every way of writing each of the 65536 ids: hex with and without
    //     prefix, both cases, decimal, the IANA "0xC0,0x2F" notation, the Debug / Display texts of the id types and of the
    //     suite itself): the name routes find nothing for them
    {
        let sid = par_run(run.threads, 256, |hi, sink| {
            for lo in 0..256u32 {
                let id = ((hi as u32) << 8 | lo) as u16;
                let (h, l) = (id >> 8, id & 0xff);
                let mut qs = vec![
                    format!("0x{:04x}", id),
                    format!("0x{:04X}", id),
                    format!("0X{:04X}", id),
                    format!("{:04x}", id),
                    format!("{:04X}", id),
                    format!("0x{:x}", id),
                    format!("{:x}", id),
                    format!("{}", id),
                    format!("#{}", id),
                    format!("0x{:02X},0x{:02X}", h, l),
                    format!("0x{:02x},0x{:02x}", h, l),
                    format!("{{0x{:02X},0x{:02X}}}", h, l),
                    format!("{:02X}{:02X}", l, h),
                    format!("{:?}", TlsCipherSuiteID(id)),
                    format!("{}", TlsCipherSuiteID(id)),
                    format!("TLS_{:04X}", id),
                    format!("TLS_0x{:04X}", id),
                    format!("Unknown({})", id),
                    format!("Unknown(0x{:04x})", id),
                ];
                if let Some(s) = TlsCipherSuite::from_id(id) {
                    qs.push(format!("{:?}", s));
                    qs.push(format!("{} (0x{:04x})", s.name, id));
                    qs.push(format!("{}:{}", s.name, id));
                    qs.push(format!("{:04x}:{}", id, s.name));
                }
                for q in qs {
                    sink.evals += 1;
                    if cx.by_name.contains_key(&q) {
                        continue;
                    }
                    if TlsCipherSuite::from_name(&q).is_some() || <&TlsCipherSuite>::try_from(q.as_str()).is_ok() {
                        for (k, w) in check_name_query(&cx, &q) {
                            sink.violation(format!("name {:?} {}", q, k), w, json!({"kind":"name","query":q}));
                        }
                    }
                }
            }
        });
        sink.merge(sid);
    }
    // (8) every registry name followed / preceded by filler of every length 1..=300 (and 512, 1024, 4096, 65536), four fillers:
    //     a lookup keyed on a hash, a length class or a prefix of the query answers for some of them
    {
        let names: Vec<&String> = cx.by_name.keys().collect();
        let sf = par_run(run.threads, names.len(), |i, sink| {
            let name = names[i];
            let mut n = 0u64;
            let lens: Vec<usize> = (1..=300).chain([512, 1024, 4096, 65536]).collect();
            for fill in ['_', ' ', 'A', '\0'] {
                for &l in &lens {
                    if l > 300 && i % 16 != 0 {
                        continue;
                    }
                    let pad: String = std::iter::repeat(fill).take(l).collect();
                    for q in [format!("{}{}", name, pad), format!("{}{}", pad, name)] {
                        n += 1;
                        if TlsCipherSuite::from_name(&q).is_some() || <&TlsCipherSuite>::try_from(q.as_str()).is_ok() {
                            for (k, w) in check_name_query(&cx, &q) {
                                let shown = format!("{:.80}..(len {})", q, q.len());
                                sink.violation(format!("name {} {}", shown, k), w.replace(&q, &shown), json!({"kind":"name","query":q}));
                            }
                        }
                    }
                }
            }
            sink.evals += n;
            sink.bump("names with filler of every length", n);
        });
        sink.merge(sf);
    }
    // (7) queries that alias the crate's own static strings: every proper prefix and suffix of every suite's `name`
    //     (and of its neighbours in memory) taken as a slice of that very static, not as a copy - a comparison by
    //     address or by prefix answers for these
    {
        let mut n = 0u64;
        for id in 0..=65535u32 {
            let Some(s) = TlsCipherSuite::from_id(id as u16) else { continue };
            let name: &'static str = s.name;
            for k in 0..name.len() {
                for q in [&name[..k], &name[k..]] {
                    if q.len() == name.len() {
                        continue;
                    }
                    n += 1;
                    if cx.by_name.contains_key(q) {
                        continue;
                    }
                    if TlsCipherSuite::from_name(q).is_some() || <&TlsCipherSuite>::try_from(q).is_ok() {
                        for (kk, w) in check_name_query(&cx, q) {
                            sink.violation(format!("name {:?} (slice of the static name) {}", q, kk), format!("{} [the query is a slice of the registry's own static string {:?}]", w, name), json!({"kind":"static-slice","id":id,"cut":k}));
                        }
                    }
                }
            }
        }
        sink.evals += n;
        sink.bump("slices of the registry's static names", n);
    }
    let judged = sink.hist.get(&("name tokens", "judged")).copied().unwrap_or(0);
    if sink.viol.is_empty() && (judged < 300 || sink.hist.get(&("id lookup", "listed")).copied().unwrap_or(0) < 300) {
        machinery_failure(run.prop, "vacuous: fewer than 300 suites judged");
    }
    let mut cov = Map::new();
    cov.insert("exhaustive".into(), json!(true));
    cov.insert("registry_rows".into(), json!(cx.rows.len()));
    cov.insert("rule".into(), json!(
        "all 65536 ids through 4 lookup routes (listed ids: all 10 columns + derived sizes against an independent reading of scripts/tls-ciphersuites.txt; name-token agreement); all registry names plus every proper prefix, single-character substitution (4-letter alphabet), deletion, appended/prepended character, case change and alias-style respelling (SSL_/tls_/no prefix, other separators, OpenSSL-like abbreviations, surrounding blanks) through both name lookups; every string of length <= 5 [6] over the 37-letter alphabet of registry names, bare and behind TLS_, through both name lookups (expected answer: nothing); every id written as a string in 19-23 notations (hex / decimal / IANA byte pair / Debug texts) through both name lookups; every proper prefix and suffix of every registry name passed as a slice of the crate's own static string; every registry name with filler of every length 1..=300 (4 fill characters, before and after); committed snapshot of today's assignments. Non-trivial: ids that are listed or adjacent to a listed id; every name query"));
    // the same check against the crate built with all cargo features (std, serialize, unstable)
    let mut sink = sink;
    run.all_features_variant(&mut sink);
    let code = run.finish(
        &sink,
        cov,
        vec![
            "scripts/tls-ciphersuites.txt is the reference (read by an independent parser); /verif/data/tls-ciphersuites.snapshot pins the assignments present when the check was written".into(),
            "naming-convention tables (prefix -> kx/au, cipher tokens) in vcommon/src/reference/ciphers.rs; names with tokens the table does not know are counted, not judged".into(),
        ],
    );
    std::process::exit(code);
}
