//! C14 — Signed Certificate Timestamp lists decode per RFC 6962 (E2 struct + bytes).
use serde_json::{json, Map};
use vchecks::sweep::*;
use vchecks::targets::*;
use vcommon::catalogue as cat;
use vcommon::en::{Alpha, W};
use vcommon::reference::wire;
use vcommon::report::*;
use vcommon::v::{Got, Ref, V};

/// "an entry overshooting the list, or a list overshooting the input, never yields an SCT value":
/// a malformed list may only return the entries that precede the first bad one.
fn extra(t: &Target, b: &[u8], g: &Got, _r: &Ref, sink: &mut Sink) {
    if t.name != SCT_LIST.name {
        return;
    }
    let (r, k) = wire::ref_sct_list(b);
    if let (Ref::Unspec(_), Got::Ok(V::L(items), _)) = (&r, g) {
        if k.map_or(false, |k| items.len() > k) {
            sink.violation(
                format!("{} {} count", t.name, hexs(b)),
                format!("{}({}): {} SCTs returned although only {} well-formed entries precede the first malformed one", t.name, hexshort(b), items.len(), k.unwrap_or(0)),
                json!({"kind":"parse","func":t.name,"input":hexs(b)}),
            );
        }
        // every returned entry lies inside the declared list
        if b.len() >= 2 {
            let l = u16::from_be_bytes([b[0], b[1]]) as usize;
            if !V::L(items.clone()).slices_within(2 + l) {
                sink.violation(
                    format!("{} {} bounds", t.name, hexs(b)),
                    format!("{}({}): a returned SCT references bytes outside the declared list", t.name, hexshort(b)),
                    json!({"kind":"parse","func":t.name,"input":hexs(b)}),
                );
            }
        }
    }
}

fn main() {
    let run = Run::from_args("C14", "exploration");
    let targets: Vec<&Target> = vec![&SCT, &SCT_LIST];
    if let Some(v) = run.load_replay() {
        std::process::exit(replay_parse(&run, &targets, &v["case"], &|t, b, s| {
            let g = (t.run)(b);
            extra(t, b, &g, &Ref::Unspec(""), s)
        }));
    }
    let thorough = run.tier == Tier::Thorough;
    vcommon::en::WRAP_LIES.store(true, std::sync::atomic::Ordering::Relaxed);
    let d = run.tier.pick(1, 2);
    let mut sfx = std_suffixes();
    // trailing data that looks like further SCT entries (a list must not read beyond its declared length)
    {
        let mut e = W::new();
        cat::sct_entry(&mut e, 0, 0x0102030405060708, 0, 4, 3, 2);
        sfx.push(e.buf.clone());
        let mut two = e.buf.clone();
        two.extend_from_slice(&e.buf);
        sfx.push(two);
        sfx.push(vec![0x00, 0x00]);
    }
    let mut sink = Sink::new();
    let scts = cat::scts(thorough);
    let lists = cat::sct_lists(thorough);
    let (ns, nl) = (scts.len(), lists.len());
    // the large boundary sizes (65000-byte extensions / signatures) also in the quick tier, undeviated + single deviations
    if !thorough {
        let big_s: Vec<W> = cat::scts(true).into_iter().filter(|w| w.buf.len() > 1000).collect();
        let big_l: Vec<W> = cat::sct_lists(true).into_iter().filter(|w| w.buf.len() > 30000).collect();
        sink.merge(struct_sweep(&run, &[&SCT], &big_s, 1, &sfx, 24, &extra));
        sink.merge(struct_sweep(&run, &[&SCT_LIST], &big_l, 1, &sfx, 24, &extra));
    }
    sink.merge(struct_sweep(&run, &[&SCT], &scts, d, &sfx, 96, &extra));
    sink.merge(struct_sweep(&run, &[&SCT_LIST], &lists, d, &sfx, 96, &extra));
    // the cross product of all entry fields (version x timestamp x extensions x hash x signature algorithm x size),
    // as single entries and as the second entry of a list
    {
        let grid = cat::sct_grid(thorough);
        sink.merge(struct_sweep(&run, &[&SCT], &grid, 0, &sfx, 16, &extra));
        let lists: Vec<W> = grid
            .iter()
            .step_by(run.tier.pick(3, 1))
            .map(|e| {
                let mut w = W::new();
                w.block(2, "list", |w| {
                    cat::sct_entry(w, 0, 5, 0, 4, 3, 2);
                    w.append(e);
                    cat::sct_entry(w, 0, 6, 0, 4, 3, 2);
                });
                w
            })
            .collect();
        sink.merge(struct_sweep(&run, &[&SCT_LIST], &lists, 0, &sfx, 16, &extra));
    }
    // (hash, signature) read as a 16-bit number equal to the length of what follows: signature sizes a-4, a-2, a
    {
        let mut co: Vec<W> = Vec::new();
        for a in (0..=0x0909u32).filter(|a| a & 0xff <= 9 || thorough) {
            for d in [4i64, 2, 0] {
                let n = a as i64 - d;
                if (0..=20000).contains(&n) {
                    let mut w = W::new();
                    cat::sct_entry(&mut w, 0, 5, 0, (a >> 8) as u8, a as u8, n as usize);
                    co.push(w);
                }
            }
        }
        sink.merge(struct_sweep(&run, &[&SCT], &co, 0, &sfx, 16, &extra));
        let lists: Vec<W> = co.iter().map(|e| { let mut w = W::new(); w.block(2, "list", |w| { w.append(e); cat::sct_entry(w, 0, 6, 0, 4, 3, 2); }); w }).collect();
        sink.merge(struct_sweep(&run, &[&SCT_LIST], &lists, 0, &sfx, 16, &extra));
    }
    // v1 entries that are at the same time well-formed CT v2 TransItems (solved against the RFC 9162 layout), single and in lists
    {
        let poly = cat::sct_v2_polyglots();
        sink.bump("v1 / v2 polyglot entries", poly.len() as u64);
        sink.merge(struct_sweep(&run, &[&SCT], &poly, 0, &sfx, 16, &extra));
        let lists: Vec<W> = poly
            .iter()
            .step_by(run.tier.pick(5, 1))
            .map(|e| {
                let mut w = W::new();
                w.block(2, "list", |w| {
                    cat::sct_entry(w, 0, 5, 0, 4, 3, 2);
                    w.append(e);
                    cat::sct_entry(w, 0, 6, 0, 4, 3, 2);
                });
                w
            })
            .collect();
        sink.merge(struct_sweep(&run, &[&SCT_LIST], &lists, 0, &sfx, 16, &extra));
    }
    sink.merge(struct_sweep(&run, &[&SCT], &wrapped(&cat::scts(false), 1), 0, &sfx, 16, &extra));
    sink.merge(struct_sweep(&run, &[&SCT_LIST], &wrapped(&cat::sct_lists(false), 1), 0, &sfx, 16, &extra));
    sink.merge(struct_sweep(&run, &[&SCT_LIST], &cat::sct_lists_many(), run.tier.pick(0, 1), &sfx, 32, &extra));
    for style in [1u8, 3, 4, 6, 7, 8, 10, 11, 12, 13, 14, 15, 16, 17, 18, 19, 20, 21] {
        use vcommon::en::with_fill_style as wfs;
        sink.merge(struct_sweep(&run, &[&SCT], &wfs(style, || cat::scts(false)), 0, &sfx, 96, &extra));
        sink.merge(struct_sweep(&run, &[&SCT_LIST], &wfs(style, || cat::sct_lists(false)), 0, &sfx, 96, &extra));
    }
    // every size of the two variable-length fields of an SCT (consistent enclosing lengths), single and in a list
    for which in 0..2 {
        let b = move |n: usize| {
            let mut w = W::new();
            w.block(2, "sct_list_len", |w| {
                if which == 0 {
                    cat::sct_entry(w, 0, 9, 0, 4, 3, n)
                } else {
                    cat::sct_entry(w, 0, 9, n, 4, 3, 2)
                }
            });
            w
        };
        sink.merge(size_sweep(&run, &[&SCT_LIST], 65000, &b, &extra));
        let b1 = move |n: usize| {
            let mut w = W::new();
            if which == 0 {
                cat::sct_entry(&mut w, 0, 9, 1, 4, 3, n)
            } else {
                cat::sct_entry(&mut w, 0, 9, n, 4, 3, 1)
            }
            w
        };
        sink.merge(size_sweep(&run, &[&SCT], 65000, &b1, &extra));
    }
    // single entries are also lists-of-bytes for the list parser and vice versa (nesting confusion)
    sink.merge(struct_sweep(&run, &[&SCT_LIST], &scts, 0, &sfx, 96, &extra));
    sink.merge(struct_sweep(&run, &[&SCT], &lists, 0, &sfx, 96, &extra));

    // complete sweeps: version, algorithm pairs, timestamp bit patterns
    let mut sweeps: Vec<W> = Vec::new();
    for v in 0..=255u8 {
        let mut w = W::new();
        w.block(2, "sct_list_len", |w| cat::sct_entry(w, v, 0x1122334455667788, 0, 4, 3, 2));
        sweeps.push(w);
    }
    for a in 0..=65535u32 {
        let mut w = W::new();
        w.block(2, "sct_list_len", |w| cat::sct_entry(w, 0, 1, 0, (a >> 8) as u8, a as u8, 1));
        sweeps.push(w);
    }
    let mut pats: Vec<u64> = vec![0, u64::MAX];
    for i in 0..64 {
        pats.push(1 << i);
        pats.push(!(1u64 << i));
        for j in i + 1..64 {
            pats.push((1 << i) | (1 << j));
        }
    }
    for byte in 0..8 {
        for x in 0..=255u64 {
            pats.push(x << (8 * byte));
        }
    }
    for ts in pats {
        let mut w = W::new();
        w.block(2, "sct_list_len", |w| cat::sct_entry(w, 0, ts, 1, 4, 3, 1));
        sweeps.push(w);
    }
    // algorithm pair x signature size (a guard keyed on the algorithm and the size at once)
    for a in 0..=65535u32 {
        for n in [0usize, 64, 65, 73, 256, 513] {
            if a % 3 != (n % 3) as u32 && !(a >> 8 <= 8 && a & 0xff <= 8) {
                continue;
            }
            let mut w = W::new();
            w.block(2, "sct_list_len", |w| cat::sct_entry(w, 0, 1, 0, (a >> 8) as u8, a as u8, n));
            sweeps.push(w);
        }
    }
    let nsweeps = sweeps.len();
    sink.merge(struct_sweep(&run, &[&SCT_LIST], &sweeps, 0, &sfx, 96, &extra));

    // every short string behind a 2-byte list header, and directly
    let a = Alpha::new(&[&[0x00], &[0x00, 0x01, 0x02, 0x2f, 0x30, 0x31, 0xff]], &[0x00, 0x01, 0x2d, 0x2e, 0xff]);
    sink.merge(alpha_sweep(&run, &SCT_LIST, &a, run.tier.pick(8, 10), &identity_wrap, &extra));
    sink.merge(alpha_sweep(&run, &SCT, &a, run.tier.pick(8, 10), &identity_wrap, &extra));
    // frames: a list header + entry header + version/log id/timestamp, then every tail (the three nested length prefixes lie)
    let tail = Alpha::uniform(&[0x00, 0x01, 0x02, 0x03, 0x04, 0xff]);
    let tn = run.tier.pick(7, 9);
    let frame = |p: &[u8], out: &mut Vec<u8>| {
        let entry = 41 + p.len();
        out.extend([((entry + 2) >> 8) as u8, (entry + 2) as u8, (entry >> 8) as u8, entry as u8, 0x00]);
        out.extend([0x1d; 32]);
        out.extend([0, 0, 1, 0x60, 1, 2, 3, 4]);
        out.extend_from_slice(p);
    };
    sink.merge(alpha_sweep(&run, &SCT_LIST, &tail, tn, &frame, &extra));

    require_both_outcomes(&run, &sink, &[SCT.name, SCT_LIST.name]);
    let mut cov = Map::new();
    cov.insert("exhaustive".into(), json!(true));
    cov.insert("catalogue_scts".into(), json!(ns));
    cov.insert("catalogue_lists".into(), json!(nl));
    cov.insert("sweep_cases".into(), json!(nsweeps));
    cov.insert("rule".into(), json!(format!(
        "struct: {} single SCT entries and {} lists of 0..3 SCTs (plus lists of 255 / 256 / 257 / 1000 / 1285 entries) x every combination of <= {} deviations (3 nested length prefixes each in {{0,1,true-1,true+1,max}}, every cut, 7 suffixes incl. one and two valid SCT entries); every signature / extension size 0..65000 with consistent enclosing lengths (quick tier: the size set of sweep::sizes); all 256 versions, all 65536 algorithm pairs, timestamps over all single/double-bit patterns and every byte x all values; every string of bounded length over positional alphabets; well-formed 45-byte SCT prefix followed by every tail of length <= {}. Oracle: strict RFC 6962 walker + 'a malformed list yields at most the entries before the first bad one, all inside the declared list'. Non-trivial: every case",
        ns, nl, d, tn)));
    // the same check against the crate built with all cargo features (std, serialize, unstable)
    let mut sink = sink;
    run.all_features_variant(&mut sink);
    let code = run.finish(&sink, cov, vec!["strict walker per DESIGN appendix D; trailing bytes inside an entry are Unspecified".into()]);
    std::process::exit(code);
}
