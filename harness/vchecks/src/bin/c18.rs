//! C18 — feature matrix: no_std, std and serialize builds agree; no unsafe code; Send + Sync (E4).
//! Every feature set of the (finite) configuration space is built from /repo's working tree.
use serde_json::{json, Map, Value};
use std::process::Command;
use vcommon::report::*;

struct Cfg {
    name: &'static str,
    flags: &'static [&'static str],
    /// features of the digest probe that forward to this configuration
    probe_flags: &'static [&'static str],
    must_build: bool,
}

const CFGS: [Cfg; 4] = [
    Cfg { name: "default", flags: &[], probe_flags: &["--features", "std"], must_build: true },
    Cfg { name: "no-default-features", flags: &["--no-default-features"], probe_flags: &[], must_build: true },
    Cfg { name: "serialize", flags: &["--features", "serialize"], probe_flags: &["--features", "std,serialize"], must_build: true },
    Cfg { name: "serialize-without-std", flags: &["--no-default-features", "--features", "serialize"], probe_flags: &[], must_build: false },
];

fn cargo(args: &[&str], dir: &str, target: &str) -> (bool, String) {
    let out = Command::new("cargo")
        .args(args)
        .arg("--offline")
        .arg("--target-dir")
        .arg(target)
        .current_dir(dir)
        .env("CARGO_NET_OFFLINE", "true")
        .env_remove("RUSTFLAGS")
        .output();
    match out {
        Ok(o) => (o.status.success(), format!("{}{}", String::from_utf8_lossy(&o.stdout), String::from_utf8_lossy(&o.stderr))),
        Err(e) => machinery_failure("C18", &format!("cannot run cargo: {}", e)),
    }
}

fn tail(s: &str, n: usize) -> String {
    let lines: Vec<&str> = s.lines().filter(|l| l.starts_with("error") || l.contains("-->") || l.contains("compile_error") || l.contains("cannot be")).collect();
    lines.iter().take(n).cloned().collect::<Vec<_>>().join(" | ")
}

fn scan_unsafe() -> Vec<String> {
    let mut hits = Vec::new();
    let mut files: Vec<std::path::PathBuf> = std::fs::read_dir("/repo/src").map(|d| d.filter_map(|e| e.ok()).map(|e| e.path()).collect()).unwrap_or_default();
    files.push("/repo/build.rs".into());
    files.sort();
    for f in files {
        let Ok(s) = std::fs::read_to_string(&f) else { continue };
        for (n, line) in s.lines().enumerate() {
            let code = line.split("//").next().unwrap_or("");
            // the token `unsafe` (not inside identifiers such as unsafe_code)
            let bytes = code.as_bytes();
            let mut i = 0;
            while let Some(p) = code[i..].find("unsafe") {
                let a = i + p;
                let b = a + 6;
                let before = a == 0 || !(bytes[a - 1].is_ascii_alphanumeric() || bytes[a - 1] == b'_');
                let after = b >= bytes.len() || !(bytes[b].is_ascii_alphanumeric() || bytes[b] == b'_');
                if before && after {
                    hits.push(format!("{}:{}: {}", f.display(), n + 1, line.trim()));
                }
                i = b;
            }
        }
    }
    hits
}

/// `line` with the contents of string / char literals blanked out
fn strip_literals(line: &str) -> String {
    let mut out = String::with_capacity(line.len());
    let mut it = line.chars().peekable();
    while let Some(c) = it.next() {
        if c == '"' {
            out.push('"');
            while let Some(d) = it.next() {
                if d == '\\' {
                    it.next();
                } else if d == '"' {
                    break;
                }
            }
            out.push('"');
        } else {
            out.push(c);
        }
    }
    out
}

/// The crate after macro expansion (nightly `-Zunpretty=expanded`): `#![forbid(unsafe_code)]` is not applied to
/// what derive macros of other crates generate, so "contains none" is checked on the expanded text. The marker
/// impls and the unreachable hint that the built-in derives of core expand to are the only accepted forms.
fn scan_expanded(name: &str, flags: &[&str]) -> Result<(usize, Vec<String>), String> {
    let target = format!("/verif/target/c18/expand-{}", name);
    let out = Command::new("cargo")
        .arg("+nightly")
        .args(["rustc", "--lib"])
        .args(flags)
        .args(["--offline", "--target-dir", &target, "--", "-Zunpretty=expanded"])
        .current_dir("/repo")
        .env("CARGO_NET_OFFLINE", "true")
        .env_remove("RUSTFLAGS")
        .output()
        .map_err(|e| format!("cannot run cargo +nightly: {}", e))?;
    if !out.status.success() {
        return Err(format!("macro expansion failed: {}", tail(&String::from_utf8_lossy(&out.stderr), 4)));
    }
    let text = String::from_utf8_lossy(&out.stdout).to_string();
    let mut hits = Vec::new();
    let mut tokens = 0;
    for (n, line) in text.lines().enumerate() {
        let code = strip_literals(line);
        let bytes = code.as_bytes();
        let mut i = 0;
        let mut found = 0;
        while let Some(p) = code[i..].find("unsafe") {
            let a = i + p;
            let b = a + 6;
            let before = a == 0 || !(bytes[a - 1].is_ascii_alphanumeric() || bytes[a - 1] == b'_');
            let after = b >= bytes.len() || !(bytes[b].is_ascii_alphanumeric() || bytes[b] == b'_');
            if before && after {
                found += 1;
            }
            i = b;
        }
        if found == 0 {
            continue;
        }
        tokens += found;
        let t = code.trim();
        let accepted = found == 1 && (t.starts_with("unsafe impl ::core::") && t.ends_with("{ }") || t.contains("unsafe { ::core::intrinsics::unreachable() }"));
        if !accepted {
            hits.push(format!("expanded source line {}: {:.160}", n + 1, t));
        }
    }
    if text.lines().count() < 1000 {
        return Err(format!("macro expansion printed only {} lines", text.lines().count()));
    }
    Ok((tokens, hits))
}

fn main() {
    let run = Run::from_args("C18", "exploration");
    let prebuild = std::env::args().any(|a| a == "--prebuild");
    let repo = "/repo";
    let mut sink = Sink::new();
    let mut rows: Vec<Value> = Vec::new();
    let replay = json!({"kind":"matrix"});

    // ---- (1) the four feature sets of the crate itself (+ unsafe_code lint forbidden on the command line)
    let builds: Vec<(usize, bool, String, bool, String)> = std::thread::scope(|s| {
        let hs: Vec<_> = CFGS
            .iter()
            .enumerate()
            .map(|(i, c)| {
                s.spawn(move || {
                    let target = format!("/verif/target/c18/lib-{}", c.name);
                    let mut a = vec!["build", "--lib"];
                    a.extend_from_slice(c.flags);
                    let (ok, log) = cargo(&a, repo, &target);
                    let (uok, ulog) = if ok {
                        let mut a = vec!["rustc", "--lib"];
                        a.extend_from_slice(c.flags);
                        a.extend_from_slice(&["--", "-F", "unsafe_code"]);
                        // the `--` separator must come last: cargo() appends --offline/--target-dir, so build the full list here
                        let mut cmd = Command::new("cargo");
                        cmd.args(["rustc", "--lib"]).args(c.flags).args(["--offline", "--target-dir", &target, "--", "-F", "unsafe_code"]).current_dir(repo).env("CARGO_NET_OFFLINE", "true").env_remove("RUSTFLAGS");
                        match cmd.output() {
                            Ok(o) => (o.status.success(), String::from_utf8_lossy(&o.stderr).to_string()),
                            Err(e) => (false, format!("cannot run cargo rustc: {}", e)),
                        }
                    } else {
                        (true, String::new())
                    };
                    (i, ok, log, uok, ulog)
                })
            })
            .collect();
        hs.into_iter().map(|h| h.join().unwrap()).collect()
    });
    for (i, ok, log, uok, ulog) in &builds {
        let c = &CFGS[*i];
        sink.case(fnv(1, c.name.as_bytes()), true);
        sink.count("crate build", if *ok { "builds" } else { "fails" });
        rows.push(json!({"configuration": c.name, "flags": c.flags, "builds": ok, "forbid_unsafe_build": uok}));
        if c.must_build && !ok {
            sink.violation(format!("build {}", c.name), format!("tls-parser does not build with feature set '{}': {}", c.name, tail(log, 4)), replay.clone());
        }
        if !c.must_build {
            if *ok {
                sink.violation(format!("build {}", c.name), "enabling `serialize` without `std` is not refused at compile time".into(), replay.clone());
            } else if !log.contains("features `serialize` cannot be enabled when using `no_std`") {
                sink.violation(format!("build {} message", c.name), format!("serialize without std fails, but not with the compile_error message: {}", tail(log, 3)), replay.clone());
            }
        }
        if *ok && !uok {
            sink.violation(format!("unsafe {}", c.name), format!("feature set '{}' does not build with -F unsafe_code: {}", c.name, tail(ulog, 3)), replay.clone());
        }
    }
    // source-level: forbid attribute present, no `unsafe` token
    let lib = std::fs::read_to_string("/repo/src/lib.rs").unwrap_or_default();
    sink.case(fnv(2, b"forbid"), true);
    if !lib.lines().any(|l| l.trim() == "#![forbid(unsafe_code)]") {
        sink.violation("forbid attribute".into(), "#![forbid(unsafe_code)] is no longer present in src/lib.rs".into(), replay.clone());
    }
    let hits = scan_unsafe();
    sink.case(fnv(2, b"scan"), true);
    for h in &hits {
        sink.violation(format!("unsafe token {}", h.split(": ").next().unwrap_or("")), format!("`unsafe` appears in the sources: {}", h), replay.clone());
    }

    // the same on the macro-expanded crate, in each buildable configuration
    let expanded: Vec<(usize, Result<(usize, Vec<String>), String>)> = std::thread::scope(|s| {
        let hs: Vec<_> = CFGS.iter().enumerate().filter(|(_, c)| c.must_build).map(|(i, c)| s.spawn(move || (i, scan_expanded(c.name, c.flags)))).collect();
        hs.into_iter().map(|h| h.join().unwrap()).collect()
    });
    let mut expanded_tokens = 0;
    for (i, r) in &expanded {
        let c = &CFGS[*i];
        sink.case(fnv(5, c.name.as_bytes()), true);
        match r {
            Ok((n, hits)) => {
                expanded_tokens += n;
                for h in hits {
                    sink.violation(format!("expanded unsafe {} {}", c.name, h), format!("after macro expansion (feature set '{}') the crate contains unsafe code: {}", c.name, h), replay.clone());
                }
            }
            Err(e) => {
                // only a failure of the tool itself: a crate that does not build is reported by (1)
                if builds.iter().any(|b| b.0 == *i && b.1) {
                    machinery_failure("C18", &format!("{} (feature set '{}')", e, c.name));
                }
            }
        }
    }
    let _ = expanded_tokens;

    // ---- (2) differential digests: the probe built against each buildable configuration
    let digests: Vec<(usize, bool, String)> = std::thread::scope(|s| {
        let hs: Vec<_> = CFGS
            .iter()
            .enumerate()
            .filter(|(_, c)| c.must_build)
            .map(|(i, c)| {
                s.spawn(move || {
                    let target = format!("/verif/target/c18/digest-{}", c.name);
                    let mut a = vec!["build", "--release"];
                    a.extend_from_slice(c.probe_flags);
                    let (ok, log) = cargo(&a, "/verif/probes/digest", &target);
                    if !ok {
                        return (i, false, log);
                    }
                    if prebuild {
                        return (i, true, String::new());
                    }
                    match Command::new(format!("{}/release/digest-probe", target)).output() {
                        Ok(o) if o.status.success() => (i, true, String::from_utf8_lossy(&o.stdout).to_string()),
                        Ok(o) => (i, false, format!("probe exited with {:?}: {}", o.status.code(), String::from_utf8_lossy(&o.stderr))),
                        Err(e) => (i, false, format!("cannot run probe: {}", e)),
                    }
                })
            })
            .collect();
        hs.into_iter().map(|h| h.join().unwrap()).collect()
    });
    // Send + Sync probe
    let (ss_ok, ss_log) = cargo(&["build"], "/verif/probes/sendsync", "/verif/target/c18/sendsync");
    if prebuild {
        println!("C18 prebuild done");
        std::process::exit(0);
    }
    let mut tables: Vec<(usize, Vec<(String, String, u64)>)> = Vec::new();
    for (i, ok, out) in &digests {
        let c = &CFGS[*i];
        if !ok {
            // the crate itself built in this configuration (else reported above): a probe failure is then a divergence of the public API
            let crate_ok = builds.iter().any(|b| b.0 == *i && b.1);
            if crate_ok {
                sink.violation(format!("probe {}", c.name), format!("the differential probe does not build / run against feature set '{}': {}", c.name, tail(out, 4)), replay.clone());
            }
            continue;
        }
        let mut t = Vec::new();
        for l in out.lines() {
            let f: Vec<&str> = l.split_whitespace().collect();
            if f.len() == 4 && f[0] == "entry" {
                t.push((f[1].to_string(), f[2].to_string(), f[3].parse().unwrap_or(0)));
            }
        }
        tables.push((*i, t));
    }
    // ---- (2b) the probe again under a shim that owns the ambient inputs a library could consult: every clock reading
    //      jumps ahead (an hour, a day), OS randomness is a fixed function of a seed. "The parsers return identical
    //      results" includes: identical whatever the time of day and whatever the process's random keys.
    {
        let so = "/verif/target/c18/fakeenv.so";
        let cc = Command::new("cc").args(["-shared", "-fPIC", "-O1", "-o", so, "/verif/probes/fakeenv/fakeenv.c", "-ldl"]).output();
        if !matches!(&cc, Ok(o) if o.status.success()) {
            machinery_failure("C18", "cannot build the clock / randomness shim (probes/fakeenv/fakeenv.c)");
        }
        // (clock step, random seed, value of every environment variable asked for by name)
        let jobs: Vec<(usize, &'static str, &'static str, &'static str)> = tables.iter().flat_map(|(i, _)| [(*i, "3600", "1", "18432"), (*i, "86400", "2", "1"), (*i, "31", "3", "65535")]).collect();
        let outs: Vec<(usize, &'static str, &'static str, std::io::Result<std::process::Output>)> = std::thread::scope(|sc| {
            let jobs = &jobs;
            let hs: Vec<_> = jobs
                .iter()
                .map(|&(i, step, seed, envv)| {
                    sc.spawn(move || {
                        let target = format!("/verif/target/c18/digest-{}", CFGS[i].name);
                        let o = Command::new(format!("{}/release/digest-probe", target)).env("LD_PRELOAD", so).env("FAKE_CLOCK_STEP_S", step).env("FAKE_RANDOM_SEED", seed).env("FAKE_ENV_VALUE", envv).output();
                        (i, step, seed, o)
                    })
                })
                .collect();
            hs.into_iter().map(|h| h.join().unwrap()).collect()
        });
        for (i, step, seed, o) in outs {
            let c = &CFGS[i];
            let t = &tables.iter().find(|(k, _)| *k == i).unwrap().1;
            let out = match o {
                Ok(o) if o.status.success() => String::from_utf8_lossy(&o.stdout).to_string(),
                Ok(o) => {
                    sink.violation(format!("shim run {} {}", c.name, step), format!("under a clock advancing {} s per reading / random seed {} the probe of feature set '{}' ends with {:?}: {}", step, seed, c.name, o.status.code(), tail(&String::from_utf8_lossy(&o.stderr), 3)), replay.clone());
                    continue;
                }
                Err(e) => machinery_failure("C18", &format!("cannot run the probe under the shim: {}", e)),
            };
            let mut t2 = Vec::new();
            for l in out.lines() {
                let f: Vec<&str> = l.split_whitespace().collect();
                if f.len() == 4 && f[0] == "entry" {
                    t2.push((f[1].to_string(), f[2].to_string(), f[3].parse::<u64>().unwrap_or(0)));
                }
            }
            sink.case(fnv(7, format!("{}{}", c.name, step).as_bytes()), true);
            sink.count("clock / randomness shim runs", if *t == t2 { "equal" } else { "DIFFERENT" });
            if t.len() != t2.len() {
                sink.violation(format!("shim {} entries", c.name), format!("feature set '{}': the probe prints {} entries under the shim, {} without", c.name, t2.len(), t.len()), replay.clone());
            }
            for (a, b) in t.iter().zip(t2.iter()) {
                if a != b {
                    sink.violation(
                        format!("shim {} {}", c.name, a.0),
                        format!("{}: feature set '{}': results over {} corpus inputs change when the clock advances {} s per reading, OS randomness is seeded with {} and every environment variable read by name has a value ({} vs {}): they depend on ambient state, not only on the input", a.0, c.name, a.2, step, seed, a.1, b.1),
                        replay.clone(),
                    );
                }
            }
        }
    }
    let mut corpus_inputs = 0u64;
    if let Some((_, first)) = tables.first() {
        corpus_inputs = first.iter().map(|e| e.2).sum();
        for (i, t) in tables.iter().skip(1) {
            for (a, b) in first.iter().zip(t.iter()) {
                sink.case(fnv(*i as u64, a.0.as_bytes()), true);
                sink.count("digest comparison", if a == b { "equal" } else { "DIFFERENT" });
                if a != b {
                    sink.violation(
                        format!("digest {} {}", CFGS[*i].name, a.0),
                        format!("{}: results over {} corpus inputs differ between feature sets '{}' and '{}' ({} vs {})", a.0, a.2, CFGS[tables[0].0].name, CFGS[*i].name, a.1, b.1),
                        replay.clone(),
                    );
                }
            }
            if first.len() != t.len() {
                sink.violation(format!("digest {} shape", CFGS[*i].name), "the probes report different sets of entry points".into(), replay.clone());
            }
        }
    }
    if sink.viol.is_empty() && (tables.len() != 3 || corpus_inputs < 100_000) {
        machinery_failure(run.prop, &format!("vacuous: {} digest tables, {} inputs", tables.len(), corpus_inputs));
    }
    sink.evals += corpus_inputs * tables.len() as u64;
    sink.case(fnv(3, b"sendsync"), true);
    sink.count("send+sync probe", if ss_ok { "builds" } else { "fails" });
    if !ss_ok {
        if ss_log.contains("E0277") {
            sink.violation("send-sync".into(), format!("a public value type is not Send + Sync: {}", tail(&ss_log, 4)), replay.clone());
        } else {
            machinery_failure(run.prop, &format!("Send/Sync probe fails to build for another reason: {}", tail(&ss_log, 4)));
        }
    }
    let mut cov = Map::new();
    cov.insert("exhaustive".into(), json!(true));
    cov.insert("configurations".into(), json!(rows));
    cov.insert("digest_tables".into(), json!(tables.iter().map(|(i, t)| json!({"configuration": CFGS[*i].name, "entries": t.iter().map(|e| json!({"entry": e.0, "digest": e.1, "inputs": e.2})).collect::<Vec<_>>() })).collect::<Vec<_>>()));
    cov.insert("corpus_inputs_per_configuration".into(), json!(corpus_inputs));
    cov.insert("samples".into(), json!([{"configuration":"serialize-without-std","expected":"compile_error: features `serialize` cannot be enabled when using `no_std`"},{"configuration":"no-default-features","probe":"digest-probe over the catalogue corpus"}]));
    cov.insert("rule".into(), json!(
        "all 4 feature sets {default, none, std+serialize, serialize-without-std} are built from /repo's working tree (the last must fail with the compile_error text); each buildable one is rebuilt with -F unsafe_code; src/ and build.rs are scanned for the `unsafe` token and the forbid attribute, and so is the macro-expanded crate of each buildable configuration (nightly -Zunpretty=expanded; only the marker impls / unreachable hints of core's built-in derives are accepted); a probe crate is built against each buildable configuration and prints a digest of (class, consumed, Debug text) per entry point over the catalogue corpus with single deviations (25 entry points, registries over all 65536 ids, 216 defragmenter histories): digests must be identical, also when the probe runs under an LD_PRELOAD shim that makes every clock reading jump ahead (31 s / 1 h / 1 day), fixes OS randomness and gives every environment variable that is read by name a value (3 runs per configuration); a second probe asserts Send + Sync for 77 public types. Non-trivial: every configuration / digest comparison"));
    let code = run.finish(&sink, cov, vec!["the corpus of the differential probe is the small-scope catalogue with single deviations, not every input".into()]);
    std::process::exit(code);
}
