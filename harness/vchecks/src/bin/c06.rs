//! C06 — parsers are local and zero-copy: only the declared bytes matter (relational, E2).
use serde_json::{json, Map};
use vchecks::defrag_explore as dx;
use vchecks::sweep::*;
use vchecks::targets::*;
use vcommon::catalogue as cat;
use vcommon::en::{Alpha, W};
use vcommon::report::*;
use vcommon::v::{Got, Ref};

fn suffixes(b: &[u8], long: bool) -> Vec<Vec<u8>> {
    let mut v = vec![
        vec![0x00],
        vec![0xff, 0xff, 0xff],
        b.to_vec(),
        vec![0x16, 0x03, 0x03, 0x00, 0x04, 0x00, 0x00, 0x00, 0x00],
        vec![0x00, 0x17, 0x00, 0x00],
        vec![0x17, 0x03, 0x03, 0x00, 0x02, 0xaa, 0xbb],
        vec![0x14, 0x03, 0x03, 0x00, 0x01, 0x01],
    ];
    // the inside of the structure repeated after it: its inner elements (messages of a record,
    // entries of a list, the content of an extension) then look like valid continuation data
    for k in [1usize, 2, 3, 4, 5, 13] {
        if b.len() > k {
            v.push(b[k..].to_vec());
        }
    }
    // long suffixes (a length read from the wrong place is then satisfiable); only for short inputs to bound the cost
    if long && b.len() <= 1200 {
        v.push(vec![0u8; 300]);
        v.push(vec![0xffu8; 1100]);
    }
    if long && b.len() <= 48 {
        v.push((0..70000u32).map(|i| (i % 251) as u8).collect());
    }
    v
}

/// struct sweeps: rejected inputs of <= 48 bytes also get the 70000-byte suffix (a length that lies by 2^16 is
/// then satisfiable); off during the string sweeps (millions of inputs)
static LONG_ON_REJECT: std::sync::atomic::AtomicBool = std::sync::atomic::AtomicBool::new(true);

/// The declared extent of the structure at the start of `b` for the parsers whose structure carries its total length
/// up front (records, handshake messages, single extensions, SCT entries and lists): header size + length field.
/// "Only the declared bytes matter" can then be stated without any other knowledge of the format.
/// end of a run of length-prefixed fields (prefix widths in `widths`) that starts at `at`; None if a prefix is cut
fn walk(b: &[u8], mut at: usize, widths: &[usize]) -> Option<usize> {
    for &w in widths {
        let l = b.get(at..at + w)?.iter().fold(0usize, |a, y| (a << 8) | *y as usize);
        at += w + l;
    }
    Some(at)
}

fn envelope(name: &str, b: &[u8]) -> Option<usize> {
    let be = |r: std::ops::Range<usize>| -> Option<usize> { b.get(r).map(|x| x.iter().fold(0usize, |a, y| (a << 8) | *y as usize)) };
    match name {
        "parse_tls_plaintext" | "parse_tls_encrypted" | "parse_tls_raw_record" => be(3..5).map(|l| 5 + l),
        "parse_dtls_plaintext_record" => be(11..13).map(|l| 13 + l),
        "parse_tls_message_handshake" => be(1..4).map(|l| 4 + l),
        "parse_dtls_message_handshake" => be(9..12).map(|l| 12 + l),
        "parse_ct_signed_certificate_timestamp" | "parse_ct_signed_certificate_timestamp_list" => be(0..2).map(|l| 2 + l),
        // sequences of length-prefixed fields: the extent is the sum of what the prefixes declare
        "parse_dh_params" => walk(b, 0, &[2, 2, 2]),
        "parse_digitally_signed" => walk(b, 2, &[2]),
        "parse_digitally_signed_old" => walk(b, 0, &[2]),
        "parse_ecdh_params" => match b.first() {
            Some(3) => walk(b, 3, &[1]),
            Some(1) => walk(b, 1, &[1, 1, 1, 1, 1, 1, 1]),
            _ => None,
        },
        "parse_ec_parameters" => match b.first() {
            Some(3) => (b.len() >= 3).then_some(3),
            Some(1) => walk(b, 1, &[1, 1, 1, 1, 1, 1]),
            _ => None,
        },
        "parse_tls_extension_sni_hostname" | "parse_tls_extensions" => None,
        n if n.starts_with("parse_tls_extension") || n == "parse_tls_client_hello_extension" || n == "parse_tls_server_hello_extension" => be(2..4).map(|l| 4 + l),
        _ => None,
    }
}

/// L1 / L2 on one (parser, input); `g` = f(b)
fn locality(t: &Target, b: &[u8], g: &Got, _r: &Ref, sink: &mut Sink) {
    let mut found: Vec<String> = Vec::new();
    let mut extra_evals = 0u64;
    let mut viol = |what: String| found.push(what);
    // the declared extent is all that matters: with all of it present the parser has an answer, and it is the answer it
    // gives on exactly those bytes
    if let Some(decl) = envelope(t.name, b) {
        if b.len() >= decl {
            let exact = (t.run)(&b[..decl]);
            extra_evals += 1;
            match (g, &exact) {
                (Got::Panic(_), _) | (_, Got::Panic(_)) => {}
                (Got::Ok(v, c), Got::Ok(v2, c2)) => {
                    if *c > decl {
                        viol(format!("locality: {} bytes are consumed although the structure declares {}", c, decl));
                    } else if v != v2 || c != c2 {
                        viol(format!("locality: on the {} declared bytes alone the result is {:.200}, with the bytes that follow {:.200}", decl, format!("{:?}", exact), format!("{:?}", g)));
                    }
                }
                (Got::Ok(..), _) | (_, Got::Ok(..)) => viol(format!("locality: on the {} declared bytes alone the outcome is {:.120}, with the bytes that follow {:.120}", decl, format!("{:?}", exact), format!("{:?}", g))),
                _ => {}
            }
        }
    }
    match g {
        Got::Panic(p) => viol(format!("panic: {}", p)),
        Got::BadRemainder(m) => viol(format!("remainder is not a suffix of the input: {}", m)),
        Got::Ok(v, consumed) => {
            if !v.slices_within(*consumed) {
                viol(format!("zero-copy: a slice of the returned value lies outside the {} consumed bytes of the caller's buffer: {:?}", consumed, v));
            }
            let exact = (t.run)(&b[..*consumed]);
            if exact != Got::Ok(v.clone(), *consumed) {
                viol(format!("locality: on exactly the consumed {} bytes the result is {:?} instead of the same value", consumed, exact));
            }
            let mut buf: Vec<u8> = Vec::with_capacity(b.len() * 2 + 16);
            for x in suffixes(b, true) {
                buf.clear();
                buf.extend_from_slice(b);
                buf.extend_from_slice(&x);
                let g2 = (t.run)(&buf);
                extra_evals += 1;
                if g2 != *g {
                    viol(format!("locality: appending {} changes the result from {:?} to {:?}", hexshort(&x), g, g2));
                    break;
                }
            }
        }
        Got::Error(_) | Got::Failure(_) => {
            let mut buf: Vec<u8> = Vec::with_capacity(b.len() * 2 + 16);
            for x in suffixes(b, LONG_ON_REJECT.load(std::sync::atomic::Ordering::Relaxed) && b.len() <= 48) {
                buf.clear();
                buf.extend_from_slice(b);
                buf.extend_from_slice(&x);
                let g2 = (t.run)(&buf);
                extra_evals += 1;
                if g2.coarse() != "Err" {
                    viol(format!("locality: the input is rejected ({:?}) but after appending {} the outcome is {:?}", g, hexshort(&x), g2));
                    break;
                }
            }
        }
        Got::Incomplete(_) => {}
    }
    sink.evals += extra_evals;
    for what in found {
        sink.violation(
            format!("{} {} {}", t.name, hexs(b), what.split(':').next().unwrap_or("")),
            format!("{}({}): {}", t.name, hexshort(b), what),
            json!({"kind":"parse","func":t.name,"input":hexs(b)}),
        );
    }
}

fn main() {
    let run = Run::from_args("C06", "exploration");
    // relational oracle only: value disagreements with the reference walkers are other properties' business
    NO_REFERENCE_VERDICT.store(true, std::sync::atomic::Ordering::Relaxed);
    let mut all: Vec<&'static Target> = vec![
        &PLAINTEXT, &ENCRYPTED, &RAW_RECORD, &DTLS_RECORD, &MSG_HANDSHAKE, &DTLS_HANDSHAKE, &EXTENSION, &EXT_CLIENT, &EXT_SERVER,
        &EXT_UNKNOWN, &SCT, &SCT_LIST, &DH_PARAMS, &EC_PARAMETERS, &ECDH_PARAMS, &EC_POINT, &SIGNED, &SIGNED_OLD, &RECORD_HEADER,
        &DTLS_RECORD_HEADER, &SNI_HOSTNAME,
    ];
    all.extend(tagged_ext_targets());
    let pairs: Vec<&'static Target> = vec![&P_DH_NEW, &P_DH_OLD, &P_ECDH_NEW, &P_ECDH_OLD, &P_PT_NEW, &P_PT_OLD];
    all.extend(pairs.iter().copied());
    if let Some(v) = run.load_replay() {
        if v["case"]["kind"] == "history" {
            machinery_failure(run.prop, "defragmenter histories are replayed with ./check C07 --replay");
        }
        if v["case"]["kind"] == "huge-suffix" {
            let name = v["case"]["func"].as_str().unwrap_or("");
            let t = all.iter().find(|t| t.name == name).unwrap_or_else(|| machinery_failure(run.prop, "unknown function in replay"));
            let b = unhex(v["case"]["input"].as_str().unwrap_or(""));
            let big = vcommon::iso::big_zero((1usize << 32) + 4096).unwrap_or_else(|| machinery_failure(run.prop, "cannot map 4 GiB"));
            big[..b.len()].copy_from_slice(&b);
            let end = (1usize << 32) + v["case"]["extra"].as_u64().unwrap_or(4096) as usize;
            let (g, g2) = ((t.run)(&b), (t.run)(&big[..end]));
            if g == g2 {
                println!("replay: property holds on this case");
                std::process::exit(0);
            }
            println!("replay: followed by 4 GiB of zero bytes the result changes from {:.200} to {:.200}", format!("{:?}", g), format!("{:?}", g2));
            println!("VIOLATION property={} replay={}", run.prop, run.replay.clone().unwrap());
            std::process::exit(1);
        }
        std::process::exit(replay_parse(&run, &all, &v["case"], &|t, b, s| {
            let g = (t.run)(b);
            locality(t, b, &g, &Ref::Unspec(""), s)
        }));
    }
    let thorough = run.tier == Tier::Thorough;
    vcommon::en::WRAP_LIES.store(true, std::sync::atomic::Ordering::Relaxed);
    let d = run.tier.pick(1, 2);
    let sfx = std_suffixes();
    let mut sink = Sink::new();
    let tagged = tagged_ext_targets();

    // struct corpora per parser family
    let recs = cat::tls_records(2, thorough);
    sink.merge(struct_sweep(&run, &[&PLAINTEXT, &ENCRYPTED, &RAW_RECORD, &RECORD_HEADER], &recs, d, &sfx, 40, &locality));
    let hs = cat::handshake_messages(thorough);
    sink.merge(struct_sweep(&run, &[&MSG_HANDSHAKE], &hs, d, &sfx, 48, &locality));
    let exts = cat::known_extensions();
    let mut ext_targets: Vec<&Target> = vec![&EXTENSION, &EXT_CLIENT, &EXT_SERVER, &EXT_UNKNOWN];
    ext_targets.extend(tagged.iter().copied());
    sink.merge(struct_sweep(&run, &ext_targets, &exts, d, &sfx, 48, &locality));
    let generic: Vec<W> = (0..=65535u32)
        .step_by(if thorough { 1 } else { 257 })
        .flat_map(|t| cat::generic_contents().into_iter().map(move |c| cat::ext_with(t as u16, &c)))
        .collect();
    sink.merge(struct_sweep(&run, &ext_targets, &generic, 0, &sfx, 48, &locality));
    sink.merge(struct_sweep(&run, &[&DTLS_HANDSHAKE], &cat::dtls_handshake_messages(), d, &sfx, 48, &locality));
    sink.merge(struct_sweep(&run, &[&DTLS_RECORD, &DTLS_RECORD_HEADER], &cat::dtls_records(), d, &sfx, 40, &locality));
    sink.merge(struct_sweep(&run, &[&DH_PARAMS], &cat::dh_params(thorough), d, &sfx, 40, &locality));
    sink.merge(struct_sweep(&run, &[&EC_PARAMETERS, &ECDH_PARAMS], &cat::ecdh_params(), d, &sfx, 40, &locality));
    sink.merge(struct_sweep(&run, &[&EC_POINT], &cat::ec_points(), 1, &sfx, 16, &locality));
    sink.merge(struct_sweep(&run, &[&SIGNED, &SIGNED_OLD], &cat::signatures(true, thorough), d, &sfx, 40, &locality));
    sink.merge(struct_sweep(&run, &[&SIGNED, &SIGNED_OLD], &cat::signatures(false, thorough), d, &sfx, 40, &locality));
    // content + signature under both flag values and both signature encodings, with several opaque-content
    // patterns (the first signature bytes then read as small / large lengths in the other form)
    for style in [0u8, 1, 2, 3, 4] {
        use vcommon::en::with_fill_style as wfs;
        let sigs: Vec<W> = wfs(style, || cat::signatures(true, false)).into_iter().chain(wfs(style, || cat::signatures(false, false))).collect();
        let mut v: Vec<W> = Vec::new();
        for c in wfs(style, || cat::dh_params(false)).iter().step_by(5) {
            for s in sigs.iter().step_by(2) {
                let mut w = c.clone();
                w.append(s);
                v.push(w);
            }
        }
        sink.merge(struct_sweep(&run, &[&P_DH_NEW, &P_DH_OLD], &v, if style == 0 { d } else { 0 }, &sfx, 32, &locality));
        let mut v: Vec<W> = Vec::new();
        for c in wfs(style, cat::ecdh_params).iter().step_by(3) {
            for s in sigs.iter().step_by(3) {
                let mut w = c.clone();
                w.append(s);
                v.push(w);
            }
        }
        sink.merge(struct_sweep(&run, &[&P_ECDH_NEW, &P_ECDH_OLD], &v, 0, &sfx, 32, &locality));
        let mut v: Vec<W> = Vec::new();
        for c in wfs(style, cat::ec_points).iter().step_by(29) {
            for s in sigs.iter() {
                let mut w = c.clone();
                w.append(s);
                v.push(w);
            }
        }
        sink.merge(struct_sweep(&run, &[&P_PT_NEW, &P_PT_OLD], &v, 0, &sfx, 32, &locality));
    }
    sink.merge(struct_sweep(&run, &[&SCT], &cat::scts(thorough), d, &sfx, 64, &locality));
    sink.merge(struct_sweep(&run, &[&SCT_LIST], &cat::sct_lists(thorough), d, &sfx, 64, &locality));

    // signatures whose content is DER with an inner length that over- / understates what the field holds (short and long form),
    // nested DER with trailing bytes, under the DSA / ECDSA / RSA / EdDSA algorithm pairs: the value never reaches past the field
    for style in [10u8, 11, 12, 13, 14, 20, 21] {
        use vcommon::en::with_fill_style as wfs;
        let mut sigs: Vec<W> = Vec::new();
        for alg in [0x0403u16, 0x0402, 0x0203, 0x0401, 0x0807, 0x0000] {
            for n in [2usize, 3, 8, 10, 40, 72, 100, 130] {
                sigs.push(wfs(style, || {
                    let mut w = W::new();
                    w.u16(alg);
                    w.block(2, "sig_len", |w| {
                        w.fill(n, 0x41);
                    });
                    w
                }));
            }
        }
        sink.merge(struct_sweep(&run, &[&SIGNED], &sigs, 0, &sfx, 8, &locality));
    }
    // the same encodings under foreign outer headers (DER OCTET STRING / SEQUENCE, length prefixes, record /
    // handshake / extension headers): a parser that recognises and strips one decides by what follows
    {
        let st = run.tier.pick(3, 1);
        sink.merge(struct_sweep(&run, &[&PLAINTEXT, &ENCRYPTED, &RAW_RECORD, &RECORD_HEADER], &wrapped(&cat::tls_records(2, false), st * 2), 0, &sfx, 8, &locality));
        sink.merge(struct_sweep(&run, &[&MSG_HANDSHAKE], &wrapped(&cat::handshake_messages(false), st), 0, &sfx, 8, &locality));
        sink.merge(struct_sweep(&run, &[&MSG_HANDSHAKE], &cat::tls13_messages(), 0, &sfx, 8, &locality));
        sink.merge(struct_sweep(&run, &ext_targets, &wrapped(&exts, st), 0, &sfx, 8, &locality));
        sink.merge(struct_sweep(&run, &[&DTLS_HANDSHAKE], &wrapped(&cat::dtls_handshake_messages(), st), 0, &sfx, 8, &locality));
        sink.merge(struct_sweep(&run, &[&DTLS_RECORD, &DTLS_RECORD_HEADER], &wrapped(&cat::dtls_records(), st), 0, &sfx, 8, &locality));
        sink.merge(struct_sweep(&run, &[&DH_PARAMS], &wrapped(&cat::dh_params(false), st), 0, &sfx, 8, &locality));
        sink.merge(struct_sweep(&run, &[&DH_PARAMS], &cat::dh_relations(), 0, &sfx, 8, &locality));
        sink.merge(struct_sweep(&run, &[&ECDH_PARAMS, &EC_PARAMETERS], &cat::ecdh_grid(), 0, &sfx, 8, &locality));
        sink.merge(struct_sweep(&run, &[&EC_PARAMETERS, &ECDH_PARAMS], &wrapped(&cat::ecdh_params(), 1), 0, &sfx, 8, &locality));
        sink.merge(struct_sweep(&run, &[&EC_POINT], &wrapped(&cat::ec_points(), 7), 0, &sfx, 8, &locality));
        sink.merge(struct_sweep(&run, &[&SIGNED, &SIGNED_OLD], &wrapped(&cat::signatures(true, false), 1), 0, &sfx, 8, &locality));
        sink.merge(struct_sweep(&run, &[&SIGNED, &SIGNED_OLD], &wrapped(&cat::signatures(false, false), 1), 0, &sfx, 8, &locality));
        sink.merge(struct_sweep(&run, &[&SCT], &wrapped(&cat::scts(false), 1), 0, &sfx, 8, &locality));
        sink.merge(struct_sweep(&run, &[&SCT_LIST], &wrapped(&cat::sct_lists(false), 1), 0, &sfx, 8, &locality));
    }
    // the scale rung 2^32: an accepted encoding followed by 4 GiB of data (one lazily zeroed buffer; only its head is
    // ever touched): a length or an availability computed in 32 bits shows only here
    {
        let total: usize = (1usize << 32) + 4096;
        if let Some(big) = vcommon::iso::big_zero(total) {
            let fams: Vec<(Vec<&Target>, Vec<W>)> = vec![
                (vec![&PLAINTEXT, &ENCRYPTED, &RAW_RECORD, &RECORD_HEADER], cat::tls_records(2, false)),
                (vec![&MSG_HANDSHAKE], cat::handshake_messages(false)),
                (ext_targets.clone(), exts.iter().filter(|w| w.buf.len() < 300).cloned().collect()),
                (vec![&DTLS_HANDSHAKE], cat::dtls_handshake_messages()),
                (vec![&DTLS_RECORD, &DTLS_RECORD_HEADER], cat::dtls_records()),
                (vec![&DH_PARAMS], cat::dh_params(false)),
                (vec![&EC_PARAMETERS, &ECDH_PARAMS], cat::ecdh_params()),
                (vec![&EC_POINT], cat::ec_points().into_iter().step_by(40).collect()),
                (vec![&SIGNED, &SIGNED_OLD], cat::signatures(true, false)),
                (vec![&SCT], cat::scts(false)),
                (vec![&SCT_LIST], cat::sct_lists(false)),
            ];
            let mut n4 = 0u64;
            for (ts, items) in &fams {
                for w in items.iter().filter(|w| w.buf.len() <= 4000).step_by(run.tier.pick(3, 1)) {
                    let l = w.buf.len();
                    big[..l].copy_from_slice(&w.buf);
                    for t in ts {
                        let g = (t.run)(&w.buf);
                        if let Got::Ok(..) = g {
                            // total sizes 2^32 + k: what is left after a header is then a small number modulo 2^32
                            for k in [0usize, 1, 4, 5, 6, 9, 13, 14, 17, 4096] {
                                let end = (1usize << 32) + k;
                                if end < l {
                                    continue;
                                }
                                let g2 = (t.run)(&big[..end]);
                                n4 += 1;
                                sink.evals += 1;
                                if g2 != g {
                                    sink.violation(
                                        format!("{} {} 4GiB", t.name, hexs(&w.buf)),
                                        format!("{}({}): locality: inside a buffer of 2^32 + {} bytes (zero bytes follow) the result changes from {:.200} to {:.200}", t.name, hexshort(&w.buf), k, format!("{:?}", g), format!("{:?}", g2)),
                                        json!({"kind":"huge-suffix","func":t.name,"input":hexs(&w.buf),"extra":k}),
                                    );
                                    break;
                                }
                            }
                        }
                    }
                    big[..l].fill(0);
                }
            }
            sink.bump("inputs followed by 4 GiB", n4);
        } else {
            sink.bump("4 GiB buffer not available (rung skipped)", 1);
        }
    }
    LONG_ON_REJECT.store(false, std::sync::atomic::Ordering::Relaxed);
    // every short string over per-family positional alphabets (nested lengths that point past the structure)
    let n = run.tier.pick(7, 8);
    let rec_alpha = Alpha::new(&[&[0x14, 0x15, 0x16, 0x17, 0x18, 0xff], &[0x03], &[0x03], &[0x00, 0x41], &[0x00, 0x01, 0x02, 0x03, 0x04, 0x06]], &[0x00, 0x01, 0x02, 0x03, 0x0e, 0xff]);
    for t in [&PLAINTEXT, &ENCRYPTED, &RAW_RECORD] {
        sink.merge(alpha_sweep(&run, t, &rec_alpha, n + 3, &identity_wrap, &locality));
    }
    let hs_alpha = Alpha::new(
        &[&[0x00, 0x01, 0x02, 0x04, 0x06, 0x0b, 0x0d, 0x0e, 0x16, 0x18, 0x43, 0xff], &[0x00], &[0x00], &[0x00, 0x01, 0x02, 0x03, 0x04, 0x05, 0x06, 0xff]],
        &[0x00, 0x01, 0x02, 0x03, 0xff],
    );
    sink.merge(alpha_sweep(&run, &MSG_HANDSHAKE, &hs_alpha, n + 2, &identity_wrap, &locality));
    let ext_alpha = Alpha::new(&[&[0x00, 0x0a, 0xff], &[0x00, 0x01, 0x05, 0x0a, 0x0b, 0x0d, 0x10, 0x12, 0x2b, 0x2d, 0x30, 0x16, 0x1a], &[0x00], &[0x00, 0x01, 0x02, 0x03, 0x04, 0x05, 0xff]], &[0x00, 0x01, 0x02, 0x03, 0xff]);
    for t in &ext_targets {
        sink.merge(alpha_sweep(&run, t, &ext_alpha, n + 1, &identity_wrap, &locality));
    }
    let small = Alpha::uniform(&[0x00, 0x01, 0x02, 0x03, 0x04, 0xff]);
    for t in [&DH_PARAMS, &EC_PARAMETERS, &ECDH_PARAMS, &EC_POINT, &SIGNED, &SIGNED_OLD, &SCT, &SCT_LIST, &SNI_HOSTNAME] {
        sink.merge(alpha_sweep(&run, t, &small, n, &identity_wrap, &locality));
    }
    let dtls_alpha = Alpha::new(&[&[0x01, 0x02, 0x03, 0x0b, 0x0e, 0x10, 0xff], &[0x00], &[0x00], &[0x00, 0x01, 0x02, 0x04, 0xff], &[0x00], &[0x00], &[0x00], &[0x00], &[0x00, 0x01], &[0x00], &[0x00], &[0x00, 0x01, 0x02, 0x04, 0xff]], &[0x00, 0x01, 0x02, 0xfe, 0xff]);
    sink.merge(alpha_sweep(&run, &DTLS_HANDSHAKE, &dtls_alpha, run.tier.pick(16, 17), &identity_wrap, &locality));

    // L3: provenance of defragmenter results (slices of a result returned without buffering lie in the
    // caller's record, slices of a defragmented result in the internal buffer): the C07 exploration,
    // whose comparison includes the region-relative slice positions
    let mut hist_states = 0;
    let mut hist_trans = 0;
    let mut hsink = Sink::new();
    let e0 = dx::explore(&run, &dx::s0(run.tier.pick(4, 5)), &mut hsink);
    hist_states += e0.states;
    hist_trans += e0.transitions;
    for p in dx::s1_catalogue(thorough) {
        let e = dx::explore(&run, &dx::s1(p), &mut hsink);
        hist_states += e.states;
        hist_trans += e.transitions;
    }
    // only provenance failures are C06's business (a slice outside the region it must borrow from, or
    // a remainder that is not the tail of that region); value / state disagreements are C07's verdict
    sink.evals += hsink.evals;
    for v in hsink.viol {
        if v.what.contains("OUTSIDE") || v.what.contains("remainder") {
            sink.violation(v.key, v.what, v.replay);
        }
    }

    let names: Vec<&'static str> = all.iter().map(|t| t.name).filter(|n| !n.ends_with("_header")).collect();
    require_both_outcomes(&run, &sink, &names);
    let mut cov = Map::new();
    cov.insert("exhaustive".into(), json!(true));
    cov.insert("self_delimiting_parsers".into(), json!(all.iter().map(|t| t.name).collect::<Vec<_>>()));
    cov.insert("defragmenter_states".into(), json!(hist_states));
    cov.insert("defragmenter_transitions".into(), json!(hist_trans));
    cov.insert("rule".into(), json!(format!(
        "for each of {} self-delimiting parsers: every catalogue encoding of its family with every combination of <= {} deviations and every string of bounded length over a positional alphabet; on each input b: (L1) if f(b)=Ok(v,rem): rem is pointer-and-content a suffix of b, every non-empty slice reachable from v lies inside the consumed bytes, f(b[..consumed]) returns the same value, and f(b||x) returns the same value and consumption for up to 14 suffixes x (a zero byte, ff ff ff, a copy of b, a valid HelloRequest record, a valid extension, and b without its first 1/2/3/4/5/13 bytes, i.e. the structure's own inner elements repeated after it, and - for inputs up to 1200 bytes - 300 zero bytes and 1100 ff bytes, for inputs up to 48 bytes also 70000 counting bytes); (L2) if f(b) is a non-Incomplete error, f(b||x) is still an error; (L3) defragmenter: the C07 exploration with region-relative slice positions. Non-trivial: not cut inside a fixed header",
        all.len(), d)));
    // the same check against the crate built with all cargo features (std, serialize, unstable)
    let mut sink = sink;
    if run.tier == Tier::Thorough {
        run.all_features_variant(&mut sink);
    }
    let code = run.finish(
        &sink,
        cov,
        vec!["reference-free relational oracle; PskExchangeModes is the one documented copy (mirrored by value)".into(), "empty remainders are exempt from the pointer test (the crate legitimately returns &[])".into()],
    );
    std::process::exit(code);
}
