//! C13 — key-exchange parameters and signatures decode exactly and self-delimit (E2 + E3).
use serde_json::{json, Map};
use tls_parser::*;
use vchecks::sweep::*;
use vchecks::targets::*;
use vcommon::catalogue as cat;
use vcommon::en::{Alpha, W};
use vcommon::reference::wire;
use vcommon::report::*;
use vcommon::v::{Ref, V};

fn all_targets() -> Vec<&'static Target> {
    vec![
        &DH_PARAMS, &EC_PARAMETERS, &ECDH_PARAMS, &EC_POINT, &SIGNED, &SIGNED_OLD, &P_DH_NEW, &P_DH_OLD, &P_ECDH_NEW, &P_ECDH_OLD,
        &P_PT_NEW, &P_PT_OLD,
    ]
}

fn concat(a: &W, b: &W) -> W {
    let mut w = a.clone();
    w.append(b);
    w
}

fn main() {
    let run = Run::from_args("C13", "exploration");
    if let Some(v) = run.load_replay() {
        std::process::exit(replay_parse(&run, &all_targets(), &v["case"], &|_, _, _| {}));
    }
    let thorough = run.tier == Tier::Thorough;
    vcommon::en::WRAP_LIES.store(true, std::sync::atomic::Ordering::Relaxed);
    let d = run.tier.pick(1, 2);
    let sfx = std_suffixes();
    let mut sink = Sink::new();

    let dh = cat::dh_params(thorough);
    let ec = cat::ec_parameters();
    let ecdh = cat::ecdh_params();
    let pts = cat::ec_points();
    let sig_new = cat::signatures(true, thorough);
    let sig_old = cat::signatures(false, thorough);
    let sizes = (dh.len(), ec.len(), ecdh.len(), pts.len(), sig_new.len() + sig_old.len());
    sink.merge(struct_sweep(&run, &[&DH_PARAMS], &dh, d, &sfx, 48, &no_extra));
    sink.merge(struct_sweep(&run, &[&EC_PARAMETERS], &ec, d, &sfx, 48, &no_extra));
    sink.merge(struct_sweep(&run, &[&ECDH_PARAMS], &ecdh, d, &sfx, 48, &no_extra));
    sink.merge(struct_sweep(&run, &[&EC_POINT], &pts, 1, &sfx, 32, &no_extra));
    sink.merge(struct_sweep(&run, &[&SIGNED], &sig_new, d, &sfx, 48, &no_extra));
    sink.merge(struct_sweep(&run, &[&SIGNED_OLD], &sig_old, d, &sfx, 48, &no_extra));
    // each encoding also through the parser of the *other* signature form (the flag alone selects the form)
    sink.merge(struct_sweep(&run, &[&SIGNED_OLD], &sig_new, 0, &sfx, 48, &no_extra));
    sink.merge(struct_sweep(&run, &[&SIGNED], &sig_old, 0, &sfx, 48, &no_extra));

    // the 65535-byte boundary sizes also in the quick tier (single deviations, sparse cuts)
    if !thorough {
        let big_dh: Vec<W> = cat::dh_params(true).into_iter().filter(|w| w.buf.len() > 60000).step_by(3).collect();
        sink.merge(struct_sweep(&run, &[&DH_PARAMS], &big_dh, 1, &sfx, 24, &no_extra));
        let big_sn: Vec<W> = cat::signatures(true, true).into_iter().filter(|w| w.buf.len() > 60000).collect();
        let big_so: Vec<W> = cat::signatures(false, true).into_iter().filter(|w| w.buf.len() > 60000).collect();
        sink.merge(struct_sweep(&run, &[&SIGNED], &big_sn, 1, &sfx, 24, &no_extra));
        sink.merge(struct_sweep(&run, &[&SIGNED_OLD], &big_so, 1, &sfx, 24, &no_extra));
    }
    // the same structures with other opaque contents (all zero, 00 ff.., leading zero before a high bit, all ff, 80 00..)
    for style in [1u8, 2, 3, 4, 5, 6, 7, 8, 9, 10, 11, 12, 13, 14, 15, 16, 17, 18, 19, 20, 21] {
        use vcommon::en::with_fill_style as wfs;
        sink.merge(struct_sweep(&run, &[&DH_PARAMS], &wfs(style, || cat::dh_params(false)), run.tier.pick(0, 1), &sfx, 48, &no_extra));
        sink.merge(struct_sweep(&run, &[&ECDH_PARAMS, &EC_PARAMETERS], &wfs(style, cat::ecdh_params), run.tier.pick(0, 1), &sfx, 48, &no_extra));
        sink.merge(struct_sweep(&run, &[&EC_POINT], &wfs(style, cat::ec_points), 0, &sfx, 32, &no_extra));
        sink.merge(struct_sweep(&run, &[&SIGNED], &wfs(style, || cat::signatures(true, false)), run.tier.pick(0, 1), &sfx, 48, &no_extra));
        sink.merge(struct_sweep(&run, &[&SIGNED_OLD], &wfs(style, || cat::signatures(false, false)), run.tier.pick(0, 1), &sfx, 48, &no_extra));
    }

    // Diffie-Hellman values in the relations a validity check would look for (Ys = 0 / 1 / p-1 / p / p+1, g = p-1, padded forms),
    // alone and followed by a signature through the content+signature parsers
    {
        let rel = cat::dh_relations();
        sink.merge(struct_sweep(&run, &[&DH_PARAMS], &rel, 0, &sfx, 16, &no_extra));
        let sig = &sig_new[sig_new.len() / 2];
        let with_sig: Vec<W> = rel.iter().map(|c| concat(c, sig)).collect();
        sink.merge(struct_sweep(&run, &[&P_DH_NEW], &with_sig, 0, &sfx, 16, &no_extra));
    }
    // named group x point size under several content patterns (all ff = not a reduced field element, all zero, high bit ...),
    // alone and followed by a signature
    for style in [0u8, 1, 4, 5, 3] {
        let grid = vcommon::en::with_fill_style(style, cat::ecdh_grid);
        sink.merge(struct_sweep(&run, &[&ECDH_PARAMS, &EC_PARAMETERS], &grid, 0, &sfx, 16, &no_extra));
        if style == 0 || style == 4 {
            let sig = &sig_new[sig_new.len() / 2];
            sink.merge(struct_sweep(&run, &[&P_ECDH_NEW], &grid.iter().map(|c| concat(c, sig)).collect::<Vec<_>>(), 0, &sfx, 16, &no_extra));
        }
    }
    // coincidences between the algorithm pair read as a 16-bit number and the length of what follows (a decoder that tries
    // the other DigitallySigned form "when it fits"): signature sizes a-4, a-2, a for algorithm pairs a
    {
        let mut co: Vec<W> = Vec::new();
        for a in (0..=0x0900u32).step_by(if thorough { 1 } else { 0x100 }).chain((0..=0x0909u32).filter(|a| a & 0xff <= 9)) {
            for d in [4i64, 2, 0] {
                let n = a as i64 - d;
                if (0..=20000).contains(&n) {
                    let mut w = W::new();
                    w.u16(a as u16);
                    w.block(2, "sig_len", |w| {
                        w.fill(n as usize, 0x30);
                    });
                    co.push(w);
                }
            }
        }
        sink.merge(struct_sweep(&run, &[&SIGNED, &SIGNED_OLD], &co, 0, &sfx, 16, &no_extra));
    }
    // explicit-prime curves and DH groups on the primes everybody knows (P-256, P-384, P-521, secp256k1, brainpool, 25519, ffdhe2048)
    {
        let real = cat::ec_explicit_real();
        let with_pt: Vec<W> = real.iter().filter(|w| w.lens.last().map_or(false, |l| l.label == "ec_point_len")).cloned().collect();
        let without: Vec<W> = real.iter().filter(|w| w.lens.last().map_or(false, |l| l.label != "ec_point_len")).cloned().collect();
        sink.merge(struct_sweep(&run, &[&ECDH_PARAMS], &with_pt, 1, &sfx, 16, &no_extra));
        sink.merge(struct_sweep(&run, &[&EC_PARAMETERS], &without, 1, &sfx, 16, &no_extra));
        sink.merge(struct_sweep(&run, &[&EC_PARAMETERS], &with_pt, 0, &sfx, 16, &no_extra));
        sink.merge(struct_sweep(&run, &[&DH_PARAMS], &cat::dh_well_known(), 1, &sfx, 16, &no_extra));
        let sig = &sig_new[sig_new.len() / 2];
        sink.merge(struct_sweep(&run, &[&P_ECDH_NEW], &with_pt.iter().map(|c| concat(c, sig)).collect::<Vec<_>>(), 0, &sfx, 16, &no_extra));
    }
    // the same encodings under foreign outer headers (DER OCTET STRING / SEQUENCE / BIT STRING, length prefixes, ...)
    sink.merge(struct_sweep(&run, &[&DH_PARAMS], &wrapped(&cat::dh_params(false), 2), 0, &sfx, 16, &no_extra));
    sink.merge(struct_sweep(&run, &[&ECDH_PARAMS, &EC_PARAMETERS], &wrapped(&ecdh, 1), 0, &sfx, 16, &no_extra));
    sink.merge(struct_sweep(&run, &[&EC_POINT], &wrapped(&pts, 5), 0, &sfx, 16, &no_extra));
    sink.merge(struct_sweep(&run, &[&SIGNED, &SIGNED_OLD], &wrapped(&cat::signatures(true, false), 1), 0, &sfx, 16, &no_extra));
    sink.merge(struct_sweep(&run, &[&SIGNED, &SIGNED_OLD], &wrapped(&cat::signatures(false, false), 1), 0, &sfx, 16, &no_extra));

    // every size of each variable-length field
    for which in 0..3usize {
        let b = move |n: usize| {
            let mut w = W::new();
            for k in 0..3 {
                let len = if k == which { n } else { 2 };
                w.block(2, "dh_len", |w| {
                    w.fill(len, 0xd1 + k as u8);
                });
            }
            w
        };
        sink.merge(size_sweep(&run, &[&DH_PARAMS], 65535, &b, &no_extra));
    }
    for with_alg in [true, false] {
        let b = move |n: usize| {
            let mut w = W::new();
            if with_alg {
                w.u8(4).u8(3);
            }
            w.block(2, "sig_len", |w| {
                w.fill(n, 0x30);
            });
            w
        };
        sink.merge(size_sweep(&run, &[if with_alg { &SIGNED } else { &SIGNED_OLD }], 65535, &b, &no_extra));
    }
    for which in 0..6usize {
        let b = move |n: usize| {
            let mut w = W::new();
            w.u8(1);
            for k in 0..6 {
                let len = if k == which { n } else { 1 + k };
                w.block(1, "ec_field_len", |w| {
                    w.fill(len, 0xa0 + k as u8);
                });
            }
            w.block(1, "ec_point_len", |w| {
                w.fill(3, 4);
            });
            w
        };
        sink.merge(size_sweep(&run, &[&ECDH_PARAMS, &EC_PARAMETERS], 255, &b, &no_extra));
    }

    // content + signature, both flag values, both signature encodings
    let mut pairs_dh = Vec::new();
    for c in dh.iter().step_by(3) {
        for s in sig_new.iter().chain(sig_old.iter()).step_by(2) {
            pairs_dh.push(concat(c, s));
        }
    }
    let mut pairs_ecdh = Vec::new();
    for c in ecdh.iter().step_by(2) {
        for s in sig_new.iter().chain(sig_old.iter()).step_by(3) {
            pairs_ecdh.push(concat(c, s));
        }
    }
    let mut pairs_pt = Vec::new();
    for c in pts.iter().step_by(17) {
        for s in sig_new.iter().chain(sig_old.iter()) {
            pairs_pt.push(concat(c, s));
        }
    }
    let npairs = pairs_dh.len() + pairs_ecdh.len() + pairs_pt.len();
    sink.merge(struct_sweep(&run, &[&P_DH_NEW, &P_DH_OLD], &pairs_dh, 1, &sfx, 32, &no_extra));
    sink.merge(struct_sweep(&run, &[&P_ECDH_NEW, &P_ECDH_OLD], &pairs_ecdh, 1, &sfx, 32, &no_extra));
    sink.merge(struct_sweep(&run, &[&P_PT_NEW, &P_PT_OLD], &pairs_pt, 1, &sfx, 32, &no_extra));

    // every size of each DH field and signature (0..65535) and of each explicit-prime field (0..255) with the others fixed (quick tier: the size set of sweep::sizes); complete sweeps: all 65536 named groups, all 256 curve types, all 256 x 256 algorithm pairs
    let mut sweeps: Vec<W> = Vec::new();
    for g in 0..=65535u32 {
        let mut w = W::new();
        w.u8(3).u16(g as u16);
        w.block(1, "ec_point_len", |w| {
            w.u8(4);
        });
        sweeps.push(w);
    }
    for ct in 0..=255u8 {
        let mut w = W::new();
        w.u8(ct).u16(23);
        w.block(1, "ec_point_len", |w| {
            w.fill(5, 4);
        });
        w.fill(8, 0);
        sweeps.push(w);
    }
    sink.merge(struct_sweep(&run, &[&ECDH_PARAMS, &EC_PARAMETERS], &sweeps, 0, &sfx, 32, &no_extra));
    let algs: Vec<W> = (0..=65535u32)
        .map(|x| {
            let mut w = W::new();
            w.u16(x as u16);
            w.block(2, "sig_len", |w| {
                w.u8(0x30);
            });
            w
        })
        .collect();
    sink.merge(struct_sweep(&run, &[&SIGNED, &SIGNED_OLD], &algs, 0, &sfx, 32, &no_extra));
    // algorithm pair x signature size grid
    let mut grid: Vec<W> = Vec::new();
    for a in 0..=65535u32 {
        for n in [0usize, 64, 65, 73, 256, 513] {
            if a % 3 != (n % 3) as u32 && !(a >> 8 <= 8 && a & 0xff <= 8) {
                continue;
            }
            let mut w = W::new();
            w.u16(a as u16);
            w.block(2, "sig_len", |w| {
                w.fill(n, 0x30);
            });
            grid.push(w);
        }
    }
    sink.merge(struct_sweep(&run, &[&SIGNED], &grid, 0, &sfx, 32, &no_extra));

    // every short string over a small alphabet on each entry point
    let a = Alpha::uniform(&[0x00, 0x01, 0x02, 0x03, 0x04, 0xff]);
    let n = run.tier.pick(8, 9);
    for t in all_targets() {
        sink.merge(alpha_sweep(&run, t, &a, n, &identity_wrap, &no_extra));
    }

    let names: Vec<&'static str> = all_targets().iter().map(|t| t.name).collect();
    require_both_outcomes(&run, &sink, &names);
    let mut cov = Map::new();
    cov.insert("exhaustive".into(), json!(true));
    cov.insert("catalogue_sizes(dh,ec,ecdh,points,signatures)".into(), json!(format!("{:?}", sizes)));
    cov.insert("content_signature_pairs".into(), json!(npairs));
    cov.insert("rule".into(), json!(format!(
        "struct: DH parameters (field sizes {{0,1,2,255,256{}}}^3), EC parameters (6 named groups, 5 explicit-prime shapes, 4 unsupported curve types), ECDH parameters, all 256 EC point lengths, both DigitallySigned forms x every combination of <= {} deviations, and again with 5 other opaque-content patterns (all zero, 00 ff.., 00 80 ff 7f.., all ff, 80 00..); content+signature pairs through parse_content_and_signature with 3 content parsers x both flag values x both signature encodings; complete sweeps of all 65536 named groups, all 256 curve types, all 65536 (hash, signature) algorithm pairs; every string of length <= {} over a 6-letter alphabet on each of the 12 entry points. Oracle: strict walkers (exact values with slice positions, exact consumption). Non-trivial: every case",
        if thorough { ",65535" } else { "" }, d, n)));
    // the same check against the crate built with all cargo features (std, serialize, unstable)
    let mut sink = sink;
    if run.tier == Tier::Thorough {
        run.all_features_variant(&mut sink);
    }
    let code = run.finish(&sink, cov, vec!["strict walkers per DESIGN appendix D (all structures self-delimiting, a cut field is a rejection)".into()]);
    std::process::exit(code);
}
