//! C09 — serializer output parses back to the same value with consistent lengths (E2 catalogue).
use cookie_factory::gen_simple;
use serde_json::{json, Map, Value};
use tls_parser::*;
use vchecks::mirror::{Base, ToV};
use vcommon::catalogue as cat;
use vcommon::iso::guarded;
use vcommon::reference::wire;
use vcommon::report::*;
use vcommon::v::{Ref, V};

#[derive(Clone, Debug)]
enum M {
    ClientHello { version: u16, random: Vec<u8>, sid: Option<Vec<u8>>, ciphers: Vec<u16>, comps: Vec<u8>, ext: Option<Vec<u8>> },
    ServerHello { version: u16, random: Vec<u8>, sid: Option<Vec<u8>>, cipher: u16, comp: u8, ext: Option<Vec<u8>> },
    ServerHello13 { random: Vec<u8>, cipher: u16, ext: Option<Vec<u8>> },
    CkeUnknown(Vec<u8>),
    CkeDh(Vec<u8>),
    CkeEcdh(Vec<u8>),
    Finished(Vec<u8>),
    HelloRequest,
    Ccs,
    /// the n-th unsupported message kind
    Unsupported(usize),
}

static Z: [u8; 40] = [0x5a; 40];

impl M {
    fn build(&self) -> TlsMessage<'_> {
        use TlsMessageHandshake as H;
        let hs = TlsMessage::Handshake;
        match self {
            M::ClientHello { version, random, sid, ciphers, comps, ext } => hs(H::ClientHello(TlsClientHelloContents::new(
                *version,
                random,
                sid.as_deref(),
                ciphers.iter().map(|&c| TlsCipherSuiteID(c)).collect(),
                comps.iter().map(|&c| TlsCompressionID(c)).collect(),
                ext.as_deref(),
            ))),
            M::ServerHello { version, random, sid, cipher, comp, ext } => {
                hs(H::ServerHello(TlsServerHelloContents::new(*version, random, sid.as_deref(), *cipher, *comp, ext.as_deref())))
            }
            M::ServerHello13 { random, cipher, ext } => hs(H::ServerHelloV13Draft18(TlsServerHelloV13Draft18Contents {
                version: TlsVersion(0x7f12),
                random,
                cipher: TlsCipherSuiteID(*cipher),
                ext: ext.as_deref(),
            })),
            M::CkeUnknown(d) => hs(H::ClientKeyExchange(TlsClientKeyExchangeContents::Unknown(d))),
            M::CkeDh(d) => hs(H::ClientKeyExchange(TlsClientKeyExchangeContents::Dh(d))),
            M::CkeEcdh(d) => hs(H::ClientKeyExchange(TlsClientKeyExchangeContents::Ecdh(ECPoint { point: d }))),
            M::Finished(d) => hs(H::Finished(d)),
            M::HelloRequest => hs(H::HelloRequest),
            M::Ccs => TlsMessage::ChangeCipherSpec,
            M::Unsupported(n) => match n {
                0 => hs(H::NewSessionTicket(TlsNewSessionTicketContent { ticket_lifetime_hint: 1, ticket: &Z[..3] })),
                1 => hs(H::EndOfEarlyData),
                2 => hs(H::HelloRetryRequest(TlsHelloRetryRequestContents { version: TlsVersion(0x7f12), cipher: TlsCipherSuiteID(1), ext: None })),
                3 => hs(H::Certificate(TlsCertificateContents { cert_chain: vec![RawCertificate { data: &Z[..5] }] })),
                4 => hs(H::ServerKeyExchange(TlsServerKeyExchangeContents { parameters: &Z[..4] })),
                5 => hs(H::CertificateRequest(TlsCertificateRequestContents { cert_types: vec![1], sig_hash_algs: None, unparsed_ca: vec![] })),
                6 => hs(H::ServerDone(&[])),
                7 => hs(H::CertificateVerify(&Z[..8])),
                8 => hs(H::CertificateStatus(TlsCertificateStatusContents { status_type: 1, blob: &Z[..2] })),
                9 => hs(H::NextProtocol(TlsNextProtocolContent { selected_protocol: b"h2", padding: &[] })),
                10 => hs(H::KeyUpdate(1)),
                11 => TlsMessage::Alert(TlsMessageAlert { severity: TlsAlertSeverity(1), code: TlsAlertDescription(0) }),
                12 => TlsMessage::ApplicationData(TlsMessageApplicationData { blob: &Z[..3] }),
                _ => TlsMessage::Heartbeat(TlsMessageHeartbeat { heartbeat_type: TlsHeartbeatMessageType(1), payload_len: 2, payload: &Z[..2] }),
            },
        }
    }
    fn supported(&self) -> bool {
        !matches!(self, M::Unsupported(_))
    }
    fn is_ccs(&self) -> bool {
        matches!(self, M::Ccs)
    }
}

/// the two normalisations the statement allows (applied to both sides before comparing)
fn normalise(v: &V) -> V {
    match v {
        V::N(n @ ("ClientHello" | "ServerHello" | "ServerHelloV13Draft18"), f) => {
            let mut f: Vec<V> = f.iter().map(normalise).collect();
            if let Some(last) = f.last_mut() {
                if *last == V::None {
                    *last = V::some(V::B(vec![]));
                }
            }
            V::N(n, f)
        }
        V::N("ClientKeyExchange", f) => match f.first() {
            Some(V::N("Dh", d)) => {
                if let Some(V::B(b)) = d.first() {
                    let mut x = (b.len() as u16).to_be_bytes().to_vec();
                    x.extend_from_slice(b);
                    return V::N("ClientKeyExchange", vec![V::N("Unknown", vec![V::B(x)])]);
                }
                v.clone()
            }
            Some(V::N("Ecdh", d)) => {
                if let Some(V::B(b)) = d.first() {
                    let mut x = vec![b.len() as u8];
                    x.extend_from_slice(b);
                    return V::N("ClientKeyExchange", vec![V::N("Unknown", vec![V::B(x)])]);
                }
                v.clone()
            }
            _ => v.clone(),
        },
        V::N(n, f) => V::N(n, f.iter().map(normalise).collect()),
        V::L(f) => V::L(f.iter().map(normalise).collect()),
        V::Some(x) => V::some(normalise(x)),
        o => o.clone(),
    }
}

fn content(v: &impl ToV) -> V {
    v.to_v(&Base::content())
}

fn is_sslv3_sh(m: &M) -> bool {
    matches!(m, M::ServerHello { version: 0x0300, .. })
}

/// A writer that takes at most `k` bytes per call (a socket, a pipe): short writes are the environment's answer.
struct Trickle(Vec<u8>, usize);
impl std::io::Write for Trickle {
    fn write(&mut self, b: &[u8]) -> std::io::Result<usize> {
        let n = b.len().min(self.1);
        self.0.extend_from_slice(&b[..n]);
        Ok(n)
    }
    fn flush(&mut self) -> std::io::Result<()> {
        Ok(())
    }
}

/// The serializer against writers that accept fewer bytes than offered: a slice of every capacity 0..=len+1
/// (selected capacities for long outputs) and a writer taking 1 / 3 bytes per call. The outcome is either an
/// error or exactly the bytes `full`; "success" with anything else presents bytes as valid that are not.
macro_rules! bounded_writers {
    ($full:expr, $out:expr, $label:expr, $gen:expr) => {{
        let full: &[u8] = $full;
        let n = full.len();
        let caps: Vec<usize> = if n <= 300 { (0..=n + 1).collect() } else { vec![0, 1, 4, 5, 6, 9, 10, 43, n / 2, n - 2, n - 1, n, n + 1] };
        for cap in caps {
            let mut buf = vec![0xa5u8; cap];
            let res = gen_simple($gen, &mut buf[..]).map(|rest| rest.len());
            match res {
                Ok(rest) => {
                    let written = cap - rest;
                    if written != n || buf[..written] != *full {
                        $out.push(format!("{}: writing into a buffer of {} bytes succeeds with {} bytes ({}), the value serializes to {} bytes", $label, cap, written, hexshort(&buf[..written]), n));
                        break;
                    }
                }
                Err(_) => {
                    if cap >= n {
                        $out.push(format!("{}: writing into a buffer of {} bytes fails although the value needs {}", $label, cap, n));
                        break;
                    }
                }
            }
        }
        // cookie_factory::gen reports the position it reached: it is the number of bytes written
        {
            let mut buf = vec![0xa5u8; n + 8];
            if let Ok((rest, pos)) = cookie_factory::gen($gen, &mut buf[..]) {
                let written = n + 8 - rest.len();
                if pos as usize != written || written != n {
                    $out.push(format!("{}: gen() reports position {} after writing {} bytes (the value serializes to {})", $label, pos, written, n));
                }
            } else {
                $out.push(format!("{}: gen() fails into a buffer of {} bytes", $label, n + 8));
            }
        }
        for k in [1usize, 3] {
            if let Ok(t) = gen_simple($gen, Trickle(Vec::new(), k)) {
                if t.0 != full {
                    $out.push(format!("{}: a writer taking {} byte(s) per call ends with success and {} bytes ({}), expected an error or the {} bytes", $label, k, t.0.len(), hexshort(&t.0), n));
                }
            }
        }
    }};
}

/// all laws for one message serialized on its own
fn check_message(m: &M) -> Vec<String> {
    let r = guarded(|| {
        let mut out = Vec::new();
        let msg = m.build();
        let ser = msg.serialize();
        if !m.supported() {
            match ser {
                Err(GenError::NotYetImplemented) => {}
                Ok(b) => out.push(format!("unsupported value serialized to {} bytes instead of NotYetImplemented", b.len())),
                Err(e) => out.push(format!("unsupported value gives {:?} instead of NotYetImplemented", e)),
            }
            return out;
        }
        let bytes = match ser {
            Ok(b) => b,
            Err(e) => {
                out.push(format!("serialization fails: {:?}", e));
                return out;
            }
        };
        bounded_writers!(&bytes, out, "message", gen_tls_message(&msg));
        // also through the handshake-level Serialize impl
        if let TlsMessage::Handshake(h) = &msg {
            if h.serialize().ok().as_ref() != Some(&bytes) {
                out.push("TlsMessageHandshake::serialize and TlsMessage::serialize differ".into());
            }
        }
        if m.is_ccs() {
            match parse_tls_message_changecipherspec(&bytes) {
                Ok((rem, TlsMessage::ChangeCipherSpec)) if rem.is_empty() => {}
                o => out.push(format!("ChangeCipherSpec serializes to {} which parses back as {:?}", hexs(&bytes), o.map(|x| x.1))),
            }
            return out;
        }
        // every emitted length field is consistent: the strict reference walker accepts the bytes
        match wire::ref_handshake_message(&bytes) {
            Ref::Must(_, c) if c == bytes.len() => {}
            Ref::Unspec("bytes after an SSLv3 ServerHello") if is_sslv3_sh(m) => {}
            o => out.push(format!("emitted bytes {} are not a well-formed message for the reference walker: {:?}", hexshort(&bytes), o)),
        }
        match parse_tls_message_handshake(&bytes) {
            Ok((rem, back)) => {
                if !rem.is_empty() {
                    out.push(format!("parsing the emitted bytes leaves {} bytes", rem.len()));
                }
                let (a, b) = (content(&msg), content(&back));
                if a != b && normalise(&a) != normalise(&b) {
                    out.push(format!("round trip changes the value: {:?} -> {:?}", a, b));
                }
                match back.serialize() {
                    Ok(again) if again == bytes => {}
                    o => out.push(format!("re-serializing the parsed value gives {:?}, expected the same {} bytes", o.map(|b| hexshort(&b)), bytes.len())),
                }
            }
            Err(e) => out.push(format!("emitted bytes {} do not parse back: {:?}", hexshort(&bytes), e)),
        }
        out
    });
    r.unwrap_or_else(|p| vec![format!("panic: {}", p)])
}

/// all laws for one record made of `msgs`
fn check_record(msgs: &[M], rec_version: u16) -> Vec<String> {
    let r = guarded(|| {
        let mut out = Vec::new();
        let built: Vec<TlsMessage> = msgs.iter().map(|m| m.build()).collect();
        let ty = if msgs.iter().all(|m| m.is_ccs()) { 0x14 } else { 0x16 };
        let mut rec = TlsPlaintext {
            hdr: TlsRecordHeader { record_type: TlsRecordType(ty), version: TlsVersion(rec_version), len: 0 },
            msg: built,
        };
        let ser = rec.serialize();
        if msgs.iter().any(|m| !m.supported()) {
            match ser {
                Err(GenError::NotYetImplemented) => {}
                o => out.push(format!("record containing an unsupported message gives {:?} instead of NotYetImplemented", o.map(|b| b.len()))),
            }
            return out;
        }
        let bytes = match ser {
            Ok(b) => b,
            Err(e) => {
                out.push(format!("record serialization fails: {:?}", e));
                return out;
            }
        };
        if bytes.len() < 5 || bytes.len() - 5 > 65535 {
            return out; // beyond the u16 record length: outside wire limits
        }
        rec.hdr.len = (bytes.len() - 5) as u16;
        if bytes.len() <= 4000 {
            bounded_writers!(&bytes, out, "record", gen_tls_plaintext(&rec));
        }
        if rec.hdr.len as usize > (1 << 14) + 256 {
            return out; // valid serialization, but longer than a record may be: parse-back is not required
        }
        let sslv3 = msgs.iter().any(is_sslv3_sh);
        match wire::ref_tls_plaintext(&bytes) {
            Ref::Must(_, c) if c == bytes.len() => {}
            Ref::Unspec("bytes after an SSLv3 ServerHello") if sslv3 => {}
            o => out.push(format!("emitted record {} is not well-formed for the reference walker: {:?}", hexshort(&bytes), o)),
        }
        match parse_tls_plaintext(&bytes) {
            Ok((rem, back)) => {
                if !rem.is_empty() {
                    out.push(format!("parsing the emitted record leaves {} bytes", rem.len()));
                }
                let (a, b) = (content(&rec), content(&back));
                if a != b && normalise(&a) != normalise(&b) {
                    out.push(format!("record round trip changes the value: {:?} -> {:?}", a, b));
                }
                match back.serialize() {
                    Ok(again) if again == bytes => {}
                    o => out.push(format!("re-serializing the parsed record gives {:?}", o.map(|b| hexshort(&b)))),
                }
            }
            Err(e) => out.push(format!("emitted record {} does not parse back: {:?}", hexshort(&bytes), e)),
        }
        out
    });
    r.unwrap_or_else(|p| vec![format!("panic: {}", p)])
}

/// a record obtained by parsing `bytes`: if all its messages are of serializable kinds, the laws hold
fn check_parsed(bytes: &[u8]) -> Option<Vec<String>> {
    let r = guarded(|| {
        let Ok((_, rec)) = parse_tls_plaintext(bytes) else { return None };
        let serializable = rec.msg.iter().all(|m| match m {
            TlsMessage::ChangeCipherSpec => true,
            TlsMessage::Handshake(h) => matches!(
                h,
                TlsMessageHandshake::HelloRequest
                    | TlsMessageHandshake::ClientHello(_)
                    | TlsMessageHandshake::ServerHello(_)
                    | TlsMessageHandshake::ServerHelloV13Draft18(_)
                    | TlsMessageHandshake::ClientKeyExchange(_)
                    | TlsMessageHandshake::Finished(_)
            ),
            _ => false,
        });
        let mut out = Vec::new();
        match rec.serialize() {
            Err(GenError::NotYetImplemented) if !serializable => return Some(out),
            Ok(_) if !serializable => {
                out.push("a parsed record with an unsupported message kind serialized without NotYetImplemented".into());
                return Some(out);
            }
            Err(e) => {
                out.push(format!("serializing a parsed record fails: {:?}", e));
                return Some(out);
            }
            Ok(b1) => {
                if !matches!(wire::ref_tls_plaintext(&b1), Ref::Must(_, c) if c == b1.len()) && !matches!(wire::ref_tls_plaintext(&b1), Ref::Unspec("bytes after an SSLv3 ServerHello")) {
                    out.push(format!("serialized form {} of a parsed record is not well-formed for the reference walker", hexshort(&b1)));
                }
                match parse_tls_plaintext(&b1) {
                    Ok((rem, back)) => {
                        if !rem.is_empty() {
                            out.push("parse-back leaves bytes".into());
                        }
                        // the header length of the original may differ (trailing bytes inside messages): compare messages
                        let (a, b) = (content(&rec.msg), content(&back.msg));
                        if a != b && normalise(&a) != normalise(&b) {
                            out.push(format!("parse -> serialize -> parse changes the messages: {:?} -> {:?}", a, b));
                        }
                        if back.serialize().ok().as_ref() != Some(&b1) {
                            out.push("serialize(parse(serialize(v))) differs from serialize(v)".into());
                        }
                    }
                    Err(e) => out.push(format!("serialized form of a parsed record does not parse: {:?}", e)),
                }
            }
        }
        Some(out)
    });
    match r {
        Ok(x) => x,
        Err(p) => Some(vec![format!("panic: {}", p)]),
    }
}

// ---------------------------------------------------------------- extensions

#[derive(Clone, Debug)]
enum E {
    Sni(Vec<(u8, Vec<u8>)>),
    Mfl(u8),
    Groups(Vec<u16>),
    Unsupported(usize),
}

impl E {
    fn build(&self) -> TlsExtension<'_> {
        match self {
            E::Sni(v) => TlsExtension::SNI(v.iter().map(|(t, n)| (SNIType(*t), &n[..])).collect()),
            E::Mfl(x) => TlsExtension::MaxFragmentLength(*x),
            E::Groups(g) => TlsExtension::EllipticCurves(g.iter().map(|&x| NamedGroup(x)).collect()),
            E::Unsupported(n) => match n {
                0 => TlsExtension::StatusRequest(None),
                1 => TlsExtension::EcPointFormats(&Z[..1]),
                2 => TlsExtension::SignatureAlgorithms(vec![0x0401]),
                3 => TlsExtension::RecordSizeLimit(1),
                4 => TlsExtension::SessionTicket(&[]),
                5 => TlsExtension::KeyShareOld(&[]),
                6 => TlsExtension::KeyShare(&Z[..2]),
                7 => TlsExtension::PreSharedKey(&[]),
                8 => TlsExtension::EarlyData(None),
                9 => TlsExtension::SupportedVersions(vec![TlsVersion(0x0304)]),
                10 => TlsExtension::Cookie(&[]),
                11 => TlsExtension::PskExchangeModes(vec![1]),
                12 => TlsExtension::Heartbeat(1),
                13 => TlsExtension::ALPN(vec![b"h2"]),
                14 => TlsExtension::SignedCertificateTimestamp(None),
                15 => TlsExtension::Padding(&[]),
                16 => TlsExtension::EncryptThenMac,
                17 => TlsExtension::ExtendedMasterSecret,
                18 => TlsExtension::OidFilters(vec![]),
                19 => TlsExtension::PostHandshakeAuth,
                20 => TlsExtension::NextProtocolNegotiation,
                21 => TlsExtension::RenegotiationInfo(&[]),
                22 => TlsExtension::EncryptedServerName { ciphersuite: TlsCipherSuiteID(1), group: NamedGroup(2), key_share: &[], record_digest: &[], encrypted_sni: &[] },
                23 => TlsExtension::Grease(0x0a0a, &[]),
                _ => TlsExtension::Unknown(TlsExtensionType(0x1234), &Z[..2]),
            },
        }
    }
    fn supported(&self) -> bool {
        !matches!(self, E::Unsupported(_))
    }
}

fn check_ext_list(es: &[E]) -> Vec<String> {
    let r = guarded(|| {
        let mut out = Vec::new();
        let built: Vec<TlsExtension> = es.iter().map(|e| e.build()).collect();
        let ser = gen_simple(gen_tls_extensions(&built), Vec::new());
        if es.iter().any(|e| !e.supported()) {
            if !matches!(ser, Err(GenError::NotYetImplemented)) {
                out.push(format!("list with an unsupported extension gives {:?} instead of NotYetImplemented", ser.map(|b| b.len())));
            }
            return out;
        }
        let bytes = match ser {
            Ok(b) => b,
            Err(e) => {
                out.push(format!("gen_tls_extensions fails: {:?}", e));
                return out;
            }
        };
        if bytes.len() < 2 || u16::from_be_bytes([bytes[0], bytes[1]]) as usize != bytes.len() - 2 {
            out.push(format!("extension block length prefix wrong in {}", hexshort(&bytes)));
            return out;
        }
        if bytes.len() <= 2000 {
            bounded_writers!(&bytes, out, "extension list", gen_tls_extensions(&built));
        }
        let block = &bytes[2..];
        if !matches!(wire::ref_extensions(block), Ref::Must(_, c) if c == block.len()) {
            out.push(format!("emitted block {} is not well-formed for the reference walker", hexshort(block)));
        }
        match parse_tls_extensions(block) {
            Ok((rem, back)) => {
                if !rem.is_empty() {
                    out.push("parse-back of the extension block leaves bytes".into());
                }
                if content(&back) != content(&built) {
                    out.push(format!("extension round trip changes the value: {:?} -> {:?}", content(&built), content(&back)));
                }
                if gen_simple(gen_tls_extensions(&back), Vec::new()).ok().as_ref() != Some(&bytes) {
                    out.push("re-serializing the parsed extensions differs".into());
                }
            }
            Err(e) => out.push(format!("emitted block does not parse back: {:?}", e)),
        }
        // singly through gen_tls_extension / parse_tls_extension
        for e in &built {
            match gen_simple(gen_tls_extension(e), Vec::new()) {
                Ok(b) => match parse_tls_extension(&b) {
                    Ok((rem, back)) => {
                        if !rem.is_empty() || content(&back) != content(e) {
                            out.push(format!("single extension {} reads back as {:?}", hexshort(&b), content(&back)));
                        }
                    }
                    Err(x) => out.push(format!("single extension {} does not parse: {:?}", hexshort(&b), x)),
                },
                Err(x) => out.push(format!("gen_tls_extension fails: {:?}", x)),
            }
        }
        out
    });
    r.unwrap_or_else(|p| vec![format!("panic: {}", p)])
}

// ---------------------------------------------------------------- catalogue

fn rnd(seed: u8) -> Vec<u8> {
    (0..32u8).map(|i| seed.wrapping_add(i.wrapping_mul(7))).collect()
}

fn sids() -> Vec<Option<Vec<u8>>> {
    vec![None, Some(vec![7]), Some((0..31).collect()), Some((0..32).collect())]
}

fn exts() -> Vec<Option<Vec<u8>>> {
    vec![None, Some(vec![]), Some(vec![0, 0x17, 0, 0]), Some((0..200u32).map(|i| i as u8).collect())]
}

fn messages(thorough: bool) -> Vec<M> {
    let mut v = Vec::new();
    let cipher_lists: Vec<Vec<u16>> = {
        let mut l = vec![vec![], vec![0x002f], vec![0x1301, 0xc02f], vec![0, 0xffff, 0x0a0a]];
        l.push((0..32767u32).map(|i| i as u16).collect());
        l
    };
    let comp_lists: Vec<Vec<u8>> = vec![vec![], vec![0], vec![0, 1], (0..255u32).map(|i| i as u8).collect()];
    for version in [0x0300u16, 0x0301, 0x0303, 0x0304, 0xfefd, 0x0000, 0xffff] {
        for sid in sids() {
            for ciphers in &cipher_lists {
                for comps in &comp_lists {
                    for ext in exts() {
                        let big = ciphers.len() > 3 || comps.len() > 2;
                        if big && !(version == 0x0303 && sid.is_none()) {
                            continue;
                        }
                        if version != 0x0303 && (ciphers.len() == 3 || comps.len() == 2) {
                            continue;
                        }
                        v.push(M::ClientHello { version, random: rnd(version as u8), sid: sid.clone(), ciphers: ciphers.clone(), comps: comps.clone(), ext });
                    }
                }
            }
        }
    }
    v.push(M::ClientHello { version: 0x0303, random: rnd(1), sid: None, ciphers: vec![1], comps: vec![0], ext: Some(vec![0xee; 65535]) });
    for (i, block) in cat::extension_blocks().into_iter().enumerate() {
        if i % 3 == 0 {
            v.push(M::ClientHello { version: 0x0303, random: rnd(2), sid: None, ciphers: vec![0x1301], comps: vec![0], ext: Some(block.clone()) });
        }
        if i % 3 == 1 {
            v.push(M::ServerHello { version: 0x0303, random: rnd(3), sid: Some(vec![1; 32]), cipher: 0x1301, comp: 0, ext: Some(block.clone()) });
        }
        if i % 3 == 2 {
            v.push(M::ServerHello13 { random: rnd(4), cipher: 0x1301, ext: Some(block) });
        }
    }
    for version in [0x0300u16, 0x0301, 0x0302, 0x0303] {
        for sid in sids() {
            for ext in exts() {
                if version == 0x0300 && ext.is_some() {
                    continue; // SSLv3 only without extensions
                }
                for (cipher, comp) in [(0xc02fu16, 0u8), (0, 0xff), (0xffff, 1)] {
                    v.push(M::ServerHello { version, random: rnd(0x80), sid: sid.clone(), cipher, comp, ext: ext.clone() });
                }
            }
        }
    }
    for ext in exts() {
        for cipher in [0x1301u16, 0, 0xffff] {
            v.push(M::ServerHello13 { random: rnd(0x13), cipher, ext: ext.clone() });
        }
    }
    let mut sizes = vec![0usize, 1, 2, 255, 256];
    if thorough {
        sizes.push(65535);
        sizes.push(70000);
    }
    for &n in &sizes {
        let d: Vec<u8> = (0..n).map(|i| (i % 251) as u8).collect();
        v.push(M::CkeUnknown(d.clone()));
        v.push(M::Finished(d.clone()));
        if n <= 65535 {
            v.push(M::CkeDh(d.clone()));
        }
        if n <= 255 {
            v.push(M::CkeEcdh(d));
        }
    }
    v.push(M::Finished((0..12).collect()));
    for n in [16379usize, 16380, 16381, 16500, 16636] {
        v.push(M::Finished((0..n).map(|i| (i % 241) as u8).collect()));
    }
    v.push(M::HelloRequest);
    v.push(M::Ccs);
    for n in 0..14 {
        v.push(M::Unsupported(n));
    }
    v
}

/// every variable-length field of the hello messages at its minimum or maximum, in every combination
fn corner_values() -> Vec<M> {
    let mut corners: Vec<M> = Vec::new();
    for sid in [None, Some(vec![0x90u8; 32])] {
        for nc in [0usize, 1, 32767] {
            for ncomp in [0usize, 1, 255] {
                for ext in [None, Some(0usize), Some(65535)] {
                    corners.push(M::ClientHello {
                        version: 0x0303,
                        random: rnd(7),
                        sid: sid.clone(),
                        ciphers: (0..nc).map(|j| (j as u16).wrapping_mul(3)).collect(),
                        comps: (0..ncomp).map(|j| j as u8).collect(),
                        ext: ext.map(|n| (0..n).map(|j| (j % 251) as u8).collect()),
                    });
                }
            }
        }
        for ext in [None, Some(0usize), Some(65535)] {
            corners.push(M::ServerHello { version: 0x0303, random: rnd(8), sid: sid.clone(), cipher: 0xc02f, comp: 0, ext: ext.map(|n| (0..n).map(|j| (j % 251) as u8).collect()) });
            corners.push(M::ServerHello13 { random: rnd(9), cipher: 0x1301, ext: ext.map(|n| (0..n).map(|j| (j % 251) as u8).collect()) });
        }
    }
    corners
}

fn report(sink: &mut Sink, group: &'static str, key: String, msgs: Vec<String>, replay: Value) {
    sink.count(group, if msgs.is_empty() { "ok" } else { "VIOLATION" });
    for m in msgs {
        sink.violation(format!("{} {}", group, key), format!("{} [{}]: {}", group, key, m), replay.clone());
    }
}

fn main() {
    let run = Run::from_args("C09", "exploration");
    let thorough = run.tier == Tier::Thorough;
    let msgs = messages(true);
    if let Some(v) = run.load_replay() {
        let c = &v["case"];
        let mut outs = Vec::new();
        for _ in 0..2 {
            let m = match c["kind"].as_str() {
                Some("message") => check_message(&msgs[c["index"].as_u64().unwrap() as usize]),
                Some("record") => {
                    let idx: Vec<usize> = c["indices"].as_array().unwrap().iter().map(|x| x.as_u64().unwrap() as usize).collect();
                    let ms: Vec<M> = idx.iter().map(|&i| msgs[i].clone()).collect();
                    check_record(&ms, c["version"].as_u64().unwrap() as u16)
                }
                Some("corner") => check_message(&corner_values()[c["index"].as_u64().unwrap() as usize]),
                Some("size") => {
                    let (k, n) = (c["field"].as_u64().unwrap() as u8, c["size"].as_u64().unwrap() as usize);
                    let bytes = |seed: u8| -> Vec<u8> { (0..n).map(|j| seed.wrapping_add((j % 251) as u8)).collect() };
                    let m = match k {
                        0 => M::ClientHello { version: 0x0303, random: rnd(1), sid: None, ciphers: (0..n).map(|j| (j as u16).wrapping_mul(257) ^ 0x1301).collect(), comps: vec![0], ext: None },
                        1 => M::ClientHello { version: 0x0303, random: rnd(2), sid: Some(vec![7; 32]), ciphers: vec![0x1301], comps: (0..n).map(|j| j as u8).collect(), ext: Some(vec![]) },
                        2 => M::ClientHello { version: 0x0301, random: rnd(3), sid: if n == 0 { None } else { Some(bytes(0x90)) }, ciphers: vec![0xc02f, 0x00ff], comps: vec![0], ext: None },
                        3 => M::ClientHello { version: 0x0303, random: rnd(4), sid: None, ciphers: vec![0x1301], comps: vec![0], ext: Some(bytes(0xe0)) },
                        4 => M::Finished(bytes(0xf0)),
                        5 => M::CkeUnknown(bytes(0x10)),
                        _ => M::ServerHello { version: 0x0303, random: rnd(5), sid: Some(vec![9; 32]), cipher: 0xc02f, comp: 0, ext: Some(bytes(0xe0)) },
                    };
                    check_message(&m)
                }
                Some("parsed") => check_parsed(&unhex(c["input"].as_str().unwrap())).unwrap_or_default(),
                Some("extensions") => check_ext_list(&ext_lists(true)[c["index"].as_u64().unwrap() as usize]),
                _ => machinery_failure(run.prop, "unknown replay kind"),
            };
            outs.push(m);
        }
        if outs[0] != outs[1] {
            machinery_failure(run.prop, "replay is not deterministic");
        }
        if outs[0].is_empty() {
            println!("replay: property holds on this case");
            std::process::exit(0);
        }
        println!("replay: {}", outs[0].join(" | "));
        println!("VIOLATION property={} replay={}", run.prop, run.replay.clone().unwrap());
        std::process::exit(1);
    }
    let mut sink = Sink::new();
    // (1) every catalogue message on its own
    let s1 = par_run(run.threads, msgs.len(), |i, sink| {
        if !thorough && matches!(&msgs[i], M::CkeUnknown(d) | M::Finished(d) | M::CkeDh(d) if d.len() > 20000) {
            return;
        }
        let r = check_message(&msgs[i]);
        sink.case(fnv(1, &(i as u32).to_be_bytes()), true);
        report(sink, if msgs[i].supported() { "message" } else { "unsupported message" }, format!("#{} {:.60?}", i, msgs[i]), r, json!({"kind":"message","index":i}));
        if i % 211 == 0 {
            sink.sample(5, || json!({"message": format!("{:.120?}", msgs[i])}));
        }
    });
    sink.merge(s1);
    // (2) records of 1..3 messages (small messages), all record versions in a full sweep for one record
    let small: Vec<usize> = msgs
        .iter()
        .enumerate()
        .filter(|(_, m)| match m {
            M::ClientHello { ciphers, comps, ext, .. } => ciphers.len() <= 3 && comps.len() <= 2 && ext.as_ref().map_or(true, |e| e.len() <= 4),
            M::ServerHello { ext, .. } | M::ServerHello13 { ext, .. } => ext.as_ref().map_or(true, |e| e.len() <= 4),
            M::CkeUnknown(d) | M::CkeDh(d) | M::CkeEcdh(d) | M::Finished(d) => d.len() <= 2,
            _ => true,
        })
        .map(|(i, _)| i)
        .collect();
    let step = if thorough { 1 } else { 7 };
    let picks: Vec<usize> = small.iter().copied().step_by(step).collect();
    let mut recs: Vec<Vec<usize>> = small.iter().map(|&i| vec![i]).collect();
    for &a in &picks {
        for &b in &picks {
            recs.push(vec![a, b]);
        }
    }
    for &a in picks.iter().step_by(5) {
        for &b in picks.iter().step_by(7) {
            for &c in picks.iter().step_by(11) {
                recs.push(vec![a, b, c]);
            }
        }
    }
    // payload sizes around 2^14 and up to the record cap 2^14+256 (Finished body = payload - 4)
    let mut size_msgs: Vec<usize> = Vec::new();
    let base_len = msgs.len();
    let _ = base_len;
    for (i, m) in msgs.iter().enumerate() {
        if let M::Finished(d) = m {
            if [16379usize, 16380, 16381, 16500, 16636].contains(&d.len()) {
                size_msgs.push(i);
            }
        }
    }
    for &i in &size_msgs {
        recs.push(vec![i]);
    }
    let nrecs = recs.len();
    let s2 = par_run(run.threads, recs.len(), |i, sink| {
        let ms: Vec<M> = recs[i].iter().map(|&k| msgs[k].clone()).collect();
        // a record holds either ChangeCipherSpec messages or handshake messages
        let nccs = ms.iter().filter(|m| m.is_ccs()).count();
        if nccs != 0 && nccs != ms.len() {
            return;
        }
        let ver = [0x0301u16, 0x0303, 0x0300, 0xfefd][i % 4];
        let r = check_record(&ms, ver);
        sink.case(fnv(2, &(i as u32).to_be_bytes()), true);
        report(sink, "record", format!("{:?}", recs[i]), r, json!({"kind":"record","indices":recs[i],"version":ver}));
    });
    sink.merge(s2);
    let hello = small.iter().copied().find(|&i| matches!(msgs[i], M::ClientHello { .. })).unwrap();
    let s3 = par_run(run.threads, 256, |k, sink| {
        for lo in 0..256u32 {
            let ver = ((k as u32) << 8 | lo) as u16;
            let r = check_record(&[msgs[hello].clone()], ver);
            sink.case(fnv(3, &ver.to_be_bytes()), true);
            report(sink, "record version sweep", format!("{:#06x}", ver), r, json!({"kind":"record","indices":[hello],"version":ver}));
        }
    });
    sink.merge(s3);
    // (3) values obtained by parsing the record catalogue of C03
    let parsed_src: Vec<Vec<u8>> = cat::tls_records(3, false).into_iter().map(|w| w.buf).collect();
    let mut nparsed = 0;
    for b in &parsed_src {
        if let Some(r) = check_parsed(b) {
            nparsed += 1;
            sink.case(fnv(4, b), true);
            report(&mut sink, "parsed record", hexshort(b), r, json!({"kind":"parsed","input":hexs(b)}));
        }
    }
    // (3b) hello values over the cross product of their fields (version x magic random x session id x cipher kind x
    //      compression id x extension block), obtained by parsing and sent through the same laws
    let s3b = par_run(run.threads, 64, |c, sink| {
        for server in [true, false] {
            for m in cat::hello_grid(server, false, thorough, c, 64) {
                let b = cat::record(0x16, 0x0303, |w| { w.append(&m); }).buf;
                if let Some(r) = check_parsed(&b) {
                    sink.case(fnv(4, &b), true);
                    sink.bump("hello grid values", 1);
                    report(sink, "parsed record", hexshort(&b), r, json!({"kind":"parsed","input":hexs(&b)}));
                }
            }
        }
    });
    sink.merge(s3b);
    // (3c) every size of every variable-length field of the serializable messages (all counts / lengths up to 1100,
    //      every power of two +-1, every multiple of 512 and the limit in the quick tier; every value in the thorough tier)
    {
        let sizes = |max: usize| -> Vec<usize> {
            if thorough {
                return (0..=max).collect();
            }
            let mut v: Vec<usize> = (0..=1100.min(max)).collect();
            let mut p = 1usize;
            while p <= max + 1 {
                for x in [p.saturating_sub(1), p, p + 1] {
                    if x <= max {
                        v.push(x);
                    }
                }
                p *= 2;
            }
            v.extend((0..=max).step_by(512));
            v.extend((0..=max).step_by(509));
            v.push(max);
            v.sort();
            v.dedup();
            v
        };
        let mut items: Vec<(u8, usize)> = Vec::new();
        items.extend(sizes(32767).into_iter().map(|n| (0u8, n)));
        items.extend((0..=255usize).map(|n| (1u8, n)));
        items.extend((0..=32usize).map(|n| (2u8, n)));
        items.extend(sizes(65535).into_iter().map(|n| (3u8, n)));
        items.extend(sizes(65535).into_iter().map(|n| (4u8, n)));
        items.extend(sizes(65535).into_iter().map(|n| (5u8, n)));
        items.extend(sizes(if thorough { 65535 } else { 2100 }).into_iter().map(|n| (6u8, n)));
        let s3c = par_run(run.threads, items.len(), |i, sink| {
            let (k, n) = items[i];
            let bytes = |seed: u8| -> Vec<u8> { (0..n).map(|j| seed.wrapping_add((j % 251) as u8)).collect() };
            let m = match k {
                0 => M::ClientHello { version: 0x0303, random: rnd(1), sid: None, ciphers: (0..n).map(|j| (j as u16).wrapping_mul(257) ^ 0x1301).collect(), comps: vec![0], ext: None },
                1 => M::ClientHello { version: 0x0303, random: rnd(2), sid: Some(vec![7; 32]), ciphers: vec![0x1301], comps: (0..n).map(|j| j as u8).collect(), ext: Some(vec![]) },
                2 => M::ClientHello { version: 0x0301, random: rnd(3), sid: if n == 0 { None } else { Some(bytes(0x90)) }, ciphers: vec![0xc02f, 0x00ff], comps: vec![0], ext: None },
                3 => M::ClientHello { version: 0x0303, random: rnd(4), sid: None, ciphers: vec![0x1301], comps: vec![0], ext: Some(bytes(0xe0)) },
                4 => M::Finished(bytes(0xf0)),
                5 => M::CkeUnknown(bytes(0x10)),
                _ => M::ServerHello { version: 0x0303, random: rnd(5), sid: Some(vec![9; 32]), cipher: 0xc02f, comp: 0, ext: Some(bytes(0xe0)) },
            };
            let r = check_message(&m);
            sink.case(fnv(6, &[(k as u32).to_be_bytes(), (n as u32).to_be_bytes()].concat()), true);
            sink.bump("size-sweep values", 1);
            if !r.is_empty() {
                report(sink, "message", format!("size sweep field {} size {}", k, n), r, json!({"kind":"size","field":k,"size":n}));
            }
        });
        sink.merge(s3c);
    }
    // (3d) every variable-length field at its minimum or its maximum at the same time (the 2^k corners of the size space):
    //      a limit on the sum of the fields shows only there
    {
        let corners = corner_values();
        let s3d = par_run(run.threads, corners.len(), |i, sink| {
            let r = check_message(&corners[i]);
            sink.case(fnv(7, &(i as u32).to_be_bytes()), true);
            sink.bump("corner values", 1);
            if !r.is_empty() {
                report(sink, "message", format!("corner #{} {:.80?}", i, corners[i]), r, json!({"kind":"corner","index":i}));
            }
        });
        sink.merge(s3d);
    }
    // (4) extensions
    let el = ext_lists(thorough);
    let nel = el.len();
    let s4 = par_run(run.threads, el.len(), |i, sink| {
        let r = check_ext_list(&el[i]);
        sink.case(fnv(5, &(i as u32).to_be_bytes()), true);
        report(sink, "extensions", format!("#{} {:.80?}", i, el[i]), r, json!({"kind":"extensions","index":i}));
    });
    sink.merge(s4);

    if sink.viol.is_empty() && (nparsed < 50 || sink.hist.get(&("unsupported message", "ok")).copied().unwrap_or(0) < 14) {
        machinery_failure(run.prop, "vacuous: too few parsed records / unsupported values exercised");
    }
    let mut cov = Map::new();
    cov.insert("exhaustive".into(), json!(true));
    cov.insert("catalogue_messages".into(), json!(msgs.len()));
    cov.insert("records".into(), json!(nrecs));
    cov.insert("parsed_records".into(), json!(nparsed));
    cov.insert("extension_lists".into(), json!(nel));
    cov.insert("rule".into(), json!(
        "catalogue of serializable values (ClientHello over 7 versions x 4 session ids x 5 cipher lists incl. 32767 entries x 4 compression lists incl. 255 x 4 extension blocks incl. 65535 bytes; ServerHello 0300..0303 (SSLv3 without extensions); draft-18 ServerHello; ClientKeyExchange Unknown/Dh/Ecdh and Finished with bodies 0/1/2/255/256(/65535/70000); HelloRequest; ChangeCipherSpec), every one of the 14 unsupported message kinds and 25 unsupported extension variants; records of 1..3 small messages, all 65536 record versions; every size of every variable-length field (cipher count 0..32767, compression count, session id, extension block, Finished / ClientKeyExchange body 0..65535: dense to 1100, powers of two +-1, multiples of 512 and 509 in the quick tier, every value in the thorough tier); the corners of the size space (session id 0 / 32 x 0 / 1 / 32767 ciphers x 0 / 1 / 255 compressions x no / empty / 65535-byte extension block); every parsed record of the C03 catalogue; every hello of the field cross product (8 versions x 7 randoms incl. the HelloRetryRequest value x 2 session ids x 60 cipher kinds x 5 (thorough: 256) compression ids x 4 extension blocks) that parses; SNI / max_fragment_length (all 256) / supported_groups (full sweep) singly and in lists. Laws: serialize succeeds, into a slice of every capacity 0..=len+1 and into writers taking 1 / 3 bytes per call the outcome is an error or exactly those bytes, strict reference walker accepts the bytes (all length fields), the parser consumes them entirely and returns the value (two permitted normalisations), serialize(parse(bytes)) == bytes, unsupported -> NotYetImplemented. Non-trivial: every value"));
    // the same check against the crate built with all cargo features (std, serialize, unstable)
    let mut sink = sink;
    run.all_features_variant(&mut sink);
    let code = run.finish(
        &sink,
        cov,
        vec![
            "values stay within wire limits (random of 32 bytes, session id 1..32 or absent, <= 32767 ciphers, <= 255 compressions, extension block <= 65535 bytes)".into(),
            "records whose serialized payload exceeds 2^14+256 bytes are only required to serialize, not to parse back".into(),
        ],
    );
    std::process::exit(code);
}

fn ext_lists(thorough: bool) -> Vec<Vec<E>> {
    let mut singles: Vec<E> = vec![
        E::Sni(vec![]),
        E::Sni(vec![(0, b"example.org".to_vec())]),
        E::Sni(vec![(0, vec![]), (1, b"a".to_vec())]),
        E::Sni(vec![(255, b"x.y".to_vec()), (0, b"b".to_vec()), (7, vec![0; 300])]),
        E::Groups(vec![]),
        E::Groups(vec![0x001d]),
        E::Groups(vec![0x0017, 0x0a0a, 0xffff]),
    ];
    for x in 0..=255u32 {
        singles.push(E::Mfl(x as u8));
    }
    // host names of every text shape (what goes in must come out: no normalisation)
    for t in cat::text_patterns() {
        singles.push(E::Sni(vec![(0, t.clone())]));
        singles.push(E::Sni(vec![(1, t.clone()), (0, t)]));
    }
    for fill in [0x00u8, 0x2e, 0x20, 0x41, 0x61, 0xff] {
        for n in [1usize, 2, 255, 256] {
            singles.push(E::Sni(vec![(0, vec![fill; n])]));
        }
    }
    let gstep = if thorough { 1 } else { 5 };
    for g in (0..=65535u32).step_by(gstep) {
        singles.push(E::Groups(vec![g as u16, !(g as u16)]));
    }
    let mut v: Vec<Vec<E>> = singles.iter().map(|e| vec![e.clone()]).collect();
    v.push(vec![]);
    let few: Vec<E> = singles.iter().take(9).cloned().collect();
    for a in &few {
        for b in &few {
            v.push(vec![a.clone(), b.clone()]);
            for c in few.iter().step_by(2) {
                v.push(vec![a.clone(), b.clone(), c.clone()]);
            }
        }
    }
    for n in 0..25 {
        v.push(vec![E::Unsupported(n)]);
        v.push(vec![few[1].clone(), E::Unsupported(n)]);
    }
    v
}
