//! C03 — a record's payload decodes to exactly its messages, in order (E2: struct + bytes).
use serde_json::{json, Map};
use vchecks::sweep::*;
use vchecks::targets::*;
use vcommon::catalogue as cat;
use vcommon::en::Alpha;
use vcommon::report::*;
use vcommon::v::{Got, Ref, V};

/// one-step and two-step parsing must agree on the messages (the one-step value carries the header too)
fn agree(b: &[u8], sink: &mut Sink) {
    let one = (PLAINTEXT.run)(b);
    let two = (TWO_STEP.run)(b);
    let bad = match (&one, &two) {
        (Got::Ok(V::N(_, f), _), Got::Ok(l, _)) => f.get(1) != Some(l),
        (Got::Ok(..), _) | (_, Got::Ok(..)) => true,
        _ => false,
    };
    if bad {
        sink.violation(
            format!("one-vs-two-step {}", hexs(b)),
            format!("one-step and two-step parsing of {} disagree: {:?} vs {:?}", hexshort(b), one, two),
            json!({"kind":"parse","func":"parse_tls_plaintext","input":hexs(b)}),
        );
    }
}

fn extra(t: &Target, b: &[u8], _g: &Got, _r: &Ref, sink: &mut Sink) {
    if t.name == "parse_tls_plaintext" {
        agree(b, sink);
    }
}

fn main() {
    let run = Run::from_args("C03", "exploration");
    let targets: Vec<&Target> = vec![&PLAINTEXT, &TWO_STEP];
    if let Some(v) = run.load_replay() {
        std::process::exit(replay_parse(&run, &targets, &v["case"], &|t, b, s| extra(t, b, &Got::Incomplete(None), &Ref::Unspec(""), s)));
    }
    let thorough = run.tier == Tier::Thorough;
    vcommon::en::WRAP_LIES.store(true, std::sync::atomic::Ordering::Relaxed);
    let mut sink = Sink::new();
    let sfx = std_suffixes();

    // (1) catalogue of records x deviations
    let records = cat::tls_records(run.tier.pick(2, 4), true);
    let nrec = records.len();
    sink.merge(struct_sweep(&run, &targets, &records, run.tier.pick(1, 2), &sfx, 48, &extra));

    // hello messages whose random has a protocol-defined meaning, alone and as the second message of a record
    let magic: Vec<vcommon::en::W> = cat::magic_hellos().into_iter().filter(|w| w.lens.first().map_or(false, |l| l.label == "hs_len")).collect();
    let mut magic_recs = Vec::new();
    for m in &magic {
        magic_recs.push(cat::record(0x16, 0x0303, |w| {
            w.append(m);
        }));
        magic_recs.push(cat::record(0x16, 0x0303, |w| {
            w.append(&cat::hs(0, |_| {})).append(m).append(&cat::hs(14, |_| {}));
        }));
    }
    sink.merge(struct_sweep(&run, &targets, &magic_recs, 0, &sfx, 48, &extra));
    // the cross product of the hello fields (version x magic random x session id x cipher kind x compression x extension block)
    // every prefix length (dense to 700 [2200], around 2^14 and the cap, sparse between) of long message streams
    // as the payload of a record: whole messages followed by a cut / undecodable tail at every record size
    {
        let streams = cat::message_streams();
        let cuts = cat::stream_cuts(thorough);
        let items: Vec<(usize, usize)> = (0..streams.len()).flat_map(|s| (0..cuts.len()).map(move |c| (s, c))).collect();
        let ss = par_run(run.threads, items.len().div_ceil(64), |chunk, sink| {
            for &(si, ci) in items.iter().skip(chunk * 64).take(64) {
                let (ty, ref s) = streams[si];
                let n = cuts[ci];
                let mut b = vec![ty, 0x03, 0x03, (n >> 8) as u8, n as u8];
                b.extend_from_slice(&s[..n]);
                b.extend([0x16, 0x03]);
                for t in &targets {
                    for e in [b.len() - 2, b.len()] {
                        let (g, r) = check_case(run.prop, t, &b[..e], sink);
                        extra(t, &b[..e], &g, &r, sink);
                    }
                }
                sink.bump("stream prefixes", 1);
            }
        });
        sink.merge(ss);
    }
    // records carrying a message whose opaque blob has a shape of its own (length prefix, list of one, DER ...), CertificateStatus
    // over all 256 status types
    {
        let shapes = cat::content_shapes();
        let mut recs: Vec<vcommon::en::W> = Vec::new();
        for b in &shapes {
            for m in cat::opaque_carriers(b) {
                recs.push(cat::record(0x16, 0x0303, |w| { w.append(&m); }));
            }
        }
        for st in 0..=255u8 {
            for b in shapes.iter().step_by(5) {
                recs.push(cat::record(0x16, 0x0303, |w| {
                    w.append(&cat::hs(22, |w| {
                        w.u8(st);
                        w.block(3, "blob", |w| {
                            w.bytes(b);
                        });
                    }));
                    w.append(&cat::hs(14, |_| {}));
                }));
            }
        }
        sink.merge(struct_sweep(&run, &targets, &recs, 0, &sfx, 16, &extra));
    }
    // hellos with the extension blocks of deployed stacks and every "semantic" extension in first / middle position
    // of a multi-message record (a decoder that looks into the block of one message must still return the others)
    {
        let mut blocks: Vec<Vec<u8>> = cat::hello_profiles();
        blocks.extend(cat::semantic_extensions().into_iter().map(|e| e.1));
        let fin = cat::hs(20, |w| {
            w.fill(12, 0x77);
        });
        let hr = cat::hs(0, |_| {});
        let cke = cat::hs(16, |w| {
            w.fill(33, 4);
        });
        let mut multi: Vec<vcommon::en::W> = Vec::new();
        for block in &blocks {
            for (server, version) in [(true, 0x0303u16), (true, 0x0301), (false, 0x0303)] {
                let hello = cat::hs(if server { 2 } else { 1 }, |w| {
                    w.u16(version);
                    w.fill(32, 0x20);
                    w.block(1, "sid_len", |w| {
                        w.fill(32, 9);
                    });
                    if server {
                        w.u16(0x1301).u8(0);
                    } else {
                        w.block(2, "ciphers_len", |w| {
                            w.u16(0x1301).u16(0x00ff);
                        });
                        w.block(1, "comp_len", |w| {
                            w.u8(0);
                        });
                    }
                    w.block(2, "ext_len", |w| {
                        w.bytes(block);
                    });
                });
                let second = if server { &fin } else { &cke };
                multi.push(cat::record(0x16, 0x0303, |w| {
                    w.append(&hello).append(second);
                }));
                multi.push(cat::record(0x16, 0x0303, |w| {
                    w.append(&hr).append(&hello).append(second).append(&hr);
                }));
            }
        }
        sink.merge(struct_sweep(&run, &targets, &multi, 0, &sfx, 16, &extra));
    }
    {
        let recs13: Vec<vcommon::en::W> = cat::tls13_messages().into_iter().filter(|m| m.buf.len() <= 16000).map(|m| cat::record(0x16, 0x0303, |w| { w.append(&m); })).collect();
        sink.merge(struct_sweep(&run, &targets, &recs13, 0, &sfx, 16, &extra));
    }
    sink.merge(struct_sweep(&run, &targets, &wrapped(&cat::tls_records(2, false), 2), 0, &sfx, 16, &extra));
    for server in [true, false] {
        sink.merge(grid_sweep(&run, &targets, 64, &|c, n| cat::hello_grid(server, false, thorough, c, n), &|m| cat::record(0x16, 0x0303, |w| { w.append(m); }), &extra));
    }
    for style in [1u8, 3, 4, 6, 7, 8, 10, 11, 12, 13, 14, 15, 16, 17, 18, 19, 20, 21] {
        use vcommon::en::with_fill_style as wfs;
        sink.merge(struct_sweep(&run, &targets, &wfs(style, || cat::tls_records(2, false)), 0, &sfx, 48, &extra));
    }

    let with_ext: Vec<vcommon::en::W> = cat::hellos_with_extension_lists()
        .into_iter()
        .filter(|w| w.lens.first().map_or(false, |l| l.label == "hs_len"))
        .step_by(3)
        .map(|m| {
            cat::record(0x16, 0x0303, |w| {
                w.append(&m);
            })
        })
        .collect();
    sink.merge(struct_sweep(&run, &targets, &with_ext, 0, &sfx, 48, &extra));
    // every payload size 0..16640 for the variable-size message kinds
    let b_app = |n: usize| cat::record(0x17, 0x0303, |w| {
        w.fill(n, 0x17);
    });
    sink.merge(size_sweep(&run, &targets, 16640, &b_app, &extra));
    let b_fin = |n: usize| cat::record(0x16, 0x0303, |w| {
        w.append(&cat::hs(20, |w| {
            w.fill(n, 0xf1);
        }));
    });
    sink.merge(size_sweep(&run, &targets, 16636, &b_fin, &extra));
    let b_hb = |n: usize| cat::record(0x18, 0x0303, |w| {
        w.u8(1);
        w.block(2, "hb_payload_len", |w| {
            w.fill(n, 0xb0);
        });
        w.fill((16637 - n).min(16), 0);
    });
    sink.merge(size_sweep(&run, &targets, 16637, &b_hb, &extra));

    // (2) all 256 content types, a few payloads each; record versions
    let mut sweeps: Vec<vcommon::en::W> = Vec::new();
    for ty in 0..=255u8 {
        for p in [&[][..], &[1][..], &[1, 0][..], &[0, 0, 0, 0][..], &[1, 0, 1, 0xaa][..]] {
            sweeps.push(cat::record(ty, 0x0301, |w| {
                w.bytes(p);
            }));
        }
    }
    for ver in [0x0300u16, 0x0301, 0x0302, 0x0304, 0xfefd, 0x0000, 0xffff] {
        for r in [
            cat::record(0x16, ver, |w| {
                w.bytes(&[0x0e, 0, 0, 0]);
            }),
            cat::record(0x17, ver, |w| {
                w.bytes(&[1, 2, 3]);
            }),
            cat::record(0x15, ver, |w| {
                w.bytes(&[2, 40]);
            }),
        ] {
            sweeps.push(r);
        }
    }
    // (3) all 256 x 256 alerts and all heartbeat types
    for l in 0..=255u8 {
        for d in 0..=255u8 {
            sweeps.push(cat::record(0x15, 0x0303, |w| {
                w.u8(l).u8(d);
            }));
        }
    }
    for t in 0..=255u8 {
        sweeps.push(cat::record(0x18, 0x0303, |w| {
            w.u8(t);
            w.block(2, "hb_payload_len", |w| {
                w.u8(0xaa);
            });
            w.u8(0);
        }));
    }
    sink.merge(struct_sweep(&run, &targets, &sweeps, 0, &sfx, 48, &extra));

    // (3b) the record version never matters: all 65536 versions x multi-message records of every content type
    let sv = par_run(run.threads, 256, |k, sink| {
        let payloads: [(u8, &[u8]); 6] = [
            (0x15, &[1, 0, 2, 40, 1, 90]),
            (0x14, &[1, 1]),
            (0x16, &[0, 0, 0, 0, 14, 0, 0, 0, 20, 0, 0, 1, 7]),
            (0x18, &[1, 0, 2, 9, 9, 0, 0]),
            (0x17, &[5, 6, 7]),
            (0x15, &[1, 0, 2]),
        ];
        let mut b: Vec<u8> = Vec::with_capacity(32);
        for lo in 0..256usize {
            for (ty, p) in payloads.iter() {
                b.clear();
                b.extend([*ty, k as u8, lo as u8, 0, p.len() as u8]);
                b.extend_from_slice(p);
                for t in [&PLAINTEXT, &TWO_STEP] {
                    let (g, r) = check_case(run.prop, t, &b, sink);
                    extra(t, &b, &g, &r, sink);
                }
            }
        }
    });
    sink.merge(sv);

    // (4) payloads = every string over a per-type positional alphabet, as complete records
    let alphas: Vec<(u8, Alpha)> = vec![
        (0x14, Alpha::uniform(&[0x01, 0x00, 0x02])),
        (0x15, Alpha::uniform(&[0x01, 0x02, 0x00, 0xff])),
        (
            0x16,
            Alpha::new(
                &[&[0x00, 0x01, 0x02, 0x04, 0x0b, 0x0e, 0x16, 0x18, 0x43, 0xff], &[0x00, 0x01, 0xff], &[0x00, 0x01], &[0x00, 0x01, 0x02, 0x03, 0x04, 0x05, 0xff]],
                &[0x00, 0x01, 0x02, 0x03, 0xff],
            ),
        ),
        (0x17, Alpha::uniform(&[0x00, 0x17, 0xff])),
        (
            0x18,
            Alpha::new(&[&[0x01, 0x02, 0xff], &[0x00, 0x01, 0xff], &[0x00, 0x01, 0x02, 0x03, 0x04, 0x05, 0x09, 0xff]], &[0x00, 0xaa]),
        ),
    ];
    let n = run.tier.pick(7, 9);
    for (ty, a) in &alphas {
        let ty = *ty;
        let wrap = move |p: &[u8], out: &mut Vec<u8>| {
            out.extend([ty, 0x03, 0x03, 0x00, p.len() as u8]);
            out.extend_from_slice(p);
        };
        for t in &targets {
            sink.merge(alpha_sweep(&run, t, a, n, &wrap, &extra));
        }
    }

    require_both_outcomes(&run, &sink, &[PLAINTEXT.name, TWO_STEP.name]);
    let mut cov = Map::new();
    cov.insert("exhaustive".into(), json!(true));
    cov.insert("catalogue_records".into(), json!(nrec));
    cov.insert("rule".into(), json!(format!(
        "struct: {} catalogue records (every content type, message lists of 1..{} messages incl. multi-message handshake records, trailing garbage, malformed later messages) x every combination of <= {} deviations (each length field in {{0,1,true-1,true+1,max}}, every cut, 4 suffixes); all 256 content types x 5 payloads; all 65536 alerts; all 256 heartbeat types; 7 record versions on single messages and all 65536 record versions on multi-message records of each content type; bytes: every payload string of length <= {} over a per-content-type positional alphabet as a complete record. Each case through one-step and two-step parsing, compared with the strict record walker (value incl. slice positions, consumption = undecoded tail) and with each other. Non-trivial: not cut inside the 5-byte header",
        nrec, run.tier.pick(2, 4), run.tier.pick(1, 2), n)));
    // the same check against the crate built with all cargo features (std, serialize, unstable)
    let mut sink = sink;
    run.all_features_variant(&mut sink);
    let code = run.finish(
        &sink,
        cov,
        vec!["strict walkers per DESIGN appendix D; handshake bodies judged only where the grammar is exact (else Unspecified and not compared)".into()],
    );
    std::process::exit(code);
}
