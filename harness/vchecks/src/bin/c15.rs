//! C15 — hello accessors and constructors reflect the parsed fields (E2 + E3).
use serde_json::{json, Map};
use std::collections::BTreeSet;
use tls_parser::*;
use vcommon::catalogue as cat;
use vcommon::iso::guarded;
use vcommon::report::*;

fn same(a: &[u8], b: &[u8]) -> bool {
    a.len() == b.len() && (a.is_empty() || a.as_ptr() == b.as_ptr())
}

fn same_opt(a: Option<&[u8]>, b: Option<&[u8]>) -> bool {
    match (a, b) {
        (None, None) => true,
        (Some(x), Some(y)) => same(x, y),
        _ => false,
    }
}

/// all trait accessors of one ClientHello against its own fields
fn check_trait<'a, H: ClientHello<'a>>(
    h: &H,
    version: u16,
    random: &'a [u8],
    sid: Option<&'a [u8]>,
    ciphers: &[TlsCipherSuiteID],
    comp: &[TlsCompressionID],
    ext: Option<&'a [u8]>,
    listed: &BTreeSet<u16>,
) -> Vec<String> {
    let mut out = Vec::new();
    if h.version().0 != version {
        out.push(format!("version() = {:#06x}, field is {:#06x}", h.version().0, version));
    }
    if !same(h.random(), random) {
        out.push("random() is not the structure's random".into());
    }
    if !same_opt(h.session_id(), sid) {
        out.push("session_id() is not the structure's session id".into());
    }
    if h.ciphers().as_slice() != ciphers {
        out.push("ciphers() differs from the cipher list".into());
    }
    if h.comp().as_slice() != comp {
        out.push("comp() differs from the compression list".into());
    }
    if !same_opt(h.ext(), ext) {
        out.push("ext() is not the structure's extension block".into());
    }
    if random.len() >= 4 {
        let exp = u32::from_be_bytes([random[0], random[1], random[2], random[3]]);
        if h.rand_time() != exp {
            out.push(format!(
                "rand_time() = {:#010x}, the first four random bytes are {:#010x}",
                h.rand_time(),
                exp
            ));
        }
        if !same(h.rand_bytes(), &random[4..]) {
            out.push(format!("rand_bytes() has {} bytes / is not random[4..] ({} bytes)", h.rand_bytes().len(), random.len() - 4));
        }
    } else {
        let _ = h.rand_time();
        let _ = h.rand_bytes();
    }
    let cs = h.cipher_suites();
    if cs.len() != ciphers.len() {
        out.push(format!("cipher_suites() has {} entries for {} advertised ids", cs.len(), ciphers.len()));
    } else {
        for (i, (c, id)) in cs.iter().zip(ciphers.iter()).enumerate() {
            let exp = TlsCipherSuite::from_id(id.0);
            let ok = match (c, exp) {
                (None, None) => !listed.contains(&id.0),
                (Some(a), Some(b)) => std::ptr::eq(*a, b) && a.id.0 == id.0 && listed.contains(&id.0),
                _ => false,
            };
            if !ok {
                out.push(format!("cipher_suites()[{}] for id {:#06x} is {:?}", i, id.0, c.map(|c| c.name)));
                break;
            }
        }
    }
    out
}

fn check_tls_ch(ch: &TlsClientHelloContents, listed: &BTreeSet<u16>) -> Vec<String> {
    let mut out = check_trait(ch, ch.version.0, ch.random, ch.session_id, &ch.ciphers, &ch.comp, ch.ext, listed);
    if ch.get_version() != ch.version {
        out.push("get_version() differs from the version field".into());
    }
    let g = ch.get_ciphers();
    if g != ch.cipher_suites() {
        out.push("get_ciphers() differs from cipher_suites()".into());
    }
    out
}

fn listed_ids() -> BTreeSet<u16> {
    let text = std::fs::read_to_string("/repo/scripts/tls-ciphersuites.txt").unwrap_or_default();
    vcommon::reference::ciphers::parse_registry(&text)
        .map(|r| r.into_iter().map(|r| r.id).collect())
        .unwrap_or_default()
}

fn report(sink: &mut Sink, kind: &str, key: String, msgs: Vec<String>, replay: serde_json::Value) {
    for m in msgs {
        // the key carries the kind of failure, not the witness, for accessor defects that hit every value
        sink.violation(format!("{} {} {}", kind, key, m.split(',').next().unwrap_or("")), format!("{} [{}]: {}", kind, key, m), replay.clone());
    }
}

fn run_parsed(b: &[u8], dtls: bool, listed: &BTreeSet<u16>) -> Option<Vec<String>> {
    let r = guarded(|| {
        if dtls {
            match parse_dtls_message_handshake(b) {
                Ok((_, DTLSMessage::Handshake(h))) => {
                    if let DTLSMessageHandshakeBody::ClientHello(ch) = &h.body {
                        Some(check_trait(ch, ch.version.0, ch.random, ch.session_id, &ch.ciphers, &ch.comp, ch.ext, listed))
                    } else {
                        None
                    }
                }
                _ => None,
            }
        } else {
            match parse_tls_message_handshake(b) {
                Ok((_, TlsMessage::Handshake(TlsMessageHandshake::ClientHello(ch)))) => Some(check_tls_ch(&ch, listed)),
                _ => None,
            }
        }
    });
    match r {
        Ok(x) => x,
        Err(p) => Some(vec![format!("panic: {}", p)]),
    }
}

fn run_constructed(random: &[u8], version: u16, sid: Option<&[u8]>, ids: &[u16], ext: Option<&[u8]>, listed: &BTreeSet<u16>) -> Vec<String> {
    let r = guarded(|| {
        let ciphers: Vec<TlsCipherSuiteID> = ids.iter().map(|&x| TlsCipherSuiteID(x)).collect();
        let comp = vec![TlsCompressionID(0), TlsCompressionID(0xfe)];
        let ch = TlsClientHelloContents::new(version, random, sid, ciphers.clone(), comp.clone(), ext);
        let mut out = Vec::new();
        if ch.version.0 != version || !same(ch.random, random) || !same_opt(ch.session_id, sid) || ch.ciphers != ciphers || ch.comp != comp || !same_opt(ch.ext, ext) {
            out.push("TlsClientHelloContents::new does not store its arguments unchanged".to_string());
        }
        out.extend(check_tls_ch(&ch, listed));
        // the same value as a DTLS hello
        let d = DTLSClientHello {
            version: TlsVersion(version),
            random,
            session_id: sid,
            cookie: &[1, 2, 3],
            ciphers: ciphers.clone(),
            comp: comp.clone(),
            ext,
        };
        out.extend(check_trait(&d, version, random, sid, &ciphers, &comp, ext, listed).into_iter().map(|m| format!("DTLS: {}", m)));
        out
    });
    r.unwrap_or_else(|p| vec![format!("panic: {}", p)])
}

/// `get_version()` getters that this check does not call by name (added later, e.g. on the DTLS or TLS 1.3 hello structs),
/// discovered from the source: the statement names get_version() - it returns the structure's own version, for all 65536
/// values. The structures are built as literals of the layouts the pinned tree has; other types are listed, not judged.
fn check_discovered_getters(sink: &mut Sink) -> Vec<String> {
    let known = [("TlsClientHelloContents", "get_version"), ("TlsServerHelloContents", "get_version")];
    let lit = |ty: &str| -> Option<&'static str> {
        Some(match ty {
            "DTLSClientHello" => "DTLSClientHello { version: TlsVersion(x as u16), random: &R, session_id: None, cookie: &R[..3], ciphers: vec![TlsCipherSuiteID(0xc02f)], comp: vec![TlsCompressionID(0)], ext: None }",
            "DTLSHelloVerifyRequest" => "DTLSHelloVerifyRequest { server_version: TlsVersion(x as u16), cookie: &R[..3] }",
            "TlsServerHelloV13Draft18Contents" => "TlsServerHelloV13Draft18Contents { version: TlsVersion(x as u16), random: &R, cipher: TlsCipherSuiteID(0x1301), ext: None }",
            "TlsHelloRetryRequestContents" => "TlsHelloRetryRequestContents { version: TlsVersion(x as u16), cipher: TlsCipherSuiteID(0x1301), ext: None }",
            "TlsServerHelloContents" | "TlsClientHelloContents" => return None,
            _ => return None,
        })
    };
    let mut unjudged = Vec::new();
    let mut body = String::from("{\n    static R: [u8; 32] = [7u8; 32];\n");
    let mut any = false;
    for (ty, m, ret) in vchecks::genprobe::inherent_getters() {
        if m != "get_version" || ret != "TlsVersion" || known.contains(&(ty.as_str(), m.as_str())) {
            continue;
        }
        match lit(&ty) {
            Some(l) => {
                any = true;
                body.push_str(&format!("    {{ let mut bad = 0u32; let mut first = 0u32; for x in 0..=65535u32 {{ let v = {l}; if v.get_version().0 != x as u16 {{ if bad == 0 {{ first = x; }} bad += 1; }} }} println!(\"GETTER {ty} get_version {{}} {{}}\", bad, first); }}\n"));
            }
            None => unjudged.push(format!("{}::{}", ty, m)),
        }
    }
    body.push_str("}\n");
    if !any {
        return unjudged;
    }
    match vchecks::genprobe::run_generated("c15get", &body) {
        Some(out) => {
            for l in out.lines() {
                let f: Vec<&str> = l.split_whitespace().collect();
                if f.len() == 5 && f[0] == "GETTER" {
                    sink.evals += 65536;
                    let (bad, first) = (f[3].parse::<u64>().unwrap_or(0), f[4].parse::<u64>().unwrap_or(0));
                    sink.count("discovered get_version getters", if bad == 0 { "identity" } else { "WRONG" });
                    if bad != 0 {
                        sink.violation(
                            format!("getter {}::{}", f[1], f[2]),
                            format!("{}::{}() does not return the structure's own version for {} of the 65536 versions (first: {:#06x})", f[1], f[2], bad, first),
                            json!({"kind":"discovered-getter","type":f[1]}),
                        );
                    }
                }
            }
        }
        None => unjudged.push("(probe for the discovered getters does not build)".into()),
    }
    unjudged
}

fn main() {
    let run = Run::from_args("C15", "exploration");
    let listed = listed_ids();
    if listed.len() < 300 {
        machinery_failure(run.prop, "cannot read the cipher registry file");
    }
    if let Some(v) = run.load_replay() {
        let c = &v["case"];
        let mut outs = Vec::new();
        for _ in 0..2 {
            let m = match c["kind"].as_str() {
                Some("discovered-getter") => {
                    let mut s = Sink::new();
                    check_discovered_getters(&mut s);
                    s.viol.iter().map(|v| v.what.clone()).collect()
                }
                Some("parsed") => run_parsed(&unhex(c["input"].as_str().unwrap()), c["dtls"].as_bool().unwrap(), &listed).unwrap_or_default(),
                Some("constructed") => {
                    let random = unhex(c["random"].as_str().unwrap());
                    let ids: Vec<u16> = c["ids"].as_array().unwrap().iter().map(|x| x.as_u64().unwrap() as u16).collect();
                    run_constructed(&random, c["version"].as_u64().unwrap() as u16, None, &ids, None, &listed)
                }
                Some("constructed2") => {
                    let bigpool: Vec<u8> = (0..70000u32).map(|i| (i % 253) as u8).collect();
                    let pool: Vec<u8> = (0..48u8).map(|i| i.wrapping_mul(29).wrapping_add(3)).collect();
                    let sl = c["sid_len"].as_u64().unwrap() as usize;
                    let el = c["ext_len"].as_u64().unwrap() as usize;
                    let ids: Vec<u16> = (0..(sl * 7 % 50) as u16).collect();
                    let mut m = run_constructed(&pool[..32], 0x0303, Some(&bigpool[100..100 + sl]), &ids, Some(&bigpool[..el]), &listed);
                    m.extend(check_server_sized(sl, el, &bigpool));
                    m
                }
                Some("extblock") => {
                    let block = unhex(c["block"].as_str().unwrap());
                    let version = c["version"].as_u64().unwrap() as u16;
                    let r32 = [5u8; 32];
                    let mut out = Vec::new();
                    let sh = TlsServerHelloContents::new(version, &r32, None, 0x1301, 0, Some(&block));
                    if sh.get_version().0 != version {
                        out.push(format!("TlsServerHelloContents::get_version() = {:#06x}, constructed with {:#06x}", sh.get_version().0, version));
                    }
                    let ch = TlsClientHelloContents::new(version, &r32, None, vec![], vec![], Some(&block));
                    if ch.get_version().0 != version {
                        out.push(format!("TlsClientHelloContents::get_version() = {:#06x}, constructed with {:#06x}", ch.get_version().0, version));
                    }
                    out
                }
                Some("server") => {
                    let id = c["id"].as_u64().unwrap() as u16;
                    check_server_v(id, c["version"].as_u64().map_or(id ^ 0x0303, |v| v as u16), &listed)
                }
                _ => machinery_failure(run.prop, "unknown replay kind"),
            };
            outs.push(m);
        }
        if outs[0] != outs[1] {
            machinery_failure(run.prop, "replay is not deterministic");
        }
        if outs[0].is_empty() {
            println!("replay: property holds on this case");
            std::process::exit(0);
        }
        println!("replay: {}", outs[0].join(" | "));
        println!("VIOLATION property={} replay={}", run.prop, run.replay.clone().unwrap());
        std::process::exit(1);
    }
    let thorough = run.tier == Tier::Thorough;
    let mut sink = Sink::new();

    // (1) every ClientHello of the TLS and DTLS catalogues, parsed
    let tls: Vec<Vec<u8>> = cat::client_hellos(thorough).into_iter().map(|w| w.buf).collect();
    let dtls: Vec<Vec<u8>> = cat::dtls_handshake_messages().into_iter().map(|w| w.buf).collect();
    let mut parsed = 0u64;
    for (set, is_dtls) in [(&tls, false), (&dtls, true)] {
        for b in set.iter() {
            if let Some(m) = run_parsed(b, is_dtls, &listed) {
                parsed += 1;
                sink.case(fnv(is_dtls as u64, b), true);
                sink.count(if is_dtls { "parsed DTLS ClientHello" } else { "parsed TLS ClientHello" }, if m.is_empty() { "ok" } else { "VIOLATION" });
                report(&mut sink, "parsed", if is_dtls { "DTLS".into() } else { "TLS".into() }, m, json!({"kind":"parsed","input":hexs(b),"dtls":is_dtls}));
                if parsed % 40 == 1 {
                    sink.sample(4, || json!({"parsed_client_hello": hexshort(b), "dtls": is_dtls}));
                }
            }
        }
    }
    if parsed < 100 {
        machinery_failure(run.prop, "fewer than 100 hellos parsed");
    }

    // (2) constructed values: random of every length 0..=40, leading-word patterns
    let mut words: Vec<u32> = vec![0, 0xffff_ffff, 0x0102_0304, 0x8000_0000, 0x7fff_ffff];
    for i in 0..32 {
        words.push(1 << i);
        words.push(!(1u32 << i));
    }
    for x in 0..=65535u32 {
        words.push(x << 16 | 0x5a5a);
        words.push(0xa5a5_0000 | x);
    }
    let nwords = words.len();
    let s2 = par_run(run.threads, 64, |k, sink| {
        let mut random = [0u8; 32];
        for (i, b) in random.iter_mut().enumerate() {
            *b = 0xc0 + i as u8;
        }
        let chunk = (nwords + 63) / 64;
        for w in words.iter().skip(k * chunk).take(chunk) {
            random[..4].copy_from_slice(&w.to_be_bytes());
            let m = run_constructed(&random, 0x0303, Some(&random[8..16]), &[0x1301, 0x0a0a, (*w & 0xffff) as u16], Some(&random[4..9]), &listed);
            sink.case(fnv(7, &w.to_be_bytes()), true);
            sink.count("constructed (leading word sweep)", if m.is_empty() { "ok" } else { "VIOLATION" });
            report(sink, "constructed", "random=32 bytes".into(), m, json!({"kind":"constructed","random":hexs(&random),"version":0x0303,"ids":[0x1301,0x0a0a,(*w & 0xffff)]}));
        }
    });
    sink.merge(s2);
    let pool: Vec<u8> = (0..48u8).map(|i| i.wrapping_mul(29).wrapping_add(3)).collect();
    for len in 0..=40usize {
        for version in [0u16, 0x0301, 0x0303, 0xfefd, 0xffff] {
            let random = &pool[..len];
            let m = run_constructed(random, version, None, &[], None, &listed);
            sink.case(fnv(8, &[len as u8, version as u8]), true);
            sink.count("constructed (random length sweep)", if m.is_empty() { "ok" } else { "VIOLATION" });
            report(&mut sink, "constructed", format!("random={} bytes", len), m, json!({"kind":"constructed","random":hexs(random),"version":version,"ids":[]}));
        }
    }

    // (2b) constructor arguments beyond what the wire allows: session ids of 0..=48, 255, 300 bytes,
    //      extension blocks up to 70000 bytes, long cipher lists (the constructors must not edit them)
    let bigpool: Vec<u8> = (0..70000u32).map(|i| (i % 253) as u8).collect();
    let mut sid_lens: Vec<usize> = (0..=48).collect();
    sid_lens.extend([255, 256, 300]);
    for &sl in &sid_lens {
        for el in [0usize, 1, 3, 65535, 65536, 70000] {
            if el > 3 && sl % 8 != 1 {
                continue;
            }
            let ids: Vec<u16> = (0..(sl * 7 % 50) as u16).collect();
            let m = run_constructed(&pool[..32], 0x0303, Some(&bigpool[100..100 + sl]), &ids, Some(&bigpool[..el]), &listed);
            sink.case(fnv(10, &[sl as u8, (sl >> 8) as u8, el as u8, (el >> 8) as u8]), true);
            sink.count("constructed (argument size sweep)", if m.is_empty() { "ok" } else { "VIOLATION" });
            report(&mut sink, "constructed", format!("sid={} bytes ext={} bytes", sl, el), m, json!({"kind":"constructed2","sid_len":sl,"ext_len":el}));
            let m = check_server_sized(sl, el, &bigpool);
            sink.evals += 1;
            report(&mut sink, "server", format!("sid={} bytes ext={} bytes", sl, el), m, json!({"kind":"constructed2","sid_len":sl,"ext_len":el}));
        }
    }
    for n in [65535u32, 65536, 65537, 100000] {
        let ids: Vec<u16> = (0..n).map(|i| (i % 65521) as u16).collect();
        let m = run_constructed(&pool[..32], 0x0303, None, &ids, None, &listed);
        sink.case(fnv(13, &n.to_be_bytes()), true);
        report(&mut sink, "constructed", format!("{} ciphers", n), m, json!({"kind":"constructed2","sid_len":0,"ext_len":0}));
    }
    {
        let ids: Vec<u16> = (0..40000u32).map(|i| i as u16).collect();
        let m = run_constructed(&pool[..32], 0xfefd, Some(&bigpool[..33]), &ids, None, &listed);
        sink.case(fnv(11, b"long"), true);
        report(&mut sink, "constructed", "40000 ciphers".into(), m, json!({"kind":"constructed2","sid_len":33,"ext_len":0}));
    }

    // (2c) extension blocks that are well-formed extension lists (every known extension, alone and in
    //      pairs): the getters must still return the structure's own fields
    let blocks: Vec<Vec<u8>> = cat::extension_blocks();
    let nblocks = blocks.len();
    for (bi, block) in blocks.iter().enumerate() {
        for version in [0x0303u16, 0x0301, 0x0304, 0x7f12] {
            if bi % 4 != (version as usize) % 4 && bi > 200 {
                continue;
            }
            let r = guarded(|| {
                let mut out = Vec::new();
                let sh = TlsServerHelloContents::new(version, &pool[..32], None, 0x1301, 0, Some(block));
                if sh.get_version().0 != version || sh.version.0 != version {
                    out.push(format!("TlsServerHelloContents::get_version() = {:#06x} for a hello constructed with version {:#06x} and extension block {}", sh.get_version().0, version, hexshort(block)));
                }
                if !same_opt(sh.ext, Some(block)) {
                    out.push("ServerHello extension block not stored unchanged".into());
                }
                let ch = TlsClientHelloContents::new(version, &pool[..32], None, vec![], vec![], Some(block));
                if ch.get_version().0 != version || ClientHello::version(&ch).0 != version {
                    out.push(format!("ClientHello get_version()/version() = {:#06x} for version {:#06x} with extension block {}", ch.get_version().0, version, hexshort(block)));
                }
                out
            })
            .unwrap_or_else(|p| vec![format!("panic: {}", p)]);
            sink.case(fnv(12, &[(bi >> 8) as u8, bi as u8, version as u8]), true);
            sink.count("constructed (extension-bearing hellos)", if r.is_empty() { "ok" } else { "VIOLATION" });
            report(&mut sink, "constructed", format!("ext block #{}", bi), r, json!({"kind":"extblock","block":hexs(block),"version":version}));
        }
    }
    sink.bump("extension blocks", nblocks as u64);

    // (3) cipher lists covering all 65536 ids (256 lists of 256), through every list accessor
    let s3 = par_run(run.threads, 256, |k, sink| {
        let ids: Vec<u16> = (0..256u32).map(|lo| ((k as u32) << 8 | lo) as u16).collect();
        let random = [9u8; 32];
        let m = run_constructed(&random, 0x0303, None, &ids, None, &listed);
        sink.case(fnv(9, &[k as u8]), true);
        sink.count("constructed (all cipher ids)", if m.is_empty() { "ok" } else { "VIOLATION" });
        report(sink, "constructed", format!("ids {:#06x}..", k << 8), m, json!({"kind":"constructed","random":hexs(&random),"version":0x0303,"ids":ids}));
        // (4) ServerHello constructor / get_cipher for the same ids
        for &id in &ids {
            let m = check_server(id, &listed);
            sink.evals += 1;
            report(sink, "server", format!("{:#06x}", id), m, json!({"kind":"server","id":id}));
            for v in GRID_VERSIONS {
                let m = check_server_v(id, v, &listed);
                sink.evals += 1;
                report(sink, "server", format!("{:#06x} v{:#06x}", id, v), m, json!({"kind":"server","id":id,"version":v}));
            }
        }
        // the same id lists in ClientHellos of every version family
        for v in GRID_VERSIONS {
            let m = run_constructed(&random, v, None, &ids, None, &listed);
            sink.evals += 1;
            report(sink, "constructed", format!("ids {:#06x}.. v{:#06x}", k << 8, v), m, json!({"kind":"constructed","random":hexs(&random),"version":v,"ids":ids}));
        }
    });
    sink.merge(s3);

    let mut cov = Map::new();
    cov.insert("exhaustive".into(), json!(true));
    cov.insert("parsed_hellos".into(), json!(parsed));
    cov.insert("leading_random_words".into(), json!(nwords));
    cov.insert("rule".into(), json!(
        "every ClientHello of the TLS and DTLS catalogues (parsed), constructed hellos with random slices of every length 0..=40 x 5 versions, session ids of 0..=48 / 255 / 256 / 300 bytes and extension blocks up to 70000 bytes (beyond the wire limits: constructors must not edit their arguments), a 40000-entry cipher list, extension blocks that are well-formed extension lists (every known extension alone and in pairs, incl. supported_versions) under 4 versions, leading random words over all single-bit patterns, boundaries and full 2^16 sweeps of the upper and of the lower half-word, cipher lists covering all 65536 ids, ServerHello::new / get_version / get_cipher for all 65536 ids x 13 versions (and the id lists in ClientHellos of 13 versions); each trait accessor and helper compared with the structure's own fields (slices by pointer), rand_time / rand_bytes with the big-endian split, cipher_suites / get_ciphers / get_cipher with from_id and with the registry file. Non-trivial: every value"));
    // the same check against the crate built with all cargo features (std, serialize, unstable)
    let mut sink = sink;
    if !is_sub() {
        let unjudged = check_discovered_getters(&mut sink);
        cov.insert("discovered_getters_not_judged".into(), json!(unjudged));
    }
    run.all_features_variant(&mut sink);
    let code = run.finish(&sink, cov, vec!["rand_time / rand_bytes are only constrained for randoms of at least 4 bytes (shorter constructed values: no panic)".into()]);
    std::process::exit(code);
}

fn check_server_sized(sl: usize, el: usize, pool: &[u8]) -> Vec<String> {
    let r = guarded(|| {
        let mut out = Vec::new();
        let sid = &pool[7..7 + sl];
        let ext = &pool[..el];
        let sh = TlsServerHelloContents::new(0x0303, &pool[..32], Some(sid), 0xc02f, 1, Some(ext));
        if !same_opt(sh.session_id, Some(sid)) || !same_opt(sh.ext, Some(ext)) || !same(sh.random, &pool[..32]) {
            out.push(format!("TlsServerHelloContents::new does not store a {}-byte session id / {}-byte extension block unchanged", sl, el));
        }
        out
    });
    r.unwrap_or_else(|p| vec![format!("panic: {}", p)])
}

fn check_server(id: u16, listed: &BTreeSet<u16>) -> Vec<String> {
    check_server_v(id, id ^ 0x0303, listed)
}

/// the versions every id is crossed with (the accessors do not depend on the version)
const GRID_VERSIONS: [u16; 12] = [0x0300, 0x0301, 0x0302, 0x0303, 0x0304, 0x7f12, 0xfefd, 0xfeff, 0xfefc, 0x0002, 0x0000, 0xffff];

fn check_server_v(id: u16, version: u16, listed: &BTreeSet<u16>) -> Vec<String> {
    static R: [u8; 32] = [3u8; 32];
    let r = guarded(|| {
        let mut out = Vec::new();
        let comp = (id >> 8) as u8 ^ id as u8;
        let sh = TlsServerHelloContents::new(version, &R, Some(&R[..(id % 33) as usize]), id, comp, Some(&R[..3]));
        if sh.version.0 != version || sh.get_version().0 != version || sh.cipher.0 != id || sh.compression.0 != comp || !same(sh.random, &R) || !same_opt(sh.session_id, Some(&R[..(id % 33) as usize])) || !same_opt(sh.ext, Some(&R[..3])) {
            out.push(format!("TlsServerHelloContents::new / get_version do not keep their arguments (id {:#06x})", id));
        }
        let c = sh.get_cipher();
        let ok = match c {
            None => !listed.contains(&id),
            Some(s) => s.id.0 == id && listed.contains(&id) && TlsCipherSuite::from_id(id).map_or(false, |x| std::ptr::eq(x, s)),
        };
        if !ok {
            out.push(format!("get_cipher() for id {:#06x} (version {:#06x}) is {:?}", id, version, c.map(|c| c.name)));
        }
        out
    });
    r.unwrap_or_else(|p| vec![format!("panic: {}", p)])
}
