//! C08 — handshake state machine: every cell (E3) + language equivalence with the documented
//! flows by explicit-state search of the product (implementation state x specification state) (E1).
use serde_json::{json, Map, Value};
use std::collections::{HashMap, VecDeque};
use tls_parser::*;
use vchecks::states::*;
use vcommon::iso::guarded;
use vcommon::reference::states::*;
use vcommon::report::*;

fn dirn(d: bool) -> &'static str {
    if d {
        "C"
    } else {
        "S"
    }
}

/// check one cell against the reference table; returns a violation description
fn check_cell(s: TlsState, k: usize, pi: Option<usize>, m: &TlsMessage, dir: bool) -> Result<&'static str, String> {
    let si = state_index(s);
    let exp = ref_step(si, k, dir);
    let got = guarded(|| step(s, m, dir)).map_err(|p| format!("panic: {}", p))?;
    let show = |r: &Result<usize, &'static str>| match r {
        Ok(i) => format!("Ok({})", STATES[*i]),
        Err(e) => format!("Err({})", e),
    };
    let expd = match exp {
        Ok(i) => Ok(i),
        Err(()) => Err("InvalidTransition"),
    };
    if got != expd {
        return Err(format!(
            "tls_state_transition({}, {}{}, to_server={}) = {}, reference says {}",
            STATES[si],
            KINDS[k],
            pi.map(|p| format!("#{}", p)).unwrap_or_default(),
            dir,
            show(&got),
            show(&expd)
        ));
    }
    Ok(if got.is_ok() { "accept" } else { "reject" })
}

fn cell_sweep(run: &Run) -> Sink {
    let states = all_states();
    // work items: (state, dir)
    let items: Vec<(usize, bool)> = (0..states.len()).flat_map(|s| [(s, true), (s, false)]).collect();
    par_run(run.threads, items.len(), |i, sink| {
        let (si, dir) = items[i];
        let s = states[si];
        let live = !["Invalid", "SessionEncrypted", "Finished"].contains(&STATES[si]);
        for (k, kn) in KINDS.iter().enumerate() {
            if kn.starts_with("Alert") {
                continue;
            }
            for (pi, m) in messages(kn).iter().enumerate() {
                let h = fnv(0, format!("cell {} {} {} {}", si, k, dir, pi).as_bytes());
                sink.case(h, live);
                match check_cell(s, k, Some(pi), m, dir) {
                    Ok(c) => sink.count(kn, c),
                    Err(what) => sink.violation(
                        format!("cell {} {} {}", STATES[si], kn, dirn(dir)),
                        what,
                        json!({"kind":"cell","state":STATES[si],"msg":kn,"payload":pi,"to_server":dir}),
                    ),
                }
            }
        }
        // all 256 x 256 alerts
        for sev in 0..=255u8 {
            let k = if sev == 1 { kind("AlertWarning") } else { kind("AlertOther") };
            for code in 0..=255u8 {
                let m = alert(sev, code);
                let h = fnv(0, format!("alert {} {} {} {}", si, dir, sev, code).as_bytes());
                sink.case(h, live);
                match check_cell(s, k, None, &m, dir) {
                    Ok(c) => sink.count(KINDS[k], c),
                    Err(what) => sink.violation(
                        format!(
                            "cell {} Alert(sev={},code={}) {}",
                            STATES[si],
                            if sev == 1 { "1".to_string() } else { format!("{}", sev) },
                            if sev <= 2 { "*".to_string() } else { format!("{}", code) },
                            dirn(dir)
                        ),
                        what,
                        json!({"kind":"alert","state":STATES[si],"severity":sev,"code":code,"to_server":dir}),
                    ),
                }
            }
        }
        if i == 3 {
            sink.sample(4, || json!({"cell": {"state": STATES[si], "to_server": dir, "kinds": KINDS.len(), "alerts": 65536}}));
        }
    })
}

struct BfsOut {
    states: usize,
    transitions: usize,
    depth: usize,
    reached: Vec<usize>,
    accepted: usize,
    samples: Vec<Value>,
}

/// Product BFS: (implementation state, reference table state, flow-automaton state).
fn bfs(sink: &mut Sink) -> BfsOut {
    let nfa = Nfa::compile(&flows());
    let states = all_states();
    let reps = representatives();
    type Key = (usize, usize, Spec);
    let mut seen: HashMap<Key, usize> = HashMap::new();
    let mut q: VecDeque<(Key, Vec<(usize, bool)>)> = VecDeque::new();
    let init: Key = (st("None"), st("None"), Spec::init(&nfa));
    seen.insert(init.clone(), 0);
    q.push_back((init, vec![]));
    let mut transitions = 0;
    let mut accepted = 0;
    let mut depth = 0;
    let mut reached = vec![st("None")];
    let mut samples = Vec::new();
    while let Some(((is, ts, sp), hist)) = q.pop_front() {
        depth = depth.max(hist.len());
        for k in 0..KINDS.len() {
            for dir in [true, false] {
                transitions += 1;
                let mut h = hist.clone();
                h.push((k, dir));
                let got = match guarded(|| step(states[is], &reps[k], dir)) {
                    Ok(g) => g,
                    Err(p) => {
                        sink.violation(
                            format!("seq {}", fmt_hist(&h).join(" ")),
                            format!("panic after {:?}: {}", fmt_hist(&h), p),
                            json!({"kind":"seq","letters":fmt_hist(&h)}),
                        );
                        continue;
                    }
                };
                let spec = sp.step(&nfa, k, dir);
                let table = ref_step(ts, k, dir);
                sink.evals += 1;
                let mut bad = None;
                match (&got, &spec) {
                    (Ok(_), None) => bad = Some("implementation accepts a sequence that is in no documented flow"),
                    (Err(_), Some(_)) => bad = Some("implementation rejects a sequence of a documented flow"),
                    _ => {}
                }
                if bad.is_none() {
                    if let (Ok(g), Ok(t)) = (&got, &table) {
                        if g != t {
                            bad = Some("implementation reaches a different state than the reference table");
                        }
                    }
                    if let Err(e) = &got {
                        if *e != "InvalidTransition" {
                            bad = Some("rejection is not InvalidTransition");
                        }
                    }
                }
                if let Some(b) = bad {
                    sink.violation(
                        format!("seq {}", fmt_hist(&h).join(" ")),
                        format!(
                            "{}: after [{}] the implementation answers {:?} (as state name: {}), flows {}, table {:?}",
                            b,
                            fmt_hist(&h).join(" "),
                            got,
                            got.map(|i| STATES[i]).unwrap_or("-"),
                            if spec.is_some() { "accept" } else { "reject" },
                            table.map(|i| STATES[i])
                        ),
                        json!({"kind":"seq","letters":fmt_hist(&h)}),
                    );
                    continue;
                }
                if let (Ok(g), Some(nsp)) = (got, spec) {
                    accepted += 1;
                    if !reached.contains(&g) {
                        reached.push(g);
                    }
                    let key: Key = (g, table.unwrap_or(g), nsp);
                    if !seen.contains_key(&key) {
                        seen.insert(key.clone(), h.len());
                        if STATES[g] == "SessionEncrypted" && samples.len() < 6 {
                            samples.push(json!({"accepted_flow": fmt_hist(&h)}));
                        }
                        q.push_back((key, h));
                    }
                } else if samples.len() < 8 && hist.len() == 3 && k == 5 {
                    samples.push(json!({"rejected": fmt_hist(&h)}));
                }
            }
        }
    }
    BfsOut {
        states: seen.len(),
        transitions,
        depth,
        reached,
        accepted,
        samples,
    }
}

/// The state is caller-held: explore from every one of the 25 states as initial state against the
/// table (no flow language is defined for sessions that do not start in None).
fn bfs_all_initial(sink: &mut Sink) -> (usize, usize) {
    let states = all_states();
    let reps = representatives();
    let mut total_states = 0;
    let mut transitions = 0;
    for init in 0..states.len() {
        let mut seen = vec![false; states.len()];
        let mut q: VecDeque<(usize, Vec<(usize, bool)>)> = VecDeque::new();
        seen[init] = true;
        q.push_back((init, vec![]));
        while let Some((s, hist)) = q.pop_front() {
            total_states += 1;
            for k in 0..KINDS.len() {
                for dir in [true, false] {
                    transitions += 1;
                    sink.evals += 1;
                    let mut h = hist.clone();
                    h.push((k, dir));
                    let got = guarded(|| step(states[s], &reps[k], dir));
                    let exp = ref_step(s, k, dir);
                    let ok = match (&got, &exp) {
                        (Ok(Ok(a)), Ok(b)) => a == b,
                        (Ok(Err(e)), Err(())) => *e == "InvalidTransition",
                        _ => false,
                    };
                    if !ok {
                        sink.violation(
                            format!("from {} seq {}", STATES[init], fmt_hist(&h).join(" ")),
                            format!("starting in state {}: after [{}] the implementation answers {:?}, the table {:?}", STATES[init], fmt_hist(&h).join(" "), got, exp.map(|i| STATES[i])),
                            json!({"kind":"cell","state":STATES[s],"msg":KINDS[k],"payload":0,"to_server":dir}),
                        );
                        continue;
                    }
                    if let Ok(Ok(n)) = got {
                        if !seen[n] {
                            seen[n] = true;
                            q.push_back((n, h));
                        }
                    }
                }
            }
        }
    }
    (total_states, transitions)
}

fn replay(run: &Run, v: &Value) -> i32 {
    let case = &v["case"];
    let states = all_states();
    let mut outs = Vec::new();
    for _ in 0..2 {
        let mut sink = Sink::new();
        match case["kind"].as_str() {
            Some("cell") => {
                let si = st(case["state"].as_str().unwrap());
                let kn = case["msg"].as_str().unwrap();
                let pi = case["payload"].as_u64().unwrap() as usize;
                let dir = case["to_server"].as_bool().unwrap();
                let m = &messages(kn)[pi];
                if let Err(w) = check_cell(states[si], kind(kn), Some(pi), m, dir) {
                    sink.violation("replay".into(), w, case.clone());
                }
            }
            Some("cell-bytes") => {
                let si = st(case["state"].as_str().unwrap());
                let kn = case["msg"].as_str().unwrap();
                let dir = case["to_server"].as_bool().unwrap();
                let b = unhex(case["input"].as_str().unwrap());
                if let Ok((_, m)) = tls_parser::parse_tls_message_handshake(&b) {
                    if let Err(w) = check_cell(states[si], kind(kn), None, &m, dir) {
                        sink.violation("replay".into(), w, case.clone());
                    }
                }
            }
            Some("alert") => {
                let si = st(case["state"].as_str().unwrap());
                let sev = case["severity"].as_u64().unwrap() as u8;
                let code = case["code"].as_u64().unwrap() as u8;
                let dir = case["to_server"].as_bool().unwrap();
                let k = if sev == 1 { kind("AlertWarning") } else { kind("AlertOther") };
                if let Err(w) = check_cell(states[si], k, None, &alert(sev, code), dir) {
                    sink.violation("replay".into(), w, case.clone());
                }
            }
            Some("corpus") => {
                let si = st(case["state"].as_str().unwrap());
                let ci = case["index"].as_u64().unwrap() as usize;
                let dir = case["to_server"].as_bool().unwrap();
                let corpus = parsed_corpus();
                let (k, m) = &corpus[ci];
                if let Err(w) = check_cell(states[si], *k, None, m, dir) {
                    sink.violation("replay".into(), w, case.clone());
                }
            }
            Some("seq") => {
                // replay the letters on the implementation and on the table
                let reps = representatives();
                let mut is = states[st("None")];
                let mut ts = st("None");
                for (n, l) in case["letters"].as_array().unwrap().iter().enumerate() {
                    let l = l.as_str().unwrap();
                    let (kn, d) = l.split_once(',').unwrap();
                    let dir = d == "C";
                    let k = kind(kn);
                    let got = step(is, &reps[k], dir);
                    let exp = ref_step(ts, k, dir);
                    let same = match (&got, &exp) {
                        (Ok(a), Ok(b)) => a == b,
                        (Err(e), Err(())) => *e == "InvalidTransition",
                        _ => false,
                    };
                    if !same {
                        sink.violation(
                            "replay".into(),
                            format!("step {} ({}): implementation {:?}, reference {:?}", n, l, got, exp),
                            case.clone(),
                        );
                        break;
                    }
                    match got {
                        Ok(g) => {
                            is = states[g];
                            ts = g;
                        }
                        Err(_) => break,
                    }
                }
            }
            _ => machinery_failure(run.prop, "unknown replay kind"),
        }
        outs.push(sink.viol.iter().map(|v| v.what.clone()).collect::<Vec<_>>());
    }
    if outs[0] != outs[1] {
        machinery_failure(run.prop, "replay is not deterministic");
    }
    if outs[0].is_empty() {
        println!("replay: property holds on this case");
        0
    } else {
        println!("replay: {}", outs[0][0]);
        println!("VIOLATION property={} replay={}", run.prop, run.replay.clone().unwrap());
        1
    }
}

fn main() {
    let run = Run::from_args("C08", "model_checking");
    if let Some(v) = run.load_replay() {
        std::process::exit(replay(&run, &v));
    }
    // machinery self-checks
    let states = all_states();
    for (i, s) in states.iter().enumerate() {
        if format!("{:?}", s) != STATES[i] {
            machinery_failure(run.prop, "state list out of sync with the reference");
        }
    }
    let (rs, rt) = match table_vs_flows() {
        Ok(x) => x,
        Err(e) => machinery_failure(run.prop, &format!("reference table and flow automaton disagree: {}", e)),
    };

    let mut sink = cell_sweep(&run);
    // payload independence over widely varied real content: every parsed catalogue message in every cell
    let corpus = parsed_corpus();
    let ncorpus = corpus.len();
    let mut kinds_seen = std::collections::BTreeSet::new();
    for (k, _) in &corpus {
        kinds_seen.insert(*k);
    }
    if kinds_seen.len() < 17 || ncorpus < 500 {
        machinery_failure(run.prop, &format!("parsed payload corpus too small: {} messages of {} kinds", ncorpus, kinds_seen.len()));
    }
    {
        let states = all_states();
        let items: Vec<(usize, bool)> = (0..states.len()).flat_map(|s| [(s, true), (s, false)]).collect();
        let s2 = par_run(run.threads, items.len(), |i, sink| {
            let (si, dir) = items[i];
            let live = !["Invalid", "SessionEncrypted", "Finished"].contains(&STATES[si]);
            for (ci, (k, m)) in corpus.iter().enumerate() {
                sink.case(fnv(0, format!("corpus {} {} {}", si, dir, ci).as_bytes()), live);
                match check_cell(states[si], *k, None, m, dir) {
                    Ok(c) => sink.count("parsed payload corpus", c),
                    Err(what) => sink.violation(
                        format!("cell {} {} {} content", STATES[si], KINDS[*k], dirn(dir)),
                        format!("{} [message #{} of the parsed payload corpus: {:.200?}]", what, ci, m),
                        json!({"kind":"corpus","state":STATES[si],"index":ci,"to_server":dir}),
                    ),
                }
            }
        });
        sink.merge(s2);
    }
    // the outcome never depends on an enumerated field either: every value of the handshake-level fields of
    // C11 (cipher ids, versions, compression ids, key-update values, status types, ...) parsed into a real
    // message and pushed through every (state, direction) cell
    {
        let fields = vchecks::fields::fields();
        let mut items: Vec<(usize, u32, u32)> = Vec::new();
        for (fi, f) in fields.iter().enumerate() {
            if f.bits == 0 || !f.targets.iter().any(|t| t.name == "parse_tls_message_handshake") {
                continue;
            }
            let n = 1u32 << f.bits;
            let mut lo = 0;
            while lo < n {
                items.push((fi, lo, (lo + 1024).min(n)));
                lo += 1024;
            }
        }
        let states = all_states();
        let sf = par_run(run.threads, items.len(), |i, sink| {
            let (fi, lo, hi) = items[i];
            for x in lo..hi {
                let w = (fields[fi].build)(x);
                let Ok((_, m)) = tls_parser::parse_tls_message_handshake(&w.buf) else { continue };
                let k = match &m {
                    TlsMessage::Handshake(h) => match h {
                        TlsMessageHandshake::ClientHello(c) => if c.session_id.is_some() { "CH1" } else { "CH0" },
                        TlsMessageHandshake::ServerHello(_) => "SH",
                        TlsMessageHandshake::ServerHelloV13Draft18(_) => "SH13",
                        TlsMessageHandshake::HelloRetryRequest(_) => "HRR",
                        TlsMessageHandshake::CertificateRequest(_) => "CReq",
                        TlsMessageHandshake::CertificateStatus(_) => "CSt",
                        TlsMessageHandshake::KeyUpdate(_) => "KU",
                        _ => continue,
                    },
                    _ => continue,
                };
                let k = kind(k);
                for (si, s) in states.iter().enumerate() {
                    for dir in [true, false] {
                        sink.evals += 1;
                        if let Err(what) = check_cell(*s, k, None, &m, dir) {
                            sink.violation(
                                format!("cell {} {} {} field", STATES[si], KINDS[k], dirn(dir)),
                                format!("{} [field {:?} = {}]", what, fields[fi].name, x),
                                json!({"kind":"cell","state":STATES[si],"msg":KINDS[k],"payload":0,"to_server":dir}),
                            );
                        }
                    }
                }
                sink.bump("field-value messages", 1);
            }
        });
        sink.merge(sf);
    }
    // ... nor on several fields at once: the hello cross product (version x magic random x session id x cipher kind x
    // compression id x extension block) parsed into real messages, each through every (state, direction) cell
    {
        let states = all_states();
        let sg = par_run(run.threads, 64, |c, sink| {
            for server in [true, false] {
                for w in vcommon::catalogue::hello_grid(server, false, false, c, 64) {
                    let Ok((_, m)) = tls_parser::parse_tls_message_handshake(&w.buf) else { continue };
                    let k = match &m {
                        TlsMessage::Handshake(TlsMessageHandshake::ClientHello(ch)) => if ch.session_id.is_some() { "CH1" } else { "CH0" },
                        TlsMessage::Handshake(TlsMessageHandshake::ServerHello(_)) => "SH",
                        TlsMessage::Handshake(TlsMessageHandshake::ServerHelloV13Draft18(_)) => "SH13",
                        TlsMessage::Handshake(TlsMessageHandshake::HelloRetryRequest(_)) => "HRR",
                        _ => continue,
                    };
                    let k = kind(k);
                    for (si, s) in states.iter().enumerate() {
                        for dir in [true, false] {
                            sink.evals += 1;
                            if let Err(what) = check_cell(*s, k, None, &m, dir) {
                                sink.violation(
                                    format!("cell {} {} {} grid", STATES[si], KINDS[k], dirn(dir)),
                                    format!("{} [hello {}]", what, hexshort(&w.buf)),
                                    json!({"kind":"cell-bytes","state":STATES[si],"msg":KINDS[k],"to_server":dir,"input":hexs(&w.buf)}),
                                );
                            }
                        }
                    }
                    sink.bump("hello-grid messages", 1);
                }
            }
        });
        sink.merge(sg);
    }
    let cells = sink.evals;
    let b = bfs(&mut sink);
    let (all_init_states, all_init_transitions) = bfs_all_initial(&mut sink);
    let unreached: Vec<&str> = (0..STATES.len())
        .filter(|i| !b.reached.contains(i))
        .map(|i| STATES[i])
        .collect();
    // vacuity: the search must have found complete flows and entered (almost) every state
    if sink.viol.is_empty() && (b.states < 40 || b.accepted < 200 || unreached.len() > 1) {
        machinery_failure(
            run.prop,
            &format!(
                "vacuous exploration: {} product states, {} accepted transitions, unreached {:?}",
                b.states, b.accepted, unreached
            ),
        );
    }
    let mut cross = serde_json::Value::Null;
    if run.tier == Tier::Thorough {
        let out = std::process::Command::new("/verif/target/release/vsr").arg("c08").output().unwrap_or_else(|e| machinery_failure("C08", &format!("cannot run the cross explorer: {}", e)));
        let txt = String::from_utf8_lossy(&out.stdout).to_string();
        let get = |k: &str| txt.split_whitespace().find_map(|t| t.strip_prefix(k).and_then(|v| v.parse::<usize>().ok()));
        match (get("states="), get("violations=")) {
            (Some(st), Some(vi)) => {
                cross = json!({"primary_states": b.states, "stateright_states": st, "stateright_violating_states": vi});
                if sink.viol.is_empty() && vi == 0 && st != b.states {
                    machinery_failure(run.prop, &format!("explorers disagree: primary {} product states, stateright {}", b.states, st));
                }
            }
            _ => machinery_failure(run.prop, &format!("unexpected output of the cross explorer: {:?}", txt)),
        }
    }
    let mut cov = Map::new();
    cov.insert("cross_check_stateright".into(), cross);
    cov.insert("states".into(), json!(b.states));
    cov.insert("transitions".into(), json!(b.transitions));
    cov.insert("traces_validated_against_impl".into(), json!(b.transitions));
    cov.insert("max_depth".into(), json!(b.depth));
    cov.insert("accepted_transitions".into(), json!(b.accepted));
    cov.insert("cells_swept".into(), json!(cells));
    cov.insert("parsed_payload_corpus_messages".into(), json!(ncorpus));
    cov.insert("all_25_initial_states".into(), json!({"states_visited": all_init_states, "transitions": all_init_transitions}));
    cov.insert("impl_states_reached".into(), json!(b.reached.len()));
    cov.insert("impl_states_unreached".into(), json!(unreached));
    cov.insert(
        "reference_selfcheck".into(),
        json!({"table_vs_flow_product_states": rs, "transitions": rt}),
    );
    cov.insert("exhaustive".into(), json!(true));
    cov.insert("rule".into(), json!(
        "E3: every (state, direction, kind, payload variant) cell incl. all 256x256 alerts, compared with the reference table, plus every cell with every hello of the field cross product (version x magic random x session id x 60 cipher kinds x 5 compression ids x 6 extension blocks), with every value of every handshake-level enumerated field (all 65536 cipher ids, versions, ...) and with every message of a parsed payload corpus (handshake catalogue, magic randoms, hellos whose extension block is each known extension alone and in pairs); non-trivial = from-state is not one of the three constant rows (Invalid, SessionEncrypted, Finished). E1: BFS to fixpoint of (implementation state, table state, flow-NFA subset) from None over 23 kinds x 2 directions; every transition calls the real tls_state_transition"));
    let mut samples = b.samples.clone();
    samples.extend(sink.samples.iter().cloned());
    cov.insert("samples".into(), json!(samples));
    // the same check against the crate built with all cargo features (std, serialize, unstable)
    let mut sink = sink;
    run.all_features_variant(&mut sink);
    let code = run.finish(
        &sink,
        cov,
        vec![
            "reference table and flow grammar transcribed from the property statement / RFC 5246 7.3 (DESIGN appendix A); they are checked against each other before use".into(),
            "BFS uses one representative payload per kind; payload independence is established by the cell sweep (3-4 payloads per kind, all alerts)".into(),
        ],
    );
    std::process::exit(code);
}
