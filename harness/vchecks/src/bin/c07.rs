//! C07 — record defragmenter: explicit-state model checking (E1) of the real TlsRecordsParser
//! against the reference "accumulate then parse", over free operation sequences (S0), all k-way
//! splits of catalogue payloads with interleavings (S1) and the 10 MiB cap histories (S2).
use serde_json::{json, Map, Value};
use tls_parser::*;
use vchecks::defrag::*;
use vchecks::defrag_explore::*;
use vcommon::report::*;

fn replay(run: &Run, v: &Value) -> i32 {
    let case = &v["case"];
    let mut outs = Vec::new();
    for _ in 0..2 {
        let mut msgs: Vec<String> = Vec::new();
        match case["kind"].as_str() {
            Some("history") => {
                let mut alpha = Vec::new();
                let mut ops = Vec::new();
                for o in case["ops"].as_array().unwrap() {
                    match o["op"].as_str().unwrap() {
                        "reset" => ops.push(Op::Reset),
                        name => {
                            alpha.push(Rec {
                                ty: o["type"].as_u64().unwrap() as u8,
                                data: unhex(o["data"].as_str().unwrap()),
                                ver: o["version"].as_u64().unwrap_or(0x0303) as u16,
                            });
                            ops.push(if name == "parse_record" {
                                Op::Parse(alpha.len() - 1)
                            } else {
                                Op::NoCopy(alpha.len() - 1)
                            });
                        }
                    }
                }
                if let Some((n, m)) = run_history(&alpha, &ops) {
                    msgs.push(format!("operation {} ({}): {}", n, op_str(&ops[n], &alpha), m));
                }
            }
            Some("repeat") => {
                let mut s = Sink::new();
                s5(&mut s, true);
                let key = format!("S5 kind {} n {} ", case["op_kind"].as_u64().unwrap_or(0), case["n"].as_u64().unwrap_or(0));
                msgs.extend(s.viol.iter().filter(|v| v.key.starts_with(&key)).map(|v| v.what.clone()));
            }
            Some("cycles") | Some("total") => {
                let mut s = Sink::new();
                s6(&mut s, true);
                let key = if case["kind"] == "cycles" { format!("S6 cycles {} ", case["n"].as_u64().unwrap_or(0)) } else { format!("S6 total {} frag {} ", case["total"].as_u64().unwrap_or(0), case["frag"].as_u64().unwrap_or(0)) };
                msgs.extend(s.viol.iter().filter(|v| v.key.starts_with(&key)).map(|v| v.what.clone()));
            }
            Some("oversize") => {
                let mut s = Sink::new();
                s4(&mut s);
                msgs.extend(s.viol.iter().map(|v| v.what.clone()));
            }
            Some("cap") => {
                let mut s = Sink::new();
                s2(&mut s, case["frag"].as_u64().unwrap() as usize, true);
                msgs.extend(s.viol.iter().map(|v| v.what.clone()));
            }
            _ => machinery_failure(run.prop, "unknown replay kind"),
        }
        outs.push(msgs);
    }
    if outs[0] != outs[1] {
        machinery_failure(run.prop, "replay is not deterministic");
    }
    if outs[0].is_empty() {
        println!("replay: property holds on this case");
        return 0;
    }
    println!("replay: {}", outs[0][0]);
    println!("VIOLATION property={} replay={}", run.prop, run.replay.clone().unwrap());
    1
}

fn main() {
    let run = Run::from_args("C07", "model_checking");
    if let Some(v) = run.load_replay() {
        std::process::exit(replay(&run, &v));
    }
    let thorough = run.tier == Tier::Thorough;
    let mut sink = Sink::new();
    let mut states = 0;
    let mut transitions = 0;
    let mut maxdepth = 0;
    let mut per = Vec::new();
    let mut all_complete = true;

    // every scenario is explored twice: with the hook-visible state as key (the count the stateright model reproduces), and
    // with the digest of the object's Debug text added to the key (hidden fields split states), limited to 6x the states
    let mut fine_states = 0usize;
    let mut fine_truncated = 0usize;
    let sc0 = s0(run.tier.pick(5, 8));
    let e0 = explore(&run, &sc0, &mut sink);
    {
        let ef = explore_fine(&run, &sc0, &mut sink, e0.states * 6 + 1000);
        fine_states += ef.states;
        transitions += ef.transitions;
        if !ef.complete && ef.depth < sc0.max_depth {
            fine_truncated += 1;
        }
    }
    states += e0.states;
    transitions += e0.transitions;
    maxdepth = maxdepth.max(e0.depth);
    per.push(json!({"scenario":"S0 free sequences","alphabet_records":sc0.alpha.len(),"operations":sc0.alpha.len()*2+1,"depth_bound":sc0.max_depth,"states":e0.states,"transitions":e0.transitions,"outcomes":e0.outcomes,"fixpoint_reached":e0.complete}));

    // S1: one exploration (to fixpoint) per catalogue payload
    let mut singles = 0;
    for first in s1_catalogue(thorough) {
        let sc = s1(first);
        // vacuity guard by the reference walker (independent of the implementation's verdicts):
        // the payload is one well-formed message and no proper prefix is
        {
            use vcommon::reference::wire::ref_record_with_header;
            use vcommon::v::Ref;
            let (ty, p) = (sc.payloads[0].0, &sc.payloads[0].1);
            let whole = matches!(ref_record_with_header(ty, p), Ref::Must(vcommon::v::V::L(ref m), n) if n == p.len() && m.len() == 1);
            let prefixes = (0..p.len()).all(|n| !matches!(ref_record_with_header(ty, &p[..n]), Ref::Must(..)));
            if whole && prefixes {
                singles += 1;
            }
        }
        let e = explore(&run, &sc, &mut sink);
        {
            let ef = explore_fine(&run, &sc, &mut sink, e.states * 6 + 1000);
            fine_states += ef.states;
            transitions += ef.transitions;
            if !ef.complete {
                fine_truncated += 1;
            }
        }
        states += e.states;
        transitions += e.transitions;
        maxdepth = maxdepth.max(e.depth);
        all_complete &= e.complete;
        per.push(json!({"scenario":"S1 all splits","payload_type":sc.payloads[0].0,"payload":hexshort(&sc.payloads[0].1),"single_message":sc.payloads[0].2,"states":e.states,"transitions":e.transitions,"depth":e.depth,"outcomes":e.outcomes,"fixpoint_reached":e.complete}));
    }

    // thorough tier: the same transition functions explored by an independent engine (stateright BFS);
    // the numbers of unique states must coincide, else one of the explorers truncated or over-merged
    let mut cross: Vec<serde_json::Value> = Vec::new();
    if thorough {
        let vsr = "/verif/target/release/vsr";
        let run_vsr = |args: &[String]| -> (usize, usize) {
            let out = std::process::Command::new(vsr).args(args).output().unwrap_or_else(|e| machinery_failure("C07", &format!("cannot run {}: {}", vsr, e)));
            let txt = String::from_utf8_lossy(&out.stdout).to_string();
            let get = |k: &str| txt.split_whitespace().find_map(|t| t.strip_prefix(k).and_then(|v| v.parse::<usize>().ok()));
            match (get("states="), get("violations=")) {
                (Some(a), Some(b)) => (a, b),
                _ => machinery_failure("C07", &format!("unexpected output of the cross explorer: {:?} {:?}", txt, String::from_utf8_lossy(&out.stderr))),
            }
        };
        let cd = 6usize;
        let mut tmp = Sink::new();
        let primary = explore(&run, &s0(cd), &mut tmp);
        let (st, vi) = run_vsr(&["c07-s0".to_string(), cd.to_string()]);
        cross.push(json!({"scenario":"S0","depth":cd,"primary_states":primary.states,"stateright_states":st,"stateright_violating_states":vi}));
        if tmp.viol.is_empty() && vi == 0 && st != primary.states {
            machinery_failure(run.prop, &format!("explorers disagree on S0 depth {}: primary {} states, stateright {}", cd, primary.states, st));
        }
        for (i, first) in s1_catalogue(true).into_iter().enumerate() {
            let mut tmp = Sink::new();
            let primary = explore(&run, &s1(first), &mut tmp);
            let (st, vi) = run_vsr(&["c07-s1".to_string(), i.to_string(), "thorough".to_string()]);
            cross.push(json!({"scenario":"S1","payload_index":i,"primary_states":primary.states,"stateright_states":st,"stateright_violating_states":vi}));
            if tmp.viol.is_empty() && vi == 0 && st != primary.states {
                machinery_failure(run.prop, &format!("explorers disagree on S1 payload {}: primary {} states, stateright {}", i, primary.states, st));
            }
        }
    }

    let (h1, st1) = s2(&mut sink, 16640, thorough);
    let (h2, st2) = s2(&mut sink, 65535, thorough);
    per.push(json!({"scenario":"S2 size cap","histories":h1+h2,"steps":st1+st2}));

    // S3: the record-layer version is dead in this module: every one of the 65536 values, on all records of a
    // history at once and on each single record of it (first fragment / continuation / last fragment / the
    // interleaved foreign record) with the others at 0x0303, over 2- and 3-way splits with an interleaved
    // foreign record, a refused nocopy call and a trailing complete record
    let s3_hist;
    {
        let mut hists: Vec<(Vec<Rec>, Vec<Op>)> = Vec::new();
        for (ty, p) in s1_catalogue(thorough).into_iter().filter(|(_, p)| p.len() >= 3) {
            let n = p.len();
            for cuts in [vec![1usize], vec![n / 2], vec![1, n - 1], vec![n - 1]] {
                let mut alpha = Vec::new();
                let mut ops = Vec::new();
                let mut at = 0;
                for c in cuts.iter().chain(std::iter::once(&n)) {
                    alpha.push(rec(ty, &p[at..*c]));
                    ops.push(Op::Parse(alpha.len() - 1));
                    if at == 0 {
                        alpha.push(rec(0x15, &[1, 0]));
                        ops.push(Op::Parse(alpha.len() - 1));
                        ops.push(Op::NoCopy(alpha.len() - 1));
                    }
                    at = *c;
                }
                alpha.push(rec(0x16, &[0x0e, 0, 0, 0]));
                ops.push(Op::Parse(alpha.len() - 1));
                ops.push(Op::NoCopy(alpha.len() - 1));
                hists.push((alpha, ops));
            }
        }
        let variants: usize = hists.iter().map(|(a, _)| a.len() + 1).sum();
        s3_hist = variants * 65536;
        let s3 = par_run(run.threads, 256, |hi, sink| {
            for lo in 0..256u32 {
                let ver = ((hi as u32) << 8 | lo) as u16;
                for (alpha0, ops) in &hists {
                    // which == alpha0.len(): every record carries the version
                    for which in 0..=alpha0.len() {
                        let mut alpha = alpha0.clone();
                        for (k, r) in alpha.iter_mut().enumerate() {
                            if which == alpha0.len() || which == k {
                                r.ver = ver;
                            }
                        }
                        sink.evals += ops.len() as u64;
                        if let Some((n, m)) = run_history(&alpha, ops) {
                            let j = json!({"kind":"history","scenario":"S3 record version","ops":hist_json(&ops[..=n], &alpha)});
                            sink.violation(format!("S3 version {:#06x} on {} op {}", ver, which, n), format!("[S3 record version {:#06x} on {}] operation {} ({}): {}", ver, if which == alpha0.len() { "all records".to_string() } else { format!("record {}", which) }, n, op_str(&ops[n], &alpha), m), j);
                        }
                    }
                }
            }
        });
        transitions += s3.evals as usize;
        sink.merge(s3);
        per.push(json!({"scenario":"S3 record-layer version sweep","versions":65536,"histories":s3_hist}));
    }
    // S4: hand-built records longer than any record on the wire
    let (h4, st4) = s4(&mut sink);
    transitions += st4;
    per.push(json!({"scenario":"S4 oversize first fragments","histories":h4,"steps":st4}));
    // S5: one operation repeated up to 70000 times inside a defragmentation
    let (h5, st5) = s5(&mut sink, thorough);
    transitions += st5;
    per.push(json!({"scenario":"S5 repeated operations","histories":h5,"steps":st5}));
    // S6: up to 70000 completed messages in a row on one parser; messages of exactly 2^16 +- 1, 2^17 +- 1, 3 * 2^16 bytes
    let (h6, st6) = s6(&mut sink, thorough);
    transitions += st6;
    per.push(json!({"scenario":"S6 cycles and 2^16-sized messages","histories":h6,"steps":st6}));

    if sink.viol.is_empty() && (states < 500 || singles < 3) {
        machinery_failure(run.prop, &format!("vacuous exploration: {} states, {} single-message payloads", states, singles));
    }
    let mut cov = Map::new();
    cov.insert("states".into(), json!(states));
    cov.insert("distinct_nontrivial".into(), json!(states));
    cov.insert("transitions".into(), json!(transitions + st1 + st2));
    cov.insert("traces_validated_against_impl".into(), json!(transitions + st1 + st2));
    cov.insert("max_depth".into(), json!(maxdepth));
    cov.insert("states_with_hidden_state_digest".into(), json!(fine_states));
    cov.insert("hidden_state_explorations_cut_off_at_budget".into(), json!(fine_truncated));
    cov.insert("scenarios".into(), json!(per));
    if !cross.is_empty() {
        cov.insert("cross_check_stateright".into(), json!(cross));
    }
    cov.insert("exhaustive".into(), json!(all_complete));
    cov.insert("rule".into(), json!(
        "states are canonical (buffer bytes, current type, reference accumulator, reference type, scenario cursor); every transition executes the real parse_record / parse_record_nocopy / reset on a parser rebuilt by replaying the witness history, and is compared with the reference accumulate-then-parse step (result value incl. slice provenance, defrag_in_progress, buffer, state-unchanged-on-refusal, size bound). S0 is depth-bounded (bound reported); S1 runs to fixpoint; S2 is a set of deterministic 10 MiB histories; S3 replays fixed split histories under every one of the 65536 record-layer versions (on all records and on each single record); S4 feeds hand-built first fragments of about 10 MiB; S6 completes up to 70000 two-fragment messages in a row and reassembles messages of exactly 2^16 +- 1 / 2^17 +- 1 / 3 * 2^16 bytes; S5 repeats one operation (empty / 1-byte fragment, foreign record, refused nocopy, empty application data) up to 70000 times inside a defragmentation"));
    // the same check against the crate built with all cargo features (std, serialize, unstable)
    let mut sink = sink;
    run.all_features_variant(&mut sink);
    let code = run.finish(
        &sink,
        cov,
        vec![
            "the one-shot parser parse_tls_record_with_header is the oracle for message values (C07 defines the defragmenter relative to it); its own correctness is C03/C04".into(),
            "records carry hdr.len == data.len() as parse_tls_raw_record produces them; the record version is 0x0303 in S0-S2 and swept over all 65536 values in S3 (uniformly and one record at a time; two different non-default versions in one history are not combined)".into(),
            "S0 free exploration is bounded in depth; payloads of S1 are at most 45 bytes".into(),
        ],
    );
    std::process::exit(code);
}
