//! C04 — handshake messages decode to the values an RFC encoder wrote; bad ones fail (E2).
use serde_json::{json, Map};
use tls_parser::*;
use vchecks::mirror::call;
use vchecks::sweep::*;
use vchecks::targets::*;
use vcommon::catalogue as cat;
use vcommon::en::{Alpha, LenField, W};
use vcommon::reference::wire::{self, Bd, Rd};
use vcommon::report::*;
use vcommon::v::{Ref, V};

/// body-level reference: the body verdict, consuming the whole body when well-formed
fn body_ref(ht: u8, b: &[u8]) -> Ref {
    match wire::body_handshake(ht, Rd::new(b)) {
        Bd::Must(v) => Ref::Must(v, b.len()),
        Bd::Reject(w) => Ref::Reject(w),
        Bd::Unspec(w) => Ref::Unspec(w),
    }
}

macro_rules! body_target {
    ($name:ident, $ht:expr) => {
        Target {
            name: stringify!($name),
            run: |b| call(b, $name),
            reference: |b| body_ref($ht, b),
        }
    };
    ($name:ident, $ht:expr, len) => {
        Target {
            name: stringify!($name),
            run: |b| call(b, |i| $name(i, i.len())),
            reference: |b| body_ref($ht, b),
        }
    };
}

static B_CH: Target = body_target!(parse_tls_handshake_client_hello, 1);
static B_CH_MSG: Target = body_target!(parse_tls_handshake_msg_client_hello, 1);
static B_SH_MSG: Target = body_target!(parse_tls_handshake_msg_server_hello, 2);
// the contents-level ServerHello parser does not know the draft-18 form
static B_SH: Target = Target {
    name: "parse_tls_handshake_server_hello",
    run: |b| call(b, parse_tls_handshake_server_hello),
    reference: |b| {
        if b.len() >= 2 && b[0] == 0x7f && b[1] == 0x12 {
            return Ref::Reject("draft-18 form not supported by the contents-level parser");
        }
        body_ref(2, b)
    },
};
static B_NST: Target = body_target!(parse_tls_handshake_msg_newsessionticket, 4, len);
static B_HRR: Target = body_target!(parse_tls_handshake_msg_hello_retry_request, 6);
static B_CERT: Target = body_target!(parse_tls_handshake_msg_certificate, 11);
static B_SKE: Target = body_target!(parse_tls_handshake_msg_serverkeyexchange, 12, len);
static B_CREQ: Target = body_target!(parse_tls_handshake_certificaterequest, 13);
static B_CREQ_MSG: Target = body_target!(parse_tls_handshake_msg_certificaterequest, 13);
static B_SHD: Target = body_target!(parse_tls_handshake_msg_serverdone, 14, len);
static B_CV: Target = body_target!(parse_tls_handshake_msg_certificateverify, 15, len);
static B_CKE: Target = body_target!(parse_tls_handshake_msg_clientkeyexchange, 16, len);
static B_FIN: Target = body_target!(parse_tls_handshake_msg_finished, 20, len);
static B_CST: Target = body_target!(parse_tls_handshake_certificatestatus, 22);
static B_CST_MSG: Target = body_target!(parse_tls_handshake_msg_certificatestatus, 22);
static B_KU: Target = body_target!(parse_tls_handshake_msg_key_update, 24);
static B_NP: Target = body_target!(parse_tls_handshake_next_protocol, 67);
static B_NP_MSG: Target = body_target!(parse_tls_handshake_msg_next_protocol, 67);
// consumes nothing, whatever follows
static B_HREQ: Target = Target {
    name: "parse_tls_handshake_msg_hello_request",
    run: |b| call(b, parse_tls_handshake_msg_hello_request),
    reference: |_| Ref::Must(V::N("HelloRequest", vec![]), 0),
};

fn body_targets(ht: u8) -> Vec<&'static Target> {
    match ht {
        0 => vec![&B_HREQ],
        1 => vec![&B_CH, &B_CH_MSG],
        2 => vec![&B_SH, &B_SH_MSG],
        4 => vec![&B_NST],
        6 => vec![&B_HRR],
        11 => vec![&B_CERT],
        12 => vec![&B_SKE],
        13 => vec![&B_CREQ, &B_CREQ_MSG],
        14 => vec![&B_SHD],
        15 => vec![&B_CV],
        16 => vec![&B_CKE],
        20 => vec![&B_FIN],
        22 => vec![&B_CST, &B_CST_MSG],
        24 => vec![&B_KU],
        67 => vec![&B_NP, &B_NP_MSG],
        _ => vec![],
    }
}

fn all_targets() -> Vec<&'static Target> {
    let mut v: Vec<&'static Target> = vec![&MSG_HANDSHAKE];
    for ht in [0u8, 1, 2, 4, 6, 11, 12, 13, 14, 15, 16, 20, 22, 24, 67] {
        v.extend(body_targets(ht));
    }
    v
}

/// drop the 4-byte handshake header of a catalogue message: (type, body-level W)
fn strip_header(w: &W) -> (u8, W) {
    let ty = w.buf[0];
    let lens: Vec<LenField> = w
        .lens
        .iter()
        .filter(|l| l.pos >= 4)
        .map(|l| LenField { pos: l.pos - 4, ..l.clone() })
        .collect();
    (
        ty,
        W {
            buf: w.buf[4..].to_vec(),
            lens,
        },
    )
}

type LenFn = fn(&[u8], usize) -> vcommon::v::Got;
fn lenfns() -> Vec<(&'static str, &'static str, LenFn)> {
    vec![
        ("parse_tls_handshake_msg_serverkeyexchange", "ServerKeyExchange", |b, l| call(b, |i| parse_tls_handshake_msg_serverkeyexchange(i, l))),
        ("parse_tls_handshake_msg_serverdone", "ServerDone", |b, l| call(b, |i| parse_tls_handshake_msg_serverdone(i, l))),
        ("parse_tls_handshake_msg_certificateverify", "CertificateVerify", |b, l| call(b, |i| parse_tls_handshake_msg_certificateverify(i, l))),
        ("parse_tls_handshake_msg_clientkeyexchange", "ClientKeyExchange", |b, l| call(b, |i| parse_tls_handshake_msg_clientkeyexchange(i, l))),
        ("parse_tls_handshake_msg_finished", "Finished", |b, l| call(b, |i| parse_tls_handshake_msg_finished(i, l))),
        ("parse_tls_handshake_msg_newsessionticket", "NewSessionTicket", |b, l| call(b, |i| parse_tls_handshake_msg_newsessionticket(i, l))),
    ]
}

fn lenarg_expect(vname: &str, b: &[u8], l: usize) -> Ref {
    let n = b.len();
    if vname == "NewSessionTicket" {
        if l < 4 {
            Ref::Reject("NewSessionTicket shorter than 4 bytes")
        } else if l <= n {
            let lt = u32::from_be_bytes([b[0], b[1], b[2], b[3]]) as u64;
            Ref::Must(V::N("NewSessionTicket", vec![V::U(lt), V::s(4, l - 4)]), l)
        } else {
            Ref::Reject("declared length exceeds the input")
        }
    } else if l <= n {
        let inner = if vname == "ClientKeyExchange" { V::N("Unknown", vec![V::s(0, l)]) } else { V::s(0, l) };
        let vn: &'static str = match vname {
            "ServerKeyExchange" => "ServerKeyExchange",
            "ServerDone" => "ServerDone",
            "CertificateVerify" => "CertificateVerify",
            "ClientKeyExchange" => "ClientKeyExchange",
            _ => "Finished",
        };
        Ref::Must(V::N(vn, vec![inner]), l)
    } else {
        Ref::Reject("declared length exceeds the input")
    }
}

fn main() {
    let run = Run::from_args("C04", "exploration");
    if let Some(v) = run.load_replay() {
        if v["case"]["kind"] == "lenarg" {
            let c = &v["case"];
            let b = unhex(c["input"].as_str().unwrap());
            let l: usize = c["len"].as_str().unwrap().parse().unwrap();
            let (name, vname, f) = lenfns().into_iter().find(|x| x.0 == c["func"].as_str().unwrap()).unwrap();
            let r1 = vcommon::v::disagree(&lenarg_expect(vname, &b, l), &f(&b, l));
            let r2 = vcommon::v::disagree(&lenarg_expect(vname, &b, l), &f(&b, l));
            if r1 != r2 {
                machinery_failure(run.prop, "replay is not deterministic");
            }
            match r1 {
                None => {
                    println!("replay: property holds on this case");
                    std::process::exit(0)
                }
                Some(w) => {
                    println!("replay: {}(len={}): {}", name, l, w);
                    println!("VIOLATION property={} replay={}", run.prop, run.replay.clone().unwrap());
                    std::process::exit(1)
                }
            }
        }
        std::process::exit(replay_parse(&run, &all_targets(), &v["case"], &|_, _, _| {}));
    }
    let thorough = run.tier == Tier::Thorough;
    vcommon::en::WRAP_LIES.store(true, std::sync::atomic::Ordering::Relaxed);
    let d = run.tier.pick(1, 2);
    let sfx = std_suffixes();
    let mut sink = Sink::new();

    // (1) message-level: catalogue x deviations through parse_tls_message_handshake
    let msgs = cat::handshake_messages(thorough);
    let nmsgs = msgs.len();
    sink.merge(struct_sweep(&run, &[&MSG_HANDSHAKE], &msgs, d, &sfx, 64, &no_extra));
    sink.merge(struct_sweep(&run, &[&MSG_HANDSHAKE], &cat::handshake_all_types(), run.tier.pick(0, 1), &sfx, 64, &no_extra));

    sink.merge(struct_sweep(&run, &[&MSG_HANDSHAKE], &cat::handshake_many(), run.tier.pick(0, 1), &sfx, 32, &no_extra));

    // randoms with a protocol-defined meaning (HelloRetryRequest value, downgrade sentinels) are still just randoms here
    let magic: Vec<W> = cat::magic_hellos().into_iter().filter(|w| w.buf[0] != 2 || w.buf.len() > 4 && w.lens.iter().all(|l| l.label != "dtls_length")).collect();
    sink.merge(struct_sweep(&run, &[&MSG_HANDSHAKE], &magic.iter().filter(|w| w.lens.first().map_or(false, |l| l.label == "hs_len")).cloned().collect::<Vec<_>>(), 1, &sfx, 64, &no_extra));
    // HelloRetryRequest over the cross product version x all 65536 cipher ids x extension block (a cipher id that
    // happens to equal a length, a block that parses as a list, ...)
    {
        let profiles = cat::hello_profiles();
        let blocks: Vec<Option<Vec<u8>>> = vec![
            None,
            Some(vec![]),
            Some(vec![0, 0, 0, 0]),
            Some(vec![0, 0x33, 0, 2, 0, 0x1d]),
            Some(vec![0, 0x2c, 0, 5, 0, 3, 0xaa, 0xbb, 0xcc]),
            Some(profiles[8].clone()),
            Some(vec![0xe0, 0xe1, 0xe2]),
            // blocks that begin with a 16-bit length of their own (the enclosing length then reads as a type)
            Some(vec![0, 0]),
            Some(vec![0, 2, 0, 0]),
            Some(vec![0, 4, 0xaa, 0xbb, 0xcc, 0xdd]),
            Some(vec![0, 1, 0x55, 0, 0x17, 0, 0]),
            Some([&[0u8, profiles[8].len() as u8][..], &profiles[8][..]].concat()),
        ];
        let versions = [0x7f12u16, 0x0304, 0x7f1c, 0x0303];
        let sh = par_run(run.threads, 256, |hi, sink| {
            for lo in 0..256u32 {
                let cipher = ((hi as u32) << 8 | lo) as u16;
                for &v in &versions {
                    for b in &blocks {
                        let w = cat::hs(6, |w| {
                            w.u16(v).u16(cipher);
                            if let Some(b) = b {
                                w.block(2, "ext_len", |w| {
                                    w.bytes(b);
                                });
                            }
                        });
                        check_case(run.prop, &MSG_HANDSHAKE, &w.buf, sink);
                    }
                }
            }
        });
        sink.merge(sh);
    }
    // opaque blobs whose bytes have a shape of their own (a length prefix, a list of one, DER with an ENUMERATED ...), in every
    // message that carries one; CertificateStatus also over all 256 status types
    {
        let shapes = cat::content_shapes();
        let mut msgs: Vec<W> = shapes.iter().flat_map(|b| cat::opaque_carriers(b)).collect();
        for st in 0..=255u8 {
            for b in shapes.iter().step_by(3) {
                msgs.push(cat::hs(22, |w| {
                    w.u8(st);
                    w.block(3, "blob", |w| {
                        w.bytes(b);
                    });
                }));
            }
        }
        sink.merge(struct_sweep(&run, &[&MSG_HANDSHAKE], &msgs, 0, &sfx, 16, &no_extra));
    }
    // lists of enumerated values whose bytes are a well-formed instance of another structure (a DER name list as signature
    // algorithms, an extension list as cipher suites, ...)
    sink.merge(struct_sweep(&run, &[&MSG_HANDSHAKE], &cat::enum_lists_with_foreign_content().0, 0, &sfx, 16, &no_extra));
    // the RFC 8446 layouts of the same message types: a decoder that also "understands" them changes what the
    // TLS 1.2 layout means for some input
    sink.merge(struct_sweep(&run, &[&MSG_HANDSHAKE], &cat::tls13_messages(), run.tier.pick(0, 1), &sfx, 64, &no_extra));
    sink.merge(struct_sweep(&run, &[&MSG_HANDSHAKE], &wrapped(&cat::handshake_messages(false), 1), 0, &sfx, 16, &no_extra));
    for server in [true, false] {
        sink.merge(grid_sweep(&run, &[&MSG_HANDSHAKE], 64, &|c, n| cat::hello_grid(server, false, thorough, c, n), &no_wrap, &no_extra));
    }
    for style in [1u8, 3, 4, 6, 7, 8, 10, 11, 12, 13, 14, 15, 16, 17, 18, 19, 20, 21] {
        use vcommon::en::with_fill_style as wfs;
        sink.merge(struct_sweep(&run, &[&MSG_HANDSHAKE], &wfs(style, || cat::handshake_messages(false)), 0, &sfx, 64, &no_extra));
    }

    // hellos whose extension block is a real extension list (the block is opaque to the hello parsers and must stay so)
    let with_ext: Vec<W> = cat::hellos_with_extension_lists().into_iter().filter(|w| w.lens.first().map_or(false, |l| l.label == "hs_len")).collect();
    sink.merge(struct_sweep(&run, &[&MSG_HANDSHAKE], &with_ext, 0, &sfx, 64, &no_extra));
    // every size of each variable-length field of a message (all enclosing lengths consistent)
    for ty in [12u8, 14, 15, 16, 20] {
        let b = move |n: usize| cat::hs(ty, |w| {
            w.fill(n, ty);
        });
        sink.merge(size_sweep(&run, &[&MSG_HANDSHAKE], 70000, &b, &no_extra));
    }
    let b_nst = |n: usize| cat::hs(4, |w| {
        w.u32(7);
        w.fill(n, 0x11);
    });
    sink.merge(size_sweep(&run, &[&MSG_HANDSHAKE], 66000, &b_nst, &no_extra));
    let b_cert = |n: usize| cat::hs(11, |w| cat::certificate_body(w, &[n, 1]));
    sink.merge(size_sweep(&run, &[&MSG_HANDSHAKE], 70000, &b_cert, &no_extra));
    let b_cst = |n: usize| cat::hs(22, |w| {
        w.u8(1);
        w.block(3, "status_blob_len", |w| {
            w.fill(n, 0x77);
        });
    });
    sink.merge(size_sweep(&run, &[&MSG_HANDSHAKE], 70000, &b_cst, &no_extra));
    let b_ciphers = |n: usize| cat::hs(1, |w| cat::client_hello_body(w, 0x0303, 0, n, 1, cat::ExtBlock::Empty, None));
    sink.merge(size_sweep(&run, &[&MSG_HANDSHAKE], 32767, &b_ciphers, &no_extra));
    let b_comps = |n: usize| cat::hs(1, |w| cat::client_hello_body(w, 0x0303, 32, 1, n, cat::ExtBlock::Absent, None));
    sink.merge(size_sweep(&run, &[&MSG_HANDSHAKE], 255, &b_comps, &no_extra));
    for ty in [1u8, 2, 6] {
        let b = move |n: usize| match ty {
            1 => cat::hs(1, |w| cat::client_hello_body(w, 0x0303, 0, 1, 1, cat::ExtBlock::Bytes(n), None)),
            2 => cat::hs(2, |w| cat::server_hello_body(w, 0x0303, 32, cat::ExtBlock::Bytes(n))),
            _ => cat::hs(6, |w| {
                w.u16(0x0304).u16(0x1301);
                w.block(2, "ext_len", |w| {
                    w.fill(n, 0xe0);
                });
            }),
        };
        sink.merge(size_sweep(&run, &[&MSG_HANDSHAKE], 65535, &b, &no_extra));
    }
    let b_dn = |n: usize| cat::hs(13, |w| cat::certificate_request_body(w, 1, Some(1), &[n]));
    sink.merge(size_sweep(&run, &[&MSG_HANDSHAKE], 65000, &b_dn, &no_extra));
    let b_np = |n: usize| cat::hs(67, |w| {
        w.block(1, "proto_len", |w| {
            w.fill(n, b'h');
        });
        w.block(1, "padding_len", |w| {
            w.fill(255 - n, 0);
        });
    });
    sink.merge(size_sweep(&run, &[&MSG_HANDSHAKE], 255, &b_np, &no_extra));

    // (2) body-level: the same catalogue without the 4-byte header through each pub body parser
    let mut by_type: std::collections::BTreeMap<u8, Vec<W>> = std::collections::BTreeMap::new();
    for m in &msgs {
        let (ty, b) = strip_header(m);
        by_type.entry(ty).or_default().push(b);
    }
    for (ty, bodies) in &by_type {
        let ts = body_targets(*ty);
        if ts.is_empty() {
            continue;
        }
        sink.merge(struct_sweep(&run, &ts, bodies, d, &sfx, 64, &no_extra));
    }

    // (3) complete one-dimensional sweeps of enumerated fields inside otherwise fixed messages
    let mut sweeps: Vec<W> = Vec::new();
    for x in 0..=65535u32 {
        let x = x as u16;
        // version of ClientHello / HelloRetryRequest, cipher of ServerHello, single cipher in a list
        sweeps.push(cat::hs(1, |w| cat::client_hello_body(w, x, 0, 1, 1, cat::ExtBlock::Absent, None)));
        sweeps.push(cat::hs(2, |w| cat::server_hello_body(w, x, 0, cat::ExtBlock::Empty)));
        sweeps.push(cat::hs(6, |w| {
            w.u16(x).u16(x ^ 0x5555);
        }));
        if thorough || x % 4 == 0 || x < 1024 {
            sweeps.push(cat::hs(1, |w| {
                w.u16(0x0303);
                w.fill(32, 0);
                w.u8(0);
                w.block(2, "ciphers_len", |w| {
                    w.u16(x).u16(!x);
                });
                w.u8(1).u8(0);
            }));
        }
    }
    for x in 0..=255u8 {
        sweeps.push(cat::hs(24, |w| {
            w.u8(x);
        }));
        sweeps.push(cat::hs(22, |w| {
            w.u8(x);
            w.block(3, "status_blob_len", |w| {
                w.u8(x);
            });
        }));
        // compression id, session id length, certificate type
        sweeps.push(cat::hs(1, |w| {
            w.u16(0x0303);
            w.fill(32, 0);
            w.u8(0).u16(0).u8(1).u8(x);
        }));
        sweeps.push(cat::hs(1, |w| {
            w.u16(0x0303);
            w.fill(32, 0);
            w.u8(x);
            w.fill(x as usize, 1);
            w.u16(0).u8(0);
        }));
        sweeps.push(cat::hs(13, |w| {
            w.u8(1).u8(x).u16(0);
        }));
    }
    for bit in 0..32 {
        for v in [1u32 << bit, !(1u32 << bit)] {
            sweeps.push(cat::hs(4, |w| {
                w.u32(v).u8(9);
            }));
        }
    }
    let nsweeps = sweeps.len();
    sink.merge(struct_sweep(&run, &[&MSG_HANDSHAKE], &sweeps, 0, &sfx, 64, &no_extra));

    // (4) every short string over a positional alphabet through the message parser
    let a = Alpha::new(
        &[
            &[0x00, 0x01, 0x02, 0x04, 0x05, 0x06, 0x0b, 0x0c, 0x0d, 0x0e, 0x0f, 0x10, 0x14, 0x16, 0x18, 0x43, 0x03, 0xff],
            &[0x00],
            &[0x00, 0x01],
            &[0x00, 0x01, 0x02, 0x03, 0x04, 0x05, 0x06, 0x07, 0x08, 0xff],
        ],
        &[0x00, 0x01, 0x02, 0x03, 0x20, 0xff],
    );
    let n = run.tier.pick(9, 11);
    sink.merge(alpha_sweep(&run, &MSG_HANDSHAKE, &a, n, &identity_wrap, &no_extra));

    // (5) frames: a well-formed hello prefix followed by an exhaustive tail (lying inner lengths)
    let tail = Alpha::uniform(&[0x00, 0x01, 0x02, 0x03, 0x04, 0x21, 0xff]);
    let tn = run.tier.pick(6, 8);
    let frame_ch = |p: &[u8], out: &mut Vec<u8>| {
        let body_len = 34 + p.len();
        out.extend([0x01, 0, (body_len >> 8) as u8, body_len as u8, 0x03, 0x03]);
        out.extend([0x11u8; 32]);
        out.extend_from_slice(p);
    };
    sink.merge(alpha_sweep(&run, &MSG_HANDSHAKE, &tail, tn, &frame_ch, &no_extra));
    let frame_sh = |p: &[u8], out: &mut Vec<u8>| {
        let body_len = 34 + p.len();
        out.extend([0x02, 0, (body_len >> 8) as u8, body_len as u8, 0x03, 0x03]);
        out.extend([0x22u8; 32]);
        out.extend_from_slice(p);
    };
    sink.merge(alpha_sweep(&run, &MSG_HANDSHAKE, &tail, tn, &frame_sh, &no_extra));
    let frame_body = |p: &[u8], out: &mut Vec<u8>| {
        out.extend([0x03, 0x03]);
        out.extend([0x33u8; 32]);
        out.extend_from_slice(p);
    };
    for t in [&B_CH, &B_SH] {
        sink.merge(alpha_sweep(&run, t, &tail, tn, &frame_body, &no_extra));
    }
    // certificate / certificate request / next protocol / status bodies: short strings directly
    let small = Alpha::uniform(&[0x00, 0x01, 0x02, 0x03, 0x04, 0x05, 0xff]);
    for t in [&B_CERT, &B_CREQ, &B_NP, &B_CST, &B_HRR, &B_KU, &B_NST] {
        sink.merge(alpha_sweep(&run, t, &small, run.tier.pick(7, 8), &identity_wrap, &no_extra));
    }

    // (6) the explicit `len` argument of the six (input, len) parsers over its boundary domain
    let lenfns = lenfns();
    let inputs: Vec<Vec<u8>> = (0..=9usize).map(|n| (0..n as u8).map(|x| x.wrapping_mul(37).wrapping_add(1)).collect()).chain([vec![0xab; 300]]).collect();
    for (name, vname, f) in &lenfns {
        for b in &inputs {
            let n = b.len();
            let mut lens = vec![0usize, 1, 3, 4, 5, n.saturating_sub(1), n, n + 1, (1 << 24) - 1, usize::MAX];
            lens.sort();
            lens.dedup();
            for &l in &lens {
                let g = f(b, l);
                let exp = lenarg_expect(vname, b, l);
                sink.case(fnv(fnv(l as u64, name.as_bytes()), b), true);
                sink.count(name, class_pair(&exp, &g));
                if let Some(w) = vcommon::v::disagree(&exp, &g) {
                    sink.violation(
                        format!("{} len={} {}", name, l, hexs(b)),
                        format!("{}({}, len={}): {}", name, hexshort(b), l, w),
                        json!({"kind":"lenarg","func":name,"input":hexs(b),"len":l.to_string()}),
                    );
                }
            }
        }
    }

    let names: Vec<&'static str> = all_targets().iter().map(|t| t.name).filter(|n| *n != "parse_tls_handshake_msg_hello_request").collect();
    require_both_outcomes(&run, &sink, &names);
    // every one of the 17 variants must have been produced by a well-formed encoding
    let mut cov = Map::new();
    cov.insert("exhaustive".into(), json!(true));
    cov.insert("catalogue_messages".into(), json!(nmsgs));
    cov.insert("one_dimensional_sweep_cases".into(), json!(nsweeps));
    cov.insert("entry_points".into(), json!(all_targets().iter().map(|t| t.name).collect::<Vec<_>>()));
    cov.insert("rule".into(), json!(format!(
        "struct: {} catalogue messages (17 variants over their boundary domains, 15 unknown types, all 256 type bytes, chains / DN lists / algorithm lists of 255..4000 elements) x every combination of <= {} deviations (each length field in {{0,1,true-1,true+1,max}}, every cut, 4 suffixes), at message level and - header stripped - through each of the 21 pub body parsers; every size of each variable-length field (opaque bodies and certificates to 70000, tickets, status blobs, DNs, extension blocks to 65535, 0..32767 cipher suites, 0..255 compressions; quick tier: the size set of sweep::sizes) with consistent enclosing lengths; complete sweeps of all 65536 versions / cipher ids, all 256 compression ids, session-id lengths, status types, key-update values, certificate types, bit patterns of the 32-bit lifetime; every string of length <= {} over a positional alphabet through parse_tls_message_handshake; hello frames with every tail of length <= {} over a 7-letter alphabet. Oracle: strict walker (Must / MustReject / Unspecified per DESIGN appendix D). Non-trivial: not cut inside the fixed header",
        nmsgs, d, n, tn)));
    // the same check against the crate built with all cargo features (std, serialize, unstable)
    let mut sink = sink;
    if run.tier == Tier::Thorough {
        run.all_features_variant(&mut sink);
    }
    let code = run.finish(
        &sink,
        cov,
        vec!["strict walkers per DESIGN appendix D; inputs the grammar leaves open (trailing bytes in a body, overshooting extension block, non-tiling inner lists) are Unspecified and not compared".into()],
    );
    std::process::exit(code);
}
