//! C02 — TLS record framing: header decode, length cap, streaming contract (E3 / E2-holes).
use serde_json::{json, Map};
use vchecks::sweep::*;
use vchecks::targets::*;
use vcommon::en::Alpha;
use vcommon::report::*;
use vcommon::v::{Got, Ref};

const CAP: usize = (1 << 14) + 256;

/// The 10-line reference framing, independent of payload content. Returns a violation text.
fn framing_oracle(t: &Target, b: &[u8], g: &Got) -> Option<String> {
    let n = b.len();
    if let Got::Panic(m) = g {
        return Some(format!("panic: {}", m));
    }
    if n < 5 {
        return match g {
            Got::Incomplete(_) => None,
            o => Some(format!("input of {} bytes (shorter than the header) answered {:?}, expected Incomplete", n, o)),
        };
    }
    let ty = b[0] as u64;
    let ver = u16::from_be_bytes([b[1], b[2]]) as u64;
    let len = u16::from_be_bytes([b[3], b[4]]) as usize;
    if len > CAP {
        return match g {
            Got::Error("TooLarge") => None,
            o => Some(format!("declared length {} exceeds the cap: answered {:?}, expected Error(TooLarge)", len, o)),
        };
    }
    if n < 5 + len {
        return match g {
            Got::Incomplete(Some(k)) if *k == 5 + len - n => None,
            o => Some(format!(
                "strict prefix ({} of {} bytes) answered {:?}, expected Incomplete(Size({}))",
                n,
                5 + len,
                o,
                5 + len - n
            )),
        };
    }
    // lengths up to the cap are always framed: TooLarge is never an answer here
    if matches!(g, Got::Error("TooLarge") | Got::Failure("TooLarge")) {
        return Some(format!("declared length {} is within the cap of {} but the record is refused with TooLarge", len, CAP));
    }
    // the whole record is present
    match g {
        Got::Incomplete(k) => Some(format!(
            "complete record (declared length {}, {} bytes available) answered Incomplete({:?})",
            len, n, k
        )),
        Got::Ok(v, c) => {
            if *c != 5 + len {
                return Some(format!("consumed {} bytes, the record is {} bytes", c, 5 + len));
            }
            // header fields of the returned value
            let hdr = match v {
                vcommon::v::V::N(_, f) => f.first().cloned(),
                _ => None,
            };
            let exp = vcommon::v::V::N(
                "Hdr",
                vec![
                    vcommon::v::V::U(ty),
                    vcommon::v::V::U(ver),
                    vcommon::v::V::U(len as u64),
                ],
            );
            if hdr.as_ref() != Some(&exp) {
                return Some(format!("header decoded as {:?}, expected {:?}", hdr, exp));
            }
            None
        }
        Got::Error(_) | Got::Failure(_) => {
            if t.name == "parse_tls_plaintext" || t.name == "tls_parser" {
                None // content errors are allowed (C03 decides which)
            } else {
                Some(format!("complete record rejected with {:?} by an envelope-only parser", g))
            }
        }
        o => Some(format!("{:?}", o)),
    }
}

fn one(t: &Target, b: &[u8], sink: &mut Sink) {
    // envelope-only parsers: full value check against the reference (payload by position);
    // parse_tls_plaintext: framing only, which messages come out of the payload is C03's business
    let g = if t.name == "parse_tls_plaintext" {
        let g = (t.run)(b);
        let r = (t.reference)(b);
        sink.case(fnv(fnv(0, t.name.as_bytes()), b), nontrivial(&r));
        sink.count(t.name, class_pair(&r, &g));
        g
    } else {
        check_case("C02", t, b, sink).0
    };
    if let Some(w) = framing_oracle(t, b, &g) {
        sink.violation(
            format!("{} {} framing", t.name, hexs(b)),
            format!("{}({}): {}", t.name, hexshort(b), w),
            json!({"kind":"parse","func":t.name,"input":hexs(b)}),
        );
    }
}

/// deterministic payload of a given length whose content is valid for the content type where
/// that is cheap (so that complete records reach the Ok path too)
fn payload_for(ty: u8, len: usize, out: &mut Vec<u8>) {
    match ty {
        0x14 => out.extend(std::iter::repeat(1u8).take(len)),
        0x16 => {
            // HelloRequests, then one opaque Finished absorbing the rest
            if len >= 4 {
                out.extend([0x14, ((len - 4) >> 16) as u8, ((len - 4) >> 8) as u8, (len - 4) as u8]);
                out.extend((0..len - 4).map(|i| (i % 251) as u8));
            } else {
                out.extend(std::iter::repeat(0u8).take(len));
            }
        }
        0x18 => {
            if len >= 3 {
                out.extend([1, ((len - 3) >> 8) as u8, (len - 3) as u8]);
                out.extend((0..len - 3).map(|i| (i % 251) as u8));
            } else {
                out.extend(std::iter::repeat(1u8).take(len));
            }
        }
        _ => out.extend((0..len).map(|i| (i % 253) as u8 ^ 0x5a)),
    }
}

fn main() {
    let run = Run::from_args("C02", "exploration");
    let targets: [&Target; 3] = [&PLAINTEXT, &ENCRYPTED, &RAW_RECORD];
    if let Some(v) = run.load_replay() {
        let all: Vec<&Target> = targets.to_vec();
        std::process::exit(replay_parse(&run, &all, &v["case"], &|t, b, s| {
            let g = (t.run)(b);
            if let Some(w) = framing_oracle(t, b, &g) {
                s.violation("framing".into(), w, json!({}));
            }
        }));
    }
    let thorough = run.tier == Tier::Thorough;
    let types_small: [u8; 8] = [0x00, 0x14, 0x15, 0x16, 0x17, 0x18, 0x19, 0xff];
    let boundary_lens: Vec<usize> = {
        let mut v: Vec<usize> = (0..=64).collect();
        v.extend([255, 256, 257, 1000, 4095, 4096, 16383, 16384, 16385, 16639, 16640]);
        v
    };
    // backing buffer: longest record + suffix
    let mut sink = Sink::new();

    // (A) all 256 types x all 65536 declared lengths for the envelope-only parsers, and all
    //     65536 lengths x 8 types for parse_tls_plaintext, at the characteristic cut points
    let sa = par_run(run.threads, 256, |ty, sink| {
        let ty = ty as u8;
        let mut buf: Vec<u8> = Vec::with_capacity(CAP + 16);
        let full_types: [u8; 12] = [0x00, 0x14, 0x15, 0x16, 0x17, 0x18, 0x19, 0xff, 0x01, 0x13, 0x1a, 0x80];
        let all_lens = thorough || full_types.contains(&ty);
        for len in 0..=65535usize {
            if !all_lens && !(len <= 300 || (16300..=16700).contains(&len) || len >= 65500 || len.is_power_of_two() || (len + 1).is_power_of_two()) {
                continue;
            }
            buf.clear();
            buf.extend([ty, 0x03, 0x03, (len >> 8) as u8, len as u8]);
            let have = len.min(CAP) + 8;
            payload_for(ty, len.min(CAP), &mut buf);
            buf.extend([0xee; 8]);
            debug_assert_eq!(buf.len(), 5 + have);
            let mut cuts: Vec<usize> = vec![0, 1, 2, 3, 4, 5, 6, 5 + len / 2, 5 + len.saturating_sub(1), 5 + len, 5 + len + 1, 5 + len + 7];
            cuts.retain(|&c| c <= buf.len());
            cuts.sort();
            cuts.dedup();
            let plain_types = types_small.contains(&ty);
            let boundary = len <= 64 || [255, 256, 257, 1000, 4095, 4096, 16383, 16384, 16385, 16639, 16640].contains(&len);
            for &c in &cuts {
                one(&ENCRYPTED, &buf[..c], sink);
                one(&RAW_RECORD, &buf[..c], sink);
                // plaintext: incomplete / too-large cases are O(1); complete records only at boundary lengths
                if plain_types && (c < 5 + len || len > CAP || boundary) {
                    one(&PLAINTEXT, &buf[..c], sink);
                }
            }
            if len == 5 && ty == 0x16 {
                sink.sample(2, || json!({"func":"parse_tls_raw_record","input":hexs(&buf[..10]),"note":"header sweep: type x declared length x cut"}));
            }
        }
    });
    sink.merge(sa);

    // (B) every prefix length 0..=5+len(+2) for the boundary lengths
    let items: Vec<(u8, usize)> = types_small
        .iter()
        .flat_map(|&t| boundary_lens.iter().map(move |&l| (t, l)))
        .filter(|&(_, l)| thorough || l <= 4096 || l >= 16383)
        .collect();
    let sb = par_run(run.threads, items.len(), |i, sink| {
        let (ty, len) = items[i];
        let mut buf = vec![ty, 0x03, 0x01, (len >> 8) as u8, len as u8];
        payload_for(ty, len, &mut buf);
        buf.extend([0x16, 0x03]);
        // dense near both ends, every 97th byte in the middle of long records (all of them in thorough)
        for c in 0..=buf.len() {
            let dense = c <= 80 || c + 80 >= buf.len() || thorough || c % 97 == 0;
            if !dense {
                continue;
            }
            for t in [&PLAINTEXT, &ENCRYPTED, &RAW_RECORD] {
                // complete long plaintext records are expensive only at c >= 5+len (3 cuts)
                one(t, &buf[..c], sink);
            }
        }
    });
    sink.merge(sb);

    // (C) all 65536 versions
    let sc = par_run(run.threads, 16, |k, sink| {
        for ver in (k * 4096)..((k + 1) * 4096) {
            let b = [0x17, (ver >> 8) as u8, ver as u8, 0x00, 0x03, 1, 2, 3, 0x99];
            for t in [&PLAINTEXT, &ENCRYPTED, &RAW_RECORD] {
                one(t, &b, sink);
                one(t, &b[..7], sink);
            }
        }
    });
    sink.merge(sc);

    // (D) complete records whose payload is every string over a type-specific alphabet: content
    //     parsers driven with lying inner lengths must never leak Incomplete
    let alphas: Vec<(u8, Alpha)> = vec![
        (0x14, Alpha::uniform(&[0x01, 0x00, 0x02])),
        (0x15, Alpha::uniform(&[0x01, 0x02, 0x00, 0xff])),
        (
            0x16,
            Alpha::new(
                &[&[0x00, 0x01, 0x02, 0x04, 0x0b, 0x0e, 0x16, 0x18, 0x43, 0xff], &[0x00, 0x01, 0xff], &[0x00, 0x01], &[0x00, 0x01, 0x02, 0x03, 0x04, 0x05, 0xff]],
                &[0x00, 0x01, 0x02, 0x03, 0xff],
            ),
        ),
        (0x17, Alpha::uniform(&[0x00, 0x17, 0xff])),
        (
            0x18,
            Alpha::new(&[&[0x01, 0x02, 0xff], &[0x00, 0x01, 0xff], &[0x00, 0x01, 0x02, 0x03, 0x04, 0x05, 0x09, 0xff]], &[0x00, 0xaa]),
        ),
        (0x19, Alpha::uniform(&[0x00, 0x01])),
    ];
    let maxn = run.tier.pick(7, 9);
    let mut shards: Vec<(u8, usize, Vec<u8>)> = Vec::new();
    for (ai, (ty, a)) in alphas.iter().enumerate() {
        for s in a.short(2) {
            shards.push((*ty, ai, s));
        }
    }
    let nshort = shards.len();
    for (ai, (ty, a)) in alphas.iter().enumerate() {
        for s in a.shards(2) {
            shards.push((*ty, ai, s));
        }
    }
    let sd = par_run(run.threads, shards.len(), |i, sink| {
        let (ty, ai, ref prefix) = shards[i];
        let a = &alphas[ai].1;
        let mut rec: Vec<u8> = Vec::with_capacity(32);
        let mut f = |p: &[u8]| {
            rec.clear();
            rec.extend([ty, 0x03, 0x03, 0x00, p.len() as u8]);
            rec.extend_from_slice(p);
            one(&PLAINTEXT, &rec, sink);
            // the same bytes as a strict prefix of a longer record: whatever the available part of the
            // payload looks like (whole messages of any type included), the answer is the missing byte count
            for k in [1usize, 4, 300] {
                let l = p.len() + k;
                rec[3] = (l >> 8) as u8;
                rec[4] = l as u8;
                one(&PLAINTEXT, &rec, sink);
            }
        };
        if i < nshort {
            f(prefix);
        } else {
            a.visit(prefix, maxn, &mut f);
        }
    });
    sink.merge(sd);
    sink.sample(8, || json!({"func":"parse_tls_plaintext","input":"1803030005010009010 2".replace(' ', ""),"note":"payload sweep: complete record, inner length lies"}));

    // (H) truncated records that begin with a whole first message of every one of the 256 handshake types
    //     (heartbeat types, alert levels) x body sizes 0..4 x 3 body patterns, followed by a second message
    let sh = par_run(run.threads, 256, |t0, sink| {
        for ty in [0x16u8, 0x18, 0x15, 0x14, 0x17] {
            for n in 0..=4usize {
                for pat in [0x00u8, 0x03, 0xff] {
                    let mut p: Vec<u8> = match ty {
                        0x16 => vec![t0 as u8, 0, 0, n as u8],
                        0x18 => vec![t0 as u8, 0, n as u8],
                        _ => vec![t0 as u8],
                    };
                    p.extend(std::iter::repeat(pat).take(n));
                    p.extend([0x0e, 0, 0, 0, 0x01, 0, 0]);
                    for k in [1usize, 2, 7, 16384 - p.len()] {
                        let l = p.len() + k;
                        let mut rec = vec![ty, 0x03, 0x03, (l >> 8) as u8, l as u8];
                        rec.extend_from_slice(&p);
                        one(&PLAINTEXT, &rec, sink);
                        one(&RAW_RECORD, &rec, sink);
                    }
                }
            }
        }
    });
    sink.merge(sh);

    // (I) complete records (and the same with trailing bytes) whose payload is a prefix of a long message stream:
    //     whole messages followed by a cut message at every record size incl. exactly 2^14 and the cap
    {
        let streams = vcommon::catalogue::message_streams();
        let cuts = vcommon::catalogue::stream_cuts(thorough);
        let items: Vec<(usize, usize)> = (0..streams.len()).flat_map(|s| (0..cuts.len()).map(move |c| (s, c))).collect();
        let si = par_run(run.threads, items.len().div_ceil(64), |chunk, sink| {
            for &(si, ci) in items.iter().skip(chunk * 64).take(64) {
                let (ty, ref s) = streams[si];
                let n = cuts[ci];
                let mut b = vec![ty, 0x03, 0x03, (n >> 8) as u8, n as u8];
                b.extend_from_slice(&s[..n]);
                b.extend([0x16, 0x03, 0x03]);
                for e in [b.len() - 3, b.len(), b.len() - 4] {
                    one(&PLAINTEXT, &b[..e], sink);
                }
            }
        });
        sink.merge(si);
    }

    // (J) what follows a record is another record: every kind of small record (each content type, characteristic payloads)
    //     followed by every kind, the follower complete / cut inside its header / cut inside its payload; the framers
    //     answer for the first record only
    {
        let mut kinds: Vec<Vec<u8>> = Vec::new();
        for ty in [0x14u8, 0x15, 0x16, 0x17, 0x18, 0x19, 0x00, 0xff] {
            for p in [&[][..], &[0x01][..], &[0x01, 0x00][..], &[0x00, 0x00, 0x00, 0x00][..], &[0x0e, 0, 0, 0, 0x0e, 0, 0, 0][..], &[0x02, 0x28][..], &[0x01, 0x00, 0x01, 0xaa, 0, 0][..]] {
                for ver in [0x0303u16, 0x0301] {
                    let mut r = vec![ty, (ver >> 8) as u8, ver as u8, 0, p.len() as u8];
                    r.extend_from_slice(p);
                    kinds.push(r);
                }
            }
        }
        let nk = kinds.len();
        let sj = par_run(run.threads, nk, |a, sink| {
            for b in 0..nk {
                let mut buf = kinds[a].clone();
                buf.extend_from_slice(&kinds[b]);
                let l = kinds[a].len();
                for e in [buf.len(), l + 5, l + 4, l + 1, (l + 6).min(buf.len())] {
                    for t in [&PLAINTEXT, &ENCRYPTED, &RAW_RECORD] {
                        one(t, &buf[..e], sink);
                    }
                }
            }
        });
        sink.merge(sj);
        sink.bump("record-pair inputs", (nk * nk) as u64);
    }

    // (K) a record whose content has a meaning for what follows (every alert description at both levels, ChangeCipherSpec, an empty
    //     application-data record) followed by a handshake record whose first message is of each of the 256 types: the framers
    //     still answer for the first record only
    {
        let sk = par_run(run.threads, 256, |desc, sink| {
            let mut firsts: Vec<Vec<u8>> = vec![vec![0x15, 3, 3, 0, 2, 1, desc as u8], vec![0x15, 3, 3, 0, 2, 2, desc as u8]];
            if desc < 4 {
                firsts.push(vec![0x14, 3, 3, 0, 1, desc as u8]);
                firsts.push(vec![0x17, 3, 3, 0, desc as u8, 9, 9, 9][..5 + desc].to_vec());
            }
            for f in &firsts {
                for ty in 0..=255u8 {
                    for body in [&[][..], &[3, 3, 0x20, 0x21][..]] {
                        let mut b = f.clone();
                        b.extend([0x16, 3, 3, 0, (4 + body.len()) as u8, ty, 0, 0, body.len() as u8]);
                        b.extend_from_slice(body);
                        for e in [b.len(), b.len() - 1, f.len() + 6] {
                            one(&PLAINTEXT, &b[..e], sink);
                            one(&ENCRYPTED, &b[..e], sink);
                        }
                    }
                }
            }
        });
        sink.merge(sk);
    }

    // (L) opaque records (application data, unknown types) whose payload is shaped like a TLS 1.3 inner plaintext: a whole
    //     handshake message / alert, a content-type byte, zero padding. The header that comes back is the wire header.
    {
        let mut inner: Vec<Vec<u8>> = vcommon::catalogue::small_handshake_messages().into_iter().map(|w| w.buf).filter(|b| b.len() <= 200).collect();
        inner.extend(vcommon::catalogue::tls13_messages().into_iter().map(|w| w.buf).filter(|b| b.len() <= 200));
        inner.push(vec![1, 0]);
        inner.push(vec![2, 40]);
        let sl = par_run(run.threads, inner.len(), |i, sink| {
            for ty in [0x17u8, 0x19, 0x00] {
                for ver in [0x0303u16, 0x0301, 0x0304] {
                    for ct in [0x16u8, 0x15, 0x17, 0x14, 0x18] {
                        for pad in 0..=2usize {
                            let mut p = inner[i].clone();
                            p.push(ct);
                            p.extend(std::iter::repeat(0u8).take(pad));
                            let mut b = vec![ty, (ver >> 8) as u8, ver as u8, (p.len() >> 8) as u8, p.len() as u8];
                            b.extend_from_slice(&p);
                            b.extend([0x17, 0x03]);
                            for e in [b.len() - 2, b.len(), b.len() - 3] {
                                for t in [&PLAINTEXT, &ENCRYPTED, &RAW_RECORD] {
                                    one(t, &b[..e], sink);
                                }
                            }
                        }
                    }
                }
            }
        });
        sink.merge(sl);
    }

    // (F) the cap does not depend on the version: all 65536 versions x lengths around the cap
    let sf = par_run(run.threads, 256, |k, sink| {
        let mut buf = vec![0u8; 5 + 64];
        for lo in 0..256usize {
            for len in [16384usize, 16385, 16639, 16640, 16641, 16642, 18432, 32768, 65535] {
                for ty in [0x16u8, 0x17] {
                    buf[0] = ty;
                    buf[1] = k as u8;
                    buf[2] = lo as u8;
                    buf[3] = (len >> 8) as u8;
                    buf[4] = len as u8;
                    for t in [&PLAINTEXT, &ENCRYPTED, &RAW_RECORD] {
                        one(t, &buf, sink);
                        one(t, &buf[..5], sink);
                    }
                }
            }
        }
    });
    sink.merge(sf);

    // (G) what real traffic puts where a record is expected: SSLv2-compatible ClientHellos in all length
    //     shapes and the openings of other protocols; the framing contract holds for them like for any bytes
    let foreign = vcommon::catalogue::foreign_protocols();
    let nforeign = foreign.len();
    let sg = par_run(run.threads, foreign.len(), |i, sink| {
        let b = &foreign[i];
        let len = if b.len() >= 5 { ((b[3] as usize) << 8) | b[4] as usize } else { 0 };
        let mut cuts: Vec<usize> = (0..=40.min(b.len())).collect();
        for c in [5 + len / 2, (5 + len).saturating_sub(1), 5 + len, 5 + len + 1, b.len()] {
            if c <= b.len() {
                cuts.push(c);
            }
        }
        for c in cuts {
            for t in [&PLAINTEXT, &ENCRYPTED, &RAW_RECORD] {
                one(t, &b[..c], sink);
            }
        }
    });
    sink.merge(sg);
    sink.bump("foreign-protocol inputs", nforeign as u64);

    // (E) "all trailing bytes": records inside buffers whose total size crosses the 16-bit, 17-bit and
    //     20-bit boundaries (a length computed in a narrower integer type shows only here)
    let big_lens: Vec<usize> = vec![0, 1, 5, 100, 255, 256, 16384, 16640];
    let mut big_items: Vec<(u8, usize, usize)> = Vec::new();
    for &ty in &[0x16u8, 0x17, 0x14, 0xff] {
        for &len in &big_lens {
            let mut totals: Vec<usize> = Vec::new();
            for base in [1usize << 16, 1 << 17, 1 << 20] {
                for d in [-6i64, -5, -4, -1, 0, 1, 4, 5, 6] {
                    totals.push((base as i64 + d) as usize);
                    totals.push((base as i64 + d) as usize + len);
                    totals.push((base as i64 + d) as usize + len + 5);
                }
            }
            totals.push(70000);
            totals.push(65535 + 5 + len);
            totals.sort();
            totals.dedup();
            for t in totals {
                if t >= 5 + len && (thorough || t < (1 << 20) - 10 || len <= 100) {
                    big_items.push((ty, len, t));
                }
            }
        }
    }
    let se = par_run(run.threads, big_items.len(), |i, sink| {
        let (ty, len, total) = big_items[i];
        let mut buf = vec![ty, 0x03, 0x03, (len >> 8) as u8, len as u8];
        payload_for(ty, len, &mut buf);
        buf.resize(total, 0xee);
        for t in [&PLAINTEXT, &ENCRYPTED, &RAW_RECORD] {
            one(t, &buf, sink);
        }
        // and the same buffer cut inside the record
        if len > 0 {
            for t in [&PLAINTEXT, &ENCRYPTED, &RAW_RECORD] {
                one(t, &buf[..5 + len - 1], sink);
            }
        }
    });
    sink.merge(se);

    require_both_outcomes(&run, &sink, &["parse_tls_plaintext", "parse_tls_encrypted", "parse_tls_raw_record"]);
    let mut cov = Map::new();
    cov.insert("exhaustive".into(), json!(true));
    cov.insert("rule".into(), json!(format!(
        "(A) all 256 content types x all 65536 declared lengths (quick tier: 12 types with all lengths, the other 244 types with ~800 boundary lengths) at cut points {{0..6, 5+len/2, 5+len-1, 5+len, 5+len+1, 5+len+7}} for parse_tls_encrypted / parse_tls_raw_record; the same for parse_tls_plaintext on 8 content types (complete records only at 76 boundary lengths); (B) every prefix of records of the boundary lengths (middle of long records every 97th byte in quick); (C) all 65536 versions; (D) complete records whose payload is every string of length <= {} over a per-type positional alphabet; (D') each of those payloads also as the available part of a longer record (1, 4 and 300 bytes missing); (H) truncated records beginning with a whole first message of each of the 256 handshake / heartbeat / alert type bytes x 5 body sizes x 3 patterns followed by a second message, 4 missing-byte counts; (I) records whose payload is every prefix length (dense to 700 [2200], around 2^14 and the cap, sparse between) of 25 long message streams, complete / with trailing bytes / one byte short; (J) every ordered pair of 112 small records (8 content types x 7 payloads x 2 versions), the second complete / cut in its header / cut in its payload; (K) every alert (2 levels x 256 descriptions), ChangeCipherSpec and small application-data records followed by a handshake record whose first message is of each of the 256 types (complete / cut); (G) SSLv2-compatible ClientHellos (5 versions x 6 cipher-spec lengths x 2 session-id lengths x 3 challenge lengths) and the openings of 10 other protocols, at 45 cut points each; (F) all 65536 versions x 9 declared lengths around the cap x 2 types (truncated buffers); (E) records of 8 lengths x 4 types followed by trailing data such that the buffer size crosses 2^16, 2^17 and 2^20 (+-6 bytes, with and without the record length). Oracle: reference framing (Incomplete iff strict prefix with exact Needed, TooLarge above 2^14+256, exact consumption, header fields, payload and remainder by position) plus the strict record walker. Non-trivial: everything but inputs cut inside the 5-byte header", maxn)));
    // the same check against the crate built with all cargo features (std, serialize, unstable)
    let mut sink = sink;
    if run.tier == Tier::Thorough {
        run.all_features_variant(&mut sink);
    }
    let code = run.finish(
        &sink,
        cov,
        vec!["payload bytes are deterministic patterns; content-level decoding is judged by C03".into()],
    );
    std::process::exit(code);
}
