//! C17 — registry constants, names and integer conversions: complete sweep (E3) of the domain of
//! each of the 18 registry newtypes plus the cipher-suite id type.
use serde_json::{json, Map};
use std::collections::{BTreeMap, BTreeSet};
use tls_parser::*;
use vchecks::registries::*;
use vcommon::iso::guarded;
use vcommon::reference::iana;
use vcommon::report::*;

struct Cx {
    regs: Vec<RegAdapter>,
    /// constants present in the crate's sources but unknown to the adapter, per type
    unknown_src: BTreeMap<String, BTreeSet<String>>,
    cipher_names: BTreeMap<u16, String>,
}

fn load_cipher_names() -> BTreeMap<u16, String> {
    let mut m = BTreeMap::new();
    if let Ok(s) = std::fs::read_to_string("/repo/scripts/tls-ciphersuites.txt") {
        for l in s.lines() {
            let f: Vec<&str> = l.split(':').collect();
            if f.len() >= 2 {
                if let Ok(id) = u16::from_str_radix(f[0], 16) {
                    m.insert(id, f[1].to_string());
                }
            }
        }
    }
    m
}

/// all checks for one (type index, value); returns violations as (aspect, message)
fn check_value(cx: &Cx, ti: usize, x: u64) -> Vec<(String, String)> {
    let r = &cx.regs[ti];
    let ty = r.reg.ty;
    let mut out = Vec::new();
    let expected = r.reg.name_of(x);
    let dec = format!("{}", x);
    let known_names: Vec<&str> = r.reg.names.iter().map(|(n, _)| *n).collect();
    let named_fmt = |aspect: &str, text: String| -> Option<(String, String)> {
        match expected {
            Some(n) => {
                if text != n {
                    return Some((
                        aspect.to_string(),
                        format!("{} of {}({}) is {:?}, the registry name is {:?}", aspect, ty, x, text, n),
                    ));
                }
            }
            None => {
                let is_unknown_src_name = cx.unknown_src.get(ty).map_or(false, |s| s.contains(&text));
                if is_unknown_src_name {
                    // a constant added after this harness was written: judged against the further
                    // IANA assignments if either its value or its name is known there
                    let n = iana::norm_name(&text);
                    let by_value = iana::EXTRA_ASSIGNMENTS.iter().find(|(t, v, _)| *t == ty && *v == x);
                    let by_name = iana::EXTRA_ASSIGNMENTS.iter().find(|(t, _, nm)| *t == ty && iana::norm_name(nm) == n);
                    if let Some((_, _, nm)) = by_value {
                        if iana::norm_name(nm) != n {
                            return Some((aspect.to_string(), format!("{} of {}({}) is {:?}, but IANA assigns that value to {}", aspect, ty, x, text, nm)));
                        }
                    }
                    if let Some((_, v, _)) = by_name {
                        if *v != x {
                            return Some((aspect.to_string(), format!("{} of {}({}) is {:?}, but IANA assigns {} the value {}", aspect, ty, x, text, text, v)));
                        }
                    }
                    return None; // otherwise not judged (reported in the evidence)
                }
                if known_names.contains(&text.as_str()) || !text.contains(&dec) {
                    return Some((
                        aspect.to_string(),
                        format!(
                            "{} of unassigned {}({}) is {:?}: expected a numeric fallback containing the value",
                            aspect, ty, x, text
                        ),
                    ));
                }
            }
        }
        None
    };
    match r.display.0 {
        Fmt::Named => match guarded(|| (r.display.1)(x)) {
            Ok(t) => out.extend(named_fmt("Display", t)),
            Err(p) => out.push(("Display".into(), format!("Display of {}({}) panics: {}", ty, x, p))),
        },
        _ => {}
    }
    match r.debug.0 {
        Fmt::Named => match guarded(|| (r.debug.1)(x)) {
            Ok(t) => out.extend(named_fmt("Debug", t)),
            Err(p) => out.push(("Debug".into(), format!("Debug of {}({}) panics: {}", ty, x, p))),
        },
        Fmt::Derived => match guarded(|| (r.debug.1)(x)) {
            Ok(t) => {
                if !t.contains(&dec) {
                    out.push(("Debug".into(), format!("Debug of {}({}) is {:?}: value missing", ty, x, t)));
                }
            }
            Err(p) => out.push(("Debug".into(), format!("Debug of {}({}) panics: {}", ty, x, p))),
        },
        Fmt::Absent => {}
    }
    // formatter flags (width, alignment, alternate) must not change which name / number is printed
    if r.display.0 == Fmt::Named {
        if let Ok(plain) = guarded(|| (r.display.1)(x)) {
            if let Some(f) = r.display_flags {
                for (flag, t) in f(x) {
                    if t.trim() != plain.trim() {
                        out.push((format!("Display {}", flag), format!("Display of {}({}) with {} prints {:?}, plain Display prints {:?}", ty, x, flag, t, plain)));
                    }
                }
            }
        }
    }
    // conversions that exist for this type
    let mut late: Vec<(String, String)> = Vec::new();
    let mut conv = |name: &str, got: u64| {
        if got != x {
            out.push((name.to_string(), format!("{} of {}({}) gives {}", name, ty, x, got)));
        }
    };
    match ty {
        "TlsRecordType" => conv("u8::from", u8::from(TlsRecordType(x as u8)) as u64),
        "TlsHandshakeType" => conv("u8::from", u8::from(TlsHandshakeType(x as u8)) as u64),
        "TlsHeartbeatMessageType" => conv("u8::from", u8::from(TlsHeartbeatMessageType(x as u8)) as u64),
        "TlsCompressionID" => {
            let c = TlsCompressionID(x as u8);
            conv("u8::from", u8::from(c) as u64);
            conv("Deref", *c as u64);
            conv("to_be_bytes", c.to_be_bytes()[0] as u64);
            let a: &u8 = c.as_ref();
            conv("AsRef", *a as u64);
        }
        "TlsVersion" => {
            let v = TlsVersion(x as u16);
            // formatter flags must not change the number that is printed
            for (flag, h) in [("{:#x}", format!("{:#x}", v)), ("{:06x}", format!("{:06x}", v)), ("{:#06x}", format!("{:#06x}", v)), ("{:>8x}", format!("{:>8x}", v)), ("{:<8x}", format!("{:<8x}", v))] {
                let t = h.trim().trim_start_matches("0x");
                if u64::from_str_radix(t, 16).ok() != Some(x) {
                    late.push((format!("LowerHex {}", flag), format!("{} of TlsVersion({:#06x}) prints {:?}", flag, x, h)));
                }
            }
            conv("u16::from", u16::from(v) as u64);
            conv("to_be_bytes", u16::from_be_bytes(v.to_be_bytes()) as u64);
            let h = format!("{:x}", v);
            conv("LowerHex", u64::from_str_radix(&h, 16).unwrap_or(u64::MAX));
            if h != format!("{:x}", x) {
                out.push(("LowerHex".into(), format!("LowerHex of TlsVersion({}) is {:?}", x, h)));
            }
        }
        "TlsExtensionType" => {
            conv("from_u16", TlsExtensionType::from_u16(x as u16).0 as u64);
            conv("u16::from", u16::from(TlsExtensionType(x as u16)) as u64);
        }
        "SignatureScheme" => {
            let s = SignatureScheme(x as u16);
            if s.hash_alg() as u64 != x >> 8 {
                out.push(("hash_alg".into(), format!("SignatureScheme({:#06x}).hash_alg() = {}", x, s.hash_alg())));
            }
            if s.sign_alg() as u64 != x & 0xff {
                out.push(("sign_alg".into(), format!("SignatureScheme({:#06x}).sign_alg() = {}", x, s.sign_alg())));
            }
            let res = (0xfe00..=0xfeff).contains(&x);
            if s.is_reserved() != res {
                out.push((
                    "is_reserved".into(),
                    format!("SignatureScheme({:#06x}).is_reserved() = {}", x, s.is_reserved()),
                ));
            }
        }
        "NamedGroup" => {
            let got = NamedGroup(x as u16).key_bits();
            match iana::NAMED_GROUPS.iter().find(|(_, v, _)| *v == x) {
                Some((n, _, Some(bits))) => {
                    if got != Some(*bits) {
                        out.push((
                            "key_bits".into(),
                            format!("NamedGroup::{}.key_bits() = {:?}, the name states {} bits", n, got, bits),
                        ));
                    }
                }
                Some((_, _, None)) => {}
                None => {
                    if !iana::REGISTERED_GROUPS.contains(&x) && got.is_some() {
                        out.push((
                            "key_bits".into(),
                            format!("NamedGroup({}).key_bits() = {:?} for an unregistered group", x, got),
                        ));
                    }
                }
            }
        }
        _ => {}
    }
    out.extend(late);
    out
}

fn check_cipher_id(cx: &Cx, x: u16) -> Vec<(String, String)> {
    let mut out = Vec::new();
    let c = TlsCipherSuiteID(x);
    if c.to_be_bytes() != x.to_be_bytes() {
        out.push(("to_be_bytes".into(), format!("TlsCipherSuiteID({:#06x}).to_be_bytes() = {:?}", x, c.to_be_bytes())));
    }
    if u16::from(c) != x || *c != x || *AsRef::<u16>::as_ref(&c) != x {
        out.push(("conv".into(), format!("TlsCipherSuiteID({}) conversions are not the identity", x)));
    }
    if format!("{}", c) != format!("{}", x) {
        out.push(("Display".into(), format!("Display of TlsCipherSuiteID({}) is {:?}", x, format!("{}", c))));
    }
    for (flag, h) in [("{:#x}", format!("{:#x}", c)), ("{:06x}", format!("{:06x}", c)), ("{:#06x}", format!("{:#06x}", c)), ("{:>8x}", format!("{:>8x}", c)), ("{:<8x}", format!("{:<8x}", c)), ("{:.1x}", format!("{:.1x}", c)), ("{:8.2x}", format!("{:8.2x}", c)), ("{:#.0x}", format!("{:#.0x}", c))] {
        let t = h.trim().trim_start_matches("0x");
        if u16::from_str_radix(t, 16).ok() != Some(x) {
            out.push((format!("LowerHex {}", flag), format!("{} of TlsCipherSuiteID({:#06x}) prints {:?}", flag, x, h)));
        }
    }
    for (flag, d) in [
        ("{:>8}", format!("{:>8}", c)),
        ("{:08}", format!("{:08}", c)),
        ("{:<8}", format!("{:<8}", c)),
        ("{:+}", format!("{:+}", c)),
        // a precision never shortens an integer
        ("{:.0}", format!("{:.0}", c)),
        ("{:.2}", format!("{:.2}", c)),
        ("{:8.3}", format!("{:8.3}", c)),
        ("{:<08.1}", format!("{:<08.1}", c)),
        ("{:^12.4}", format!("{:^12.4}", c)),
        ("{:+.1}", format!("{:+.1}", c)),
    ] {
        if d.trim().trim_start_matches('+').parse::<u32>().ok() != Some(x as u32) {
            out.push((format!("Display {}", flag), format!("{} of TlsCipherSuiteID({}) prints {:?}", flag, x, d)));
        }
    }
    if format!("{:x}", c) != format!("{:x}", x) {
        out.push(("LowerHex".into(), format!("LowerHex of TlsCipherSuiteID({}) is {:?}", x, format!("{:x}", c))));
    }
    match guarded(|| format!("{:?}", c)) {
        Ok(d) => {
            let okhex = d.contains(&format!("{:04x}", x));
            let okname = match cx.cipher_names.get(&x) {
                Some(n) => d.contains(n.as_str()),
                None => !cx.cipher_names.values().any(|n| d.contains(n.as_str())),
            };
            if !okhex || !okname {
                out.push(("Debug".into(), format!("Debug of TlsCipherSuiteID({:#06x}) is {:?}", x, d)));
            }
        }
        Err(p) => out.push(("Debug".into(), format!("Debug of TlsCipherSuiteID({}) panics: {}", x, p))),
    }
    out
}

fn check_consts(cx: &Cx, sink: &mut Sink) {
    for r in &cx.regs {
        for (name, got) in &r.consts {
            sink.evals += 1;
            match r.reg.value_of(name) {
                None => machinery_failure("C17", &format!("no registry entry for {}::{}", r.reg.ty, name)),
                Some(v) => {
                    sink.count("constants", if v == *got { "equal" } else { "different" });
                    if v != *got {
                        sink.violation(
                            format!("const {}::{}", r.reg.ty, name),
                            format!("{}::{} = {} but the registry assigns {}", r.reg.ty, name, got, v),
                            json!({"kind":"const","type":r.reg.ty,"name":name}),
                        );
                    }
                }
            }
        }
    }
}

fn build_cx() -> Cx {
    let regs = all();
    let mut unknown_src: BTreeMap<String, BTreeSet<String>> = BTreeMap::new();
    for (ty, name) in scan_source_constants() {
        if let Some(r) = regs.iter().find(|r| r.reg.ty == ty) {
            if !r.consts.iter().any(|(n, _)| *n == name) {
                unknown_src.entry(ty).or_default().insert(name);
            }
        }
    }
    Cx {
        regs,
        unknown_src,
        cipher_names: load_cipher_names(),
    }
}

/// Constants of the registry types that this check does not reference by name (added after it was written, or
/// declared as aliases in a plain impl block): their values are read through a generated probe built against
/// /repo and judged by name - a constant whose name (ignoring case, underscores and a _RESERVED suffix) is a
/// name of the registry tables / the official IANA names must have that name's value; other names are listed
/// in the evidence and not judged.
fn check_unlisted_consts(cx: &Cx, sink: &mut Sink) -> (usize, Vec<String>) {
    use std::process::Command;
    let mut cands: Vec<(String, String)> = Vec::new();
    let types: Vec<&str> = cx.regs.iter().map(|r| r.reg.ty).collect();
    for (ty, name) in scan_source_constants().into_iter().chain(vchecks::registries::scan_impl_constants()) {
        if let Some(r) = cx.regs.iter().find(|r| r.reg.ty == ty) {
            if !r.consts.iter().any(|(n, _)| *n == name) && !cands.contains(&(ty.clone(), name.clone())) {
                cands.push((ty, name));
            }
        }
    }
    let _ = types;
    let splits = vchecks::registries::scan_split_methods();
    if cands.is_empty() && splits.is_empty() {
        return (0, Vec::new());
    }
    let gen_dir = "/verif/target/c17";
    let _ = std::fs::create_dir_all(gen_dir);
    let gen = format!("{}/consts_gen.rs", gen_dir);
    let mut src = String::from("{\n");
    for (ty, name) in &cands {
        src.push_str(&format!("    println!(\"CONST {ty} {name} {{}}\", {ty}::{name}.0 as u64);\n"));
    }
    // typed accessors of SignatureScheme: over all 65536 values, a HashAlgorithm result is the high byte, a SignAlgorithm the low byte
    for (m, ret) in &splits {
        let expect = if ret == "HashAlgorithm" { "(x >> 8) as u8" } else { "x as u8" };
        src.push_str(&format!(
            "    {{ let mut bad = 0u32; let mut first = 0u32; for x in 0..=65535u32 {{ let got = SignatureScheme(x as u16).{m}().0; if got != {expect} {{ if bad == 0 {{ first = x; }} bad += 1; }} }} println!(\"SPLIT {m} {ret} {{}} {{}}\", bad, first); }}\n"
        ));
    }
    src.push_str("}\n");
    if std::fs::read_to_string(&gen).ok().as_deref() != Some(&src) {
        if std::fs::write(&gen, &src).is_err() {
            machinery_failure("C17", "cannot write the generated constant list");
        }
    }
    let b = Command::new("cargo")
        .args(["build", "--offline", "--target-dir", "/verif/target/c17/consts"])
        .current_dir("/verif/probes/consts")
        .env("CARGO_NET_OFFLINE", "true")
        .env("CONSTS_GEN", &gen)
        .env_remove("RUSTFLAGS")
        .output();
    let built = matches!(&b, Ok(o) if o.status.success());
    let mut unjudged: Vec<String> = Vec::new();
    if !built {
        // e.g. a constant behind a cfg, or not public: nothing can be said about these names
        return (0, cands.iter().map(|(t, n)| format!("{}::{} (probe does not build)", t, n)).collect());
    }
    let out = match Command::new("/verif/target/c17/consts/debug/consts-probe").output() {
        Ok(o) if o.status.success() => String::from_utf8_lossy(&o.stdout).to_string(),
        _ => machinery_failure("C17", "the constants probe did not run"),
    };
    let strip = |s: &str| -> String {
        let n = iana::norm_name(s);
        n.strip_suffix("reserved").map(|x| x.to_string()).unwrap_or(n)
    };
    let mut judged = 0;
    for l in out.lines() {
        let f: Vec<&str> = l.split_whitespace().collect();
        if f.len() == 5 && f[0] == "SPLIT" {
            sink.evals += 65536;
            judged += 1;
            let (bad, first) = (f[3].parse::<u64>().unwrap_or(0), f[4].parse::<u64>().unwrap_or(0));
            sink.count("typed accessors of SignatureScheme", if bad == 0 { "split correctly" } else { "WRONG" });
            if bad != 0 {
                sink.violation(
                    format!("split SignatureScheme::{}", f[1]),
                    format!("SignatureScheme::{}() returns a {} that is not the {} byte for {} of the 65536 values (first: {:#06x})", f[1], f[2], if f[2] == "HashAlgorithm" { "high" } else { "low" }, bad, first),
                    json!({"kind":"unlisted-const","type":"SignatureScheme","name":f[1]}),
                );
            }
        }
    }
    let found: Vec<(String, String, u64)> = out
        .lines()
        .filter_map(|l| {
            let f: Vec<&str> = l.split_whitespace().collect();
            (f.len() == 4 && f[0] == "CONST").then(|| (f[1].to_string(), f[2].to_string(), f[3].parse::<u64>().unwrap_or(u64::MAX)))
        })
        .collect();
    // "the Display / Debug text is that constant's name if one is defined": a constant declared anywhere defines a name
    // for its value, so the text of that value must be the name of a constant with this value
    for (ty, name, val) in &found {
        let r = cx.regs.iter().find(|r| r.reg.ty == ty).unwrap();
        if *val >> r.reg.bits != 0 {
            continue;
        }
        let names: Vec<&str> = found.iter().filter(|(t, _, v)| t == ty && v == val).map(|(_, n, _)| n.as_str()).chain(r.consts.iter().filter(|(_, v)| v == val).map(|(n, _)| *n)).collect();
        for (what, fmt) in [("Display", &r.display), ("Debug", &r.debug)] {
            if fmt.0 != Fmt::Named {
                continue;
            }
            sink.evals += 1;
            match guarded(|| (fmt.1)(*val)) {
                Ok(t) => {
                    if !names.iter().any(|n| *n == t) {
                        sink.violation(
                            format!("const {}::{}", ty, name),
                            format!("{} of {}({}) is {:?} although the constant {}::{} is defined for that value", what, ty, val, t, ty, name),
                            json!({"kind":"unlisted-const","type":ty,"name":name}),
                        );
                    }
                }
                Err(p) => sink.violation(format!("const {}::{}", ty, name), format!("{} of {}({}) panics: {}", what, ty, val, p), json!({"kind":"unlisted-const","type":ty,"name":name})),
            }
        }
    }
    for (ty, name, val) in &found {
        let (ty, name, val) = (ty.as_str(), name.as_str(), *val);
        let n = strip(name);
        let r = cx.regs.iter().find(|r| r.reg.ty == ty).unwrap();
        let mut expected: Vec<(u64, String)> = Vec::new();
        for (cn, v) in r.reg.names {
            if strip(cn) == n {
                expected.push((*v, cn.to_string()));
            }
        }
        for (t, v, on) in iana::OFFICIAL_NAMES.iter().chain(iana::EXTRA_ASSIGNMENTS.iter()) {
            if *t == ty && strip(on) == n {
                expected.push((*v, on.to_string()));
            }
        }
        sink.evals += 1;
        if expected.is_empty() {
            unjudged.push(format!("{}::{} = {}", ty, name, val));
            continue;
        }
        judged += 1;
        sink.count("constants not referenced by name", if expected.iter().any(|(v, _)| *v == val) { "equal" } else { "different" });
        if !expected.iter().any(|(v, _)| *v == val) {
            sink.violation(
                format!("const {}::{}", ty, name),
                format!("{}::{} = {} but the registry assigns {} to {}", ty, name, val, expected[0].0, expected[0].1),
                json!({"kind":"unlisted-const","type":ty,"name":name}),
            );
        }
    }
    (judged, unjudged)
}

/// conversions of a SignatureScheme into the (hash, signature) pair type, discovered from the source: whatever they are
/// called, the hash is the high byte and the signature the low byte
fn check_scheme_conversions(sink: &mut Sink) {
    let conv: Vec<(bool, String)> = vchecks::genprobe::scheme_conversions().into_iter().filter(|c| c.1 == "SignatureAndHashAlgorithm").collect();
    if !conv.is_empty() {
        let mut body = String::from("{\n");
        for (by_ref, t) in &conv {
            let expr = if *by_ref { "(&s).into()" } else { "s.into()" };
            body.push_str(&format!("    {{ let mut bad = 0u32; let mut first = 0u32; for x in 0..=65535u32 {{ let s = SignatureScheme(x as u16); let v: {t} = {expr}; if v.hash.0 != (x >> 8) as u8 || v.sign.0 != x as u8 {{ if bad == 0 {{ first = x; }} bad += 1; }} }} println!(\"CONV {t} {by_ref} {{}} {{}}\", bad, first); }}\n"));
        }
        body.push_str("}\n");
        match vchecks::genprobe::run_generated("c17conv", &body) {
            Some(out) => {
                for l in out.lines() {
                    let f: Vec<&str> = l.split_whitespace().collect();
                    if f.len() == 5 && f[0] == "CONV" {
                        sink.evals += 65536;
                        let (bad, first) = (f[3].parse::<u64>().unwrap_or(0), f[4].parse::<u64>().unwrap_or(0));
                        sink.count("SignatureScheme conversions", if bad == 0 { "split correctly" } else { "WRONG" });
                        if bad != 0 {
                            sink.violation(
                                format!("split From<SignatureScheme> for {}", f[1]),
                                format!("the conversion of a SignatureScheme into {} does not give hash = high byte / signature = low byte for {} of the 65536 values (first: {:#06x})", f[1], bad, first),
                                json!({"kind":"scheme-conversion","type":f[1]}),
                            );
                        }
                    }
                }
            }
            None => sink.bump("SignatureScheme conversions found but probe not buildable", 1),
        }
    }
}

fn main() {
    let run = Run::from_args("C17", "exploration");
    let sub = std::env::args().any(|a| a == "--sub");
    let cx = build_cx();
    if let Some(v) = run.load_replay() {
        let case = &v["case"];

        let mut res = Vec::new();
        for _ in 0..2 {
            let mut msgs = Vec::new();
            match case["kind"].as_str() {
                Some("value") => {
                    let ty = case["type"].as_str().unwrap();
                    let x = case["value"].as_u64().unwrap();
                    if ty == "TlsCipherSuiteID" {
                        msgs.extend(check_cipher_id(&cx, x as u16).into_iter().map(|m| m.1));
                    } else {
                        let ti = cx.regs.iter().position(|r| r.reg.ty == ty).unwrap();
                        msgs.extend(check_value(&cx, ti, x).into_iter().map(|m| m.1));
                    }
                }
                Some("const") => {
                    let mut s = Sink::new();
                    check_consts(&cx, &mut s);
                    let key = format!("const {}::{}", case["type"].as_str().unwrap(), case["name"].as_str().unwrap());
                    msgs.extend(s.viol.iter().filter(|v| v.key == key).map(|v| v.what.clone()));
                }
                Some("scheme-conversion") => {
                    let mut s = Sink::new();
                    check_scheme_conversions(&mut s);
                    msgs.extend(s.viol.iter().map(|v| v.what.clone()));
                }
                Some("unlisted-const") => {
                    let mut s = Sink::new();
                    check_unlisted_consts(&cx, &mut s);
                    let key = format!("const {}::{}", case["type"].as_str().unwrap(), case["name"].as_str().unwrap());
                    let key2 = format!("split {}::{}", case["type"].as_str().unwrap(), case["name"].as_str().unwrap());
                    msgs.extend(s.viol.iter().filter(|v| v.key == key || v.key == key2).map(|v| v.what.clone()));
                }
                _ => machinery_failure(run.prop, "unknown replay kind"),
            }
            res.push(msgs);
        }
        if res[0] != res[1] {
            machinery_failure(run.prop, "replay is not deterministic");
        }
        if res[0].is_empty() {
            println!("replay: property holds on this case");
            std::process::exit(0);
        }
        println!("replay: {}", res[0].join("; "));
        println!("VIOLATION property={} replay={}", run.prop, run.replay.clone().unwrap());
        std::process::exit(1);
    }

    let mut sink = Sink::new();
    check_consts(&cx, &mut sink);
    let (njudged, unjudged) = if sub { (0, Vec::new()) } else { check_unlisted_consts(&cx, &mut sink) };
    let nconst = sink.evals;
    // work items: (type index, chunk of the domain)
    let mut items: Vec<(usize, u64, u64)> = Vec::new();
    for (ti, r) in cx.regs.iter().enumerate() {
        let n = 1u64 << r.reg.bits;
        let mut lo = 0;
        while lo < n {
            items.push((ti, lo, (lo + 4096).min(n)));
            lo += 4096;
        }
    }
    for lo in (0..65536u64).step_by(4096) {
        items.push((usize::MAX, lo, lo + 4096));
    }
    let s2 = par_run(run.threads, items.len(), |i, sink| {
        let (ti, lo, hi) = items[i];
        for x in lo..hi {
            let (ty, viol, named) = if ti == usize::MAX {
                (
                    "TlsCipherSuiteID",
                    check_cipher_id(&cx, x as u16),
                    cx.cipher_names.contains_key(&(x as u16))
                        || cx.cipher_names.contains_key(&(x as u16).wrapping_sub(1))
                        || cx.cipher_names.contains_key(&(x as u16).wrapping_add(1)),
                )
            } else {
                let r = &cx.regs[ti];
                let near = r.reg.name_of(x).is_some()
                    || r.reg.name_of(x.wrapping_sub(1)).is_some()
                    || r.reg.name_of(x + 1).is_some()
                    || (r.reg.ty == "SignatureScheme" && (0xfdff..=0xff00).contains(&x));
                (r.reg.ty, check_value(&cx, ti, x), near)
            };
            sink.case(fnv(ti as u64, &x.to_be_bytes()), named);
            sink.count(ty, if named { "named-or-neighbour" } else { "unassigned" });
            for (aspect, what) in viol {
                sink.violation(
                    format!("{} {} {}", aspect, ty, x),
                    what,
                    json!({"kind":"value","type":ty,"value":x}),
                );
            }
            if x == 22 {
                sink.sample(30, || json!({"type": ty, "value": x, "display": if ti == usize::MAX { format!("{:?}", TlsCipherSuiteID(22)) } else { (cx.regs[ti].display.1)(x) }}));
            }
        }
    });
    sink.merge(s2);
    if !sub {
        check_scheme_conversions(&mut sink);
    }
    // the same sweep against the crate built with all cargo features (std, serialize, unstable)
    run.all_features_variant(&mut sink);
    let unknown: Vec<String> = cx
        .unknown_src
        .iter()
        .flat_map(|(t, s)| s.iter().map(move |n| format!("{}::{}", t, n)))
        .collect();
    let mut cov = Map::new();
    cov.insert("exhaustive".into(), json!(true));
    cov.insert("registry_types".into(), json!(cx.regs.len() + 1));
    cov.insert("named_constants_checked".into(), json!(nconst));
    cov.insert("constants_in_source_without_registry_entry".into(), json!(unknown));
    // operations of the registry types that this check does not know (added after it was written): listed, not judged
    {
        const KNOWN: &[&str] = &["from_u16", "hash_alg", "sign_alg", "is_reserved", "key_bits", "new", "to_be_bytes"];
        let typed: Vec<String> = vchecks::registries::scan_split_methods().into_iter().map(|m| m.0).collect();
        let types: Vec<&str> = cx.regs.iter().map(|r| r.reg.ty).chain(["TlsCipherSuiteID"]).collect();
        let unknown_api: Vec<String> = vchecks::registries::scan_impl_methods().into_iter().filter(|(t, m)| types.contains(&t.as_str()) && !KNOWN.contains(&m.as_str()) && !(t == "SignatureScheme" && typed.contains(m))).map(|(t, m)| format!("{}::{}", t, m)).collect();
        cov.insert("public_methods_of_registry_types_not_exercised".into(), json!(unknown_api));
    }
    cov.insert("unlisted_constants_judged_by_name".into(), json!(njudged));
    cov.insert("unlisted_constants_not_judged".into(), json!(unjudged));
    cov.insert("rule".into(), json!(
        "every value of the domain of each of the 18 registry newtypes (12 x 256 + 6 x 65536) and of TlsCipherSuiteID (65536): Display/Debug text, every integer conversion, SignatureScheme split/reserved range, NamedGroup::key_bits; every named constant against the IANA value transcribed from the RFCs. The whole sweep runs twice: against the crate with features std+serialize and against the crate with all cargo features (std, serialize, unstable; a second build of this check). Cases are (type, value) pairs, distinct by construction; non-trivial = the value is a named constant or adjacent to one (or within 0xfdff..0xff00 for SignatureScheme)"));
    let code = run.finish(
        &sink,
        cov,
        vec![
            "IANA values and constant names in vcommon/src/reference/iana.rs were transcribed by hand from RFC 5246/8446/6066/8422/7919/8701/6962 and the IANA TLS registries".into(),
            "DTls11 = 0xfefe is accepted as the natural one's-complement encoding although no such protocol version was ever assigned".into(),
            "key_bits is only constrained for curves whose name states a field size, and to None for unregistered group ids".into(),
        ],
    );
    std::process::exit(code);
}
