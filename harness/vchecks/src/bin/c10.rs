//! C10 — DTLS records and handshake fragments decode per RFC 6347 (E3 header sweeps + E2 struct).
use serde_json::{json, Map};
use tls_parser::*;
use vchecks::mirror::call;
use vchecks::sweep::*;
use vchecks::targets::*;
use vcommon::catalogue as cat;
use vcommon::en::Alpha;
use vcommon::report::*;
use vcommon::v::{Got, Ref, V};

const CAP: usize = (1 << 14) + 256;

static DTLS_HEADER: Target = Target {
    name: "parse_dtls_record_header",
    run: |b| call(b, parse_dtls_record_header),
    reference: |b| {
        let mut r = vcommon::reference::wire::Rd::new(b);
        match vcommon::reference::wire::dtls_header(&mut r) {
            Some((t, v, e, s, l)) => Ref::Must(V::N("DHdr", vec![V::U(t), V::U(v), V::U(e), V::U(s), V::U(l)]), 13),
            None => Ref::Reject("DTLS header cut"),
        }
    },
};

/// framing contract of parse_dtls_plaintext_record, independent of the payload content
fn framing_oracle(b: &[u8], g: &Got) -> Option<String> {
    let n = b.len();
    if let Got::Panic(m) = g {
        return Some(format!("panic: {}", m));
    }
    if n < 13 {
        return match g {
            Got::Incomplete(_) => None,
            o => Some(format!("{} bytes (shorter than the 13-byte header) answered {:?}", n, o)),
        };
    }
    let len = u16::from_be_bytes([b[11], b[12]]) as usize;
    if len > CAP {
        return match g {
            Got::Error("TooLarge") => None,
            o => Some(format!("declared length {} exceeds the cap: answered {:?}, expected Error(TooLarge)", len, o)),
        };
    }
    if n < 13 + len {
        return match g {
            Got::Incomplete(Some(k)) if *k == 13 + len - n => None,
            o => Some(format!("strict prefix ({} of {} bytes) answered {:?}, expected Incomplete(Size({}))", n, 13 + len, o, 13 + len - n)),
        };
    }
    match g {
        Got::Incomplete(k) => Some(format!("complete record (declared length {}) answered Incomplete({:?})", len, k)),
        Got::Ok(_, c) if *c != 13 + len => Some(format!("consumed {} bytes, the record is {} bytes", c, 13 + len)),
        _ => None,
    }
}

/// is_fragment() and the body kind against the header fields of the first handshake message
fn fragment_oracle(b: &[u8]) -> Option<String> {
    let r = vcommon::iso::guarded(|| match parse_dtls_message_handshake(b) {
        Ok((_, m)) => {
            let frag = m.is_fragment();
            if let DTLSMessage::Handshake(h) = &m {
                let expect = h.fragment_offset > 0 || h.fragment_length < h.length;
                let is_body_fragment = matches!(h.body, DTLSMessageHandshakeBody::Fragment(_));
                if frag != expect || is_body_fragment != expect {
                    return Some(format!(
                        "length {} offset {} fragment_length {}: is_fragment() = {}, body is Fragment: {}, expected {}",
                        h.length, h.fragment_offset, h.fragment_length, frag, is_body_fragment, expect
                    ));
                }
                if let DTLSMessageHandshakeBody::Fragment(d) = h.body {
                    if d.len() != h.fragment_length as usize {
                        return Some(format!("Fragment body has {} bytes, fragment_length is {}", d.len(), h.fragment_length));
                    }
                }
            } else if frag {
                return Some("is_fragment() true for a non-handshake message".into());
            }
            None
        }
        Err(_) => None,
    });
    match r {
        Ok(x) => x,
        Err(p) => Some(format!("panic: {}", p)),
    }
}

fn extra(t: &Target, b: &[u8], g: &Got, _r: &Ref, sink: &mut Sink) {
    let w = if t.name == "parse_dtls_plaintext_record" {
        framing_oracle(b, g)
    } else if t.name == "parse_dtls_message_handshake" {
        fragment_oracle(b)
    } else {
        None
    };
    if let Some(w) = w {
        sink.violation(
            format!("{} {} contract", t.name, hexs(b)),
            format!("{}({}): {}", t.name, hexshort(b), w),
            json!({"kind":"parse","func":t.name,"input":hexs(b)}),
        );
    }
}

fn one(t: &Target, b: &[u8], sink: &mut Sink) {
    let (g, r) = check_case("C10", t, b, sink);
    extra(t, b, &g, &r, sink);
}

fn main() {
    let run = Run::from_args("C10", "exploration");
    let targets: Vec<&Target> = vec![&DTLS_RECORD, &DTLS_HANDSHAKE, &DTLS_HEADER];
    if let Some(v) = run.load_replay() {
        std::process::exit(replay_parse(&run, &targets, &v["case"], &|t, b, s| {
            let g = (t.run)(b);
            extra(t, b, &g, &Ref::Unspec(""), s)
        }));
    }
    let thorough = run.tier == Tier::Thorough;
    vcommon::en::WRAP_LIES.store(true, std::sync::atomic::Ordering::Relaxed);
    let mut sink = Sink::new();
    let sfx = std_suffixes();

    // (1) record header: all types, all epochs, all lengths (with cut points), sequence-number patterns
    let base: Vec<u8> = {
        let mut w = cat::dtls_record(0x16, 0xfefd, 1, 2, |w| {
            w.append(&cat::dtls_hs(14, 0, None, 0, |_| {}));
        });
        w.buf.extend([0xee; 4]);
        w.buf
    };
    let s1 = par_run(run.threads, 256, |k, sink| {
        let mut b = base.clone();
        // all 256 content types
        b[0] = k as u8;
        one(&DTLS_RECORD, &b, sink);
        one(&DTLS_HEADER, &b, sink);
        b[0] = 0x16;
        // all 65536 epochs (256 per work item) and versions
        for lo in 0..256usize {
            b[3] = k as u8;
            b[4] = lo as u8;
            one(&DTLS_RECORD, &b, sink);
            one(&DTLS_HEADER, &b[..13], sink);
            b[3] = 0;
            b[4] = 1;
            b[1] = k as u8;
            b[2] = lo as u8;
            one(&DTLS_RECORD, &b, sink);
            b[1] = 0xfe;
            b[2] = 0xfd;
        }
        // every byte position of the 48-bit sequence number x this byte value
        for pos in 0..6 {
            let mut c = base.clone();
            c[5 + pos] = k as u8;
            one(&DTLS_RECORD, &c, sink);
            one(&DTLS_HEADER, &c, sink);
            // epoch bytes next to it set to ff, so that a wrong shift / mask shows
            c[3] = 0xff;
            c[4] = 0xff;
            one(&DTLS_HEADER, &c, sink);
        }
        // all 65536 declared lengths (256 per item) at the characteristic cut points
        let mut buf: Vec<u8> = Vec::with_capacity(CAP + 32);
        for lo in 0..256usize {
            let len = (k << 8) | lo;
            buf.clear();
            buf.extend([0x17, 0xfe, 0xfd, 0, 0, 0, 0, 0, 0, 0, 7, k as u8, lo as u8]);
            let have = len.min(CAP);
            buf.extend((0..have).map(|i| (i % 251) as u8));
            buf.extend([0xee; 8]);
            let mut cuts = vec![0usize, 1, 12, 13, 14, 13 + len / 2, 13 + len.saturating_sub(1), 13 + len, 13 + len + 1, 13 + len + 7];
            cuts.retain(|&c| c <= buf.len());
            cuts.sort();
            cuts.dedup();
            for &c in &cuts {
                one(&DTLS_RECORD, &buf[..c], sink);
            }
        }
    });
    sink.merge(s1);
    // single-bit and double-bit patterns of the 48-bit sequence number and 16-bit epoch
    let mut pats: Vec<u64> = vec![0, u64::MAX];
    for i in 0..64 {
        pats.push(1u64 << i);
        pats.push(!(1u64 << i));
        for j in (i + 1)..64 {
            pats.push((1u64 << i) | (1u64 << j));
        }
    }
    let s1b = par_run(run.threads, pats.len(), |i, sink| {
        let mut b = base.clone();
        b[3..11].copy_from_slice(&pats[i].to_be_bytes());
        one(&DTLS_HEADER, &b, sink);
        one(&DTLS_RECORD, &b, sink);
    });
    sink.merge(s1b);
    // every prefix of records of boundary lengths
    let lens: Vec<usize> = (0..=40).chain([255, 256, 16383, 16384, 16639, 16640]).collect();
    let s1c = par_run(run.threads, lens.len(), |i, sink| {
        let len = lens[i];
        let mut b = vec![0x17, 0xfe, 0xfd, 0, 0, 0, 0, 0, 0, 0, 1, (len >> 8) as u8, len as u8];
        b.extend((0..len).map(|i| (i % 7) as u8));
        b.extend([0x16, 0xfe]);
        for c in 0..=b.len() {
            if c <= 60 || c + 60 >= b.len() || thorough || c % 89 == 0 {
                one(&DTLS_RECORD, &b[..c], sink);
            }
            if c <= 15 {
                one(&DTLS_HEADER, &b[..c], sink);
            }
        }
    });
    sink.merge(s1c);

    // (2) handshake header: (length, offset, fragment length) boundary cube, all types, all message_seq
    let mut hdrs: Vec<Vec<u8>> = Vec::new();
    for l in [0usize, 1, 5, 300] {
        let vals: Vec<u32> = {
            let l = l as u32;
            let mut v = vec![0, 1, 2, l.wrapping_sub(1) & 0xffffff, l, l + 1, 0xffffff];
            v.sort();
            v.dedup();
            v
        };
        for &length in &vals {
            for &off in &vals {
                for &flen in &vals {
                    for ty in [1u8, 2, 3, 11, 14, 16, 12] {
                        let mut b = vec![ty];
                        b.extend(&length.to_be_bytes()[1..]);
                        b.extend([0, 9]);
                        b.extend(&off.to_be_bytes()[1..]);
                        b.extend(&flen.to_be_bytes()[1..]);
                        b.extend((0..l + 2).map(|i| i as u8));
                        hdrs.push(b);
                    }
                }
            }
        }
    }
    for ty in 0..=255u8 {
        for (length, off, flen) in [(0u32, 0u32, 0u32), (3, 0, 3), (3, 1, 2), (9, 0, 3)] {
            let mut b = vec![ty];
            b.extend(&length.to_be_bytes()[1..]);
            b.extend([0xab, 0xcd]);
            b.extend(&off.to_be_bytes()[1..]);
            b.extend(&flen.to_be_bytes()[1..]);
            b.extend([1, 2, 3, 4]);
            hdrs.push(b);
        }
    }
    let s2 = par_run(run.threads, hdrs.len(), |i, sink| one(&DTLS_HANDSHAKE, &hdrs[i], sink));
    sink.merge(s2);
    // all 65536 message_seq values; offset sweep (full 2^24 in thorough, every 251st plus boundaries in quick)
    let s2b = par_run(run.threads, 256, |k, sink| {
        for lo in 0..256usize {
            let b = [14u8, 0, 0, 0, k as u8, lo as u8, 0, 0, 0, 0, 0, 0, 0x55];
            one(&DTLS_HANDSHAKE, &b, sink);
        }
        let step = if thorough { 1 } else { 251 };
        let mut off = k << 16;
        let end = (k + 1) << 16;
        while off < end {
            let b = [16u8, 0, 0, 4, 0, 1, (off >> 16) as u8, (off >> 8) as u8, off as u8, 0, 0, 4, 9, 9, 9, 9, 7];
            one(&DTLS_HANDSHAKE, &b, sink);
            off += step;
        }
        for off in [k << 16, (k << 16) | 0xffff, (k << 16) | 0x00ff, (k << 16) | 0xff00] {
            let b = [16u8, 0, 0, 4, 0, 1, (off >> 16) as u8, (off >> 8) as u8, off as u8, 0, 0, 4, 9, 9, 9, 9, 7];
            one(&DTLS_HANDSHAKE, &b, sink);
        }
    });
    sink.merge(s2b);

    // (3) bodies: catalogue x deviations at message and record level; all cookie lengths
    let d = run.tier.pick(1, 2);
    let hs = cat::dtls_handshake_messages();
    let nhs = hs.len();
    sink.merge(struct_sweep(&run, &[&DTLS_HANDSHAKE], &hs, d, &sfx, 64, &extra));
    let recs = cat::dtls_records();
    let nrecs = recs.len();
    sink.merge(struct_sweep(&run, &[&DTLS_RECORD], &recs, run.tier.pick(1, 2), &sfx, 48, &extra));
    let magic: Vec<vcommon::en::W> = cat::magic_hellos().into_iter().filter(|w| w.lens.first().map_or(false, |l| l.label == "dtls_length")).collect();
    sink.merge(struct_sweep(&run, &[&DTLS_HANDSHAKE], &magic, 0, &sfx, 64, &extra));
    sink.merge(struct_sweep(&run, &[&DTLS_HANDSHAKE], &wrapped(&cat::dtls_handshake_messages(), 1), 0, &sfx, 16, &extra));
    sink.merge(struct_sweep(&run, &[&DTLS_RECORD], &wrapped(&cat::dtls_records(), 1), 0, &sfx, 16, &extra));
    for server in [true, false] {
        sink.merge(grid_sweep(&run, &[&DTLS_HANDSHAKE], 64, &|c, n| cat::hello_grid(server, true, thorough, c, n), &no_wrap, &extra));
        sink.merge(grid_sweep(&run, &[&DTLS_RECORD], 64, &|c, n| cat::hello_grid(server, true, false, c, n), &|m| cat::dtls_record(0x16, 0xfefd, 0, 1, |w| { w.append(m); }), &extra));
    }
    for style in [1u8, 3, 4, 6, 7, 8, 10, 11, 12, 13, 14, 15, 16, 17, 18, 19, 20, 21] {
        use vcommon::en::with_fill_style as wfs;
        sink.merge(struct_sweep(&run, &[&DTLS_HANDSHAKE], &wfs(style, cat::dtls_handshake_messages), 0, &sfx, 64, &extra));
        sink.merge(struct_sweep(&run, &[&DTLS_RECORD], &wfs(style, cat::dtls_records), 0, &sfx, 48, &extra));
    }
    let with_ext: Vec<vcommon::en::W> = cat::hellos_with_extension_lists().into_iter().filter(|w| w.lens.first().map_or(false, |l| l.label == "dtls_length")).collect();
    sink.merge(struct_sweep(&run, &[&DTLS_HANDSHAKE], &with_ext, 0, &sfx, 64, &extra));
    // "several records in one datagram decode record by record": every ordered pair / selected triples of
    // catalogue records whose epochs, types and sequence numbers vary, against the explicit single-record loop
    {
        let hsm = cat::dtls_handshake_messages();
        let mut recs: Vec<Vec<u8>> = Vec::new();
        for epoch in [0u16, 1, 2, 0xffff] {
            recs.push(cat::dtls_record(0x14, 0xfefd, epoch, 1, |w| { w.u8(1); }).buf);
            recs.push(cat::dtls_record(0x15, 0xfefd, epoch, 2, |w| { w.u8(1).u8(0); }).buf);
            recs.push(cat::dtls_record(0x16, 0xfefd, epoch, 3, |w| { w.append(&hsm[0]); }).buf);
            recs.push(cat::dtls_record(0x16, 0xfeff, epoch, 0xffff_ffff_ffff, |w| { w.append(&hsm[hsm.len() - 1]); }).buf);
            recs.push(cat::dtls_record(0x17, 0xfefd, epoch, 4, |w| { w.fill(3, 1); }).buf);
        }
        let n = recs.len();
        let pairs: Vec<(usize, usize)> = (0..n).flat_map(|a| (0..n).map(move |b| (a, b))).collect();
        let sp = par_run(run.threads, pairs.len(), |i, sink| {
            let (a, b) = pairs[i];
            let mut d = recs[a].clone();
            d.extend_from_slice(&recs[b]);
            vchecks::multi::check(&d, sink);
            for c in [0usize, 7, 13] {
                let mut t = d.clone();
                t.extend_from_slice(&recs[c % n]);
                vchecks::multi::check(&t, sink);
            }
        });
        sink.merge(sp);
    }
    // a well-formed record followed by a record whose handshake message has one lying length (session id > 32, odd cipher
    // list, over-long cookie, ...): the datagram still decodes record by record (the first record is returned)
    {
        use vcommon::en::{apply, lies, Dev};
        let first = cat::dtls_record(0x14, 0xfefd, 0, 1, |w| { w.u8(1); }).buf;
        let first_hs = cat::dtls_record(0x16, 0xfefd, 0, 2, |w| { w.append(&cat::dtls_hs(14, 3, None, 0, |_| {})); }).buf;
        let msgs = cat::dtls_handshake_messages();
        let sd = par_run(run.threads, msgs.len(), |i, sink| {
            let m = &msgs[i];
            let rec = cat::dtls_record(0x16, 0xfefd, 0, 9, |w| { w.append(m); });
            for (k, l) in rec.lens.iter().enumerate() {
                for v in lies(l) {
                    let bad = apply(&rec, &[Dev::Lie(k, v)], &[]);
                    for f in [&first, &first_hs] {
                        let mut d = f.clone();
                        d.extend_from_slice(&bad);
                        vchecks::multi::check(&d, sink);
                        d.extend_from_slice(f);
                        vchecks::multi::check(&d, sink);
                    }
                }
            }
        });
        sink.merge(sd);
    }
    // version x cookie length grid: all 256 cookie lengths under 12 versions, for both cookie-carrying messages
    let mut grid: Vec<vcommon::en::W> = Vec::new();
    for ver in [0xfeffu16, 0xfefe, 0xfefd, 0xfefc, 0xfe00, 0x0303, 0x0301, 0x0000, 0xffff, 0x8000, 0x7fff, 0xff00] {
        for c in 0..=255usize {
            grid.push(cat::dtls_hs(1, 0, None, 0, |w| cat::client_hello_body(w, ver, 0, 1, 1, cat::ExtBlock::Absent, Some(c))));
            grid.push(cat::dtls_hs(3, 0, None, 0, |w| {
                w.u16(ver);
                w.block(1, "cookie_len", |w| {
                    w.fill(c, 0xc0);
                });
            }));
        }
    }
    sink.merge(struct_sweep(&run, &[&DTLS_HANDSHAKE], &grid, 0, &sfx, 64, &extra));
    // every fragment / body size
    let b_frag = |n: usize| cat::dtls_hs(11, 3, Some(70000), 5, |w| {
        w.fill(n, 0xf7);
    });
    sink.merge(size_sweep(&run, &[&DTLS_HANDSHAKE], 66000, &b_frag, &extra));
    let b_cke = |n: usize| cat::dtls_hs(16, 3, None, 0, |w| {
        w.fill(n, 0x10);
    });
    sink.merge(size_sweep(&run, &[&DTLS_HANDSHAKE], 66000, &b_cke, &extra));
    let b_rec = |n: usize| cat::dtls_record(0x16, 0xfefd, 1, 2, |w| {
        w.append(&cat::dtls_hs(14, 0, None, 0, |w| {
            w.fill(n, 0x0e);
        }));
    });
    sink.merge(size_sweep(&run, &[&DTLS_RECORD], 16628, &b_rec, &extra));
    let cookies: Vec<vcommon::en::W> = (0..=255usize)
        .flat_map(|c| {
            [
                cat::dtls_hs(1, 0, None, 0, |w| cat::client_hello_body(w, 0xfefd, 0, 1, 1, cat::ExtBlock::Absent, Some(c))),
                cat::dtls_hs(3, 0, None, 0, |w| {
                    w.u16(0xfeff);
                    w.block(1, "cookie_len", |w| {
                        w.fill(c, 0xc0);
                    });
                }),
            ]
        })
        .collect();
    sink.merge(struct_sweep(&run, &[&DTLS_HANDSHAKE], &cookies, 0, &sfx, 64, &extra));

    // (4) every short string over a positional alphabet through the handshake parser
    let a = Alpha::new(
        &[
            &[0x01, 0x02, 0x03, 0x0b, 0x0e, 0x10, 0x0c, 0xff],
            &[0x00],
            &[0x00],
            &[0x00, 0x01, 0x02, 0x03, 0xff],
            &[0x00],
            &[0x00, 0x01],
            &[0x00],
            &[0x00],
            &[0x00, 0x01, 0x02],
            &[0x00],
            &[0x00],
            &[0x00, 0x01, 0x02, 0x03, 0x04, 0xff],
        ],
        &[0x00, 0x01, 0x02, 0xfe, 0xff],
    );
    sink.merge(alpha_sweep(&run, &DTLS_HANDSHAKE, &a, run.tier.pick(16, 17), &identity_wrap, &extra));

    require_both_outcomes(&run, &sink, &[DTLS_RECORD.name, DTLS_HANDSHAKE.name, DTLS_HEADER.name]);
    let mut cov = Map::new();
    cov.insert("exhaustive".into(), json!(true));
    cov.insert("catalogue_handshake_messages".into(), json!(nhs));
    cov.insert("catalogue_records".into(), json!(nrecs));
    cov.insert("rule".into(), json!(format!(
        "record header: all 256 types, all 65536 epochs, versions and declared lengths (10 cut points each), every byte of the 48-bit sequence number x all 256 values, all single- and double-bit patterns of the 64-bit epoch+sequence word, every prefix of boundary-length records; handshake header: (length, offset, fragment length) over a 7^3 boundary cube for 4 sizes x 7 types, all 256 types, all 65536 message_seq, fragment offsets ({}); {} catalogue handshake messages and {} records x every combination of <= {} deviations; all 256 cookie lengths; all strings of bounded length over a positional alphabet. datagrams of 2-3 records over 4 epochs x 5 record kinds against the explicit single-record loop; Oracles: reference 13-byte framing (Incomplete iff strict prefix, exact Needed, cap), strict DTLS walkers, is_fragment() predicate. Non-trivial: not cut inside a fixed header",
        if thorough { "all 2^24" } else { "every 251st of 2^24 plus 16-bit boundaries" }, nhs, nrecs, d)));
    // the same check against the crate built with all cargo features (std, serialize, unstable)
    let mut sink = sink;
    run.all_features_variant(&mut sink);
    let code = run.finish(
        &sink,
        cov,
        vec!["strict DTLS walkers per DESIGN appendix D; handshake types the DTLS parser does not list and fragment_length > length are Unspecified".into()],
    );
    std::process::exit(code);
}
