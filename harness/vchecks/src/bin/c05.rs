//! C05 — extensions decode by IANA type; GREASE and unknown types are preserved (E3 + E2).
use serde_json::{json, Map};
use tls_parser::nom::IResult;
use tls_parser::*;
use vchecks::mirror::{call, got_of};
use vchecks::sweep::*;
use vchecks::targets::*;
use vcommon::catalogue as cat;
use vcommon::en::{Alpha, W};
use vcommon::iso::guarded;
use vcommon::reference::iana::{is_rfc8701_grease, KNOWN_EXT_TYPES};
use vcommon::reference::wire;
use vcommon::report::*;
use vcommon::v::{disagree, Got, Ref, V};

type ExtFn = for<'a> fn(&'a [u8]) -> IResult<&'a [u8], TlsExtension<'a>>;
type ListFn = for<'a> fn(&'a [u8]) -> IResult<&'a [u8], Vec<TlsExtension<'a>>>;

const DISPATCHERS: [(&str, ExtFn); 3] = [
    ("parse_tls_extension", parse_tls_extension),
    ("parse_tls_client_hello_extension", parse_tls_client_hello_extension),
    ("parse_tls_server_hello_extension", parse_tls_server_hello_extension),
];
const LISTS: [(&str, ListFn); 3] = [
    ("parse_tls_extensions", parse_tls_extensions),
    ("parse_tls_client_hello_extensions", parse_tls_client_hello_extensions),
    ("parse_tls_server_hello_extensions", parse_tls_server_hello_extensions),
];
const TAGGED: [(&str, u16, ExtFn); 16] = [
    ("parse_tls_extension_sni", 0, parse_tls_extension_sni),
    ("parse_tls_extension_max_fragment_length", 1, parse_tls_extension_max_fragment_length),
    ("parse_tls_extension_status_request", 5, parse_tls_extension_status_request),
    ("parse_tls_extension_elliptic_curves", 10, parse_tls_extension_elliptic_curves),
    ("parse_tls_extension_ec_point_formats", 11, parse_tls_extension_ec_point_formats),
    ("parse_tls_extension_signature_algorithms", 13, parse_tls_extension_signature_algorithms),
    ("parse_tls_extension_heartbeat", 15, parse_tls_extension_heartbeat),
    ("parse_tls_extension_encrypt_then_mac", 22, parse_tls_extension_encrypt_then_mac),
    ("parse_tls_extension_extended_master_secret", 23, parse_tls_extension_extended_master_secret),
    ("parse_tls_extension_session_ticket", 35, parse_tls_extension_session_ticket),
    ("parse_tls_extension_pre_shared_key", 41, parse_tls_extension_pre_shared_key),
    ("parse_tls_extension_early_data", 42, parse_tls_extension_early_data),
    ("parse_tls_extension_supported_versions", 43, parse_tls_extension_supported_versions),
    ("parse_tls_extension_cookie", 44, parse_tls_extension_cookie),
    ("parse_tls_extension_psk_key_exchange_modes", 45, parse_tls_extension_psk_key_exchange_modes),
    ("parse_tls_extension_key_share", 51, parse_tls_extension_key_share),
];

/// run an extension parser: result plus the type tag derived from the decoded variant
fn run_ext(f: ExtFn, b: &[u8]) -> (Got, Option<u16>) {
    match guarded(|| {
        let r = f(b);
        let tag = r.as_ref().ok().map(|(_, e)| TlsExtensionType::from(e).0);
        (got_of(b, r), tag)
    }) {
        Ok(x) => x,
        Err(p) => (Got::Panic(p), None),
    }
}

fn is_unknown_variant(g: &Got) -> bool {
    matches!(g, Got::Ok(V::N("Unknown", _), _))
}

fn viol(sink: &mut Sink, func: &str, b: &[u8], what: String) {
    sink.violation(
        format!("{} {}", func, hexs(b)),
        format!("{}({}): {}", func, hexshort(b), what),
        json!({"kind":"ext","input":hexs(b)}),
    );
}

/// All single-extension oracles on one input.
fn check_single(b: &[u8], sink: &mut Sink) {
    let r = wire::ref_extension(b);
    let wire_type = if b.len() >= 2 { Some(u16::from_be_bytes([b[0], b[1]])) } else { None };
    let mut results: Vec<Got> = Vec::new();
    for (di, (name, f)) in DISPATCHERS.iter().enumerate() {
        let (g, tag) = run_ext(*f, b);
        sink.case(fnv(fnv(di as u64, b"disp"), b), nontrivial(&r));
        sink.count(name, class_pair(&r, &g));
        // (a) value against the reference; the client / server dispatchers may leave a known type undecoded
        let mut d = disagree(&r, &g);
        if di > 0 && d.is_some() && is_unknown_variant(&g) {
            if let (Some(t), Got::Ok(V::N(_, f), c)) = (wire_type, &g) {
                let framed_ok = f.first() == Some(&V::U(t as u64)) && f.get(1) == Some(&V::s(4, b.len().min(*c) - 4)) && *c <= b.len();
                if KNOWN_EXT_TYPES.contains(&t) && !is_rfc8701_grease(t) && framed_ok {
                    d = None; // not recognised by this dispatcher: preserved as Unknown(type, data)
                }
            }
        }
        if let Some(w) = d {
            viol(sink, name, b, w);
        }
        // (c) the tag derived from the variant equals the wire type (all GREASE values -> the Grease tag)
        if let (Some(tag), Some(t), Got::Ok(v, _)) = (tag, wire_type, &g) {
            let exp = if matches!(v, V::N("Grease", _)) { 0xfafa } else { t };
            if tag != exp {
                viol(sink, name, b, format!("TlsExtensionType::from(&ext) = {} but the wire type is {} (decoded as {})", tag, t, v.name()));
            }
        }
        results.push(g);
    }
    // (d) dispatchers that both decode this type (neither answers Unknown) return the same thing
    for i in 0..3 {
        for j in i + 1..3 {
            let (a, c) = (&results[i], &results[j]);
            if a.is_ok() && c.is_ok() && !is_unknown_variant(a) && !is_unknown_variant(c) && a != c {
                viol(
                    sink,
                    "dispatchers",
                    b,
                    format!("{} and {} both decode this extension but differ: {:?} vs {:?}", DISPATCHERS[i].0, DISPATCHERS[j].0, a, c),
                );
            }
        }
    }
    // parse_tls_extension_unknown: always Unknown(type, data)
    check_case("C05", &EXT_UNKNOWN, b, sink);
    // (e) tag-specific parsers
    let generic = &results[0];
    for (name, own, f) in TAGGED.iter() {
        let (g, tag) = run_ext(*f, b);
        sink.count(name, if g.is_ok() { "Ok" } else { "not-Ok" });
        sink.evals += 1;
        if let Got::Panic(p) = &g {
            viol(sink, name, b, format!("panic: {}", p));
            continue;
        }
        match wire_type {
            Some(t) if t == *own => {
                if g.is_ok() && generic.is_ok() && g != *generic {
                    viol(sink, name, b, format!("accepts its own type but disagrees with parse_tls_extension: {:?} vs {:?}", g, generic));
                }
                if let Ref::Must(v, c) = &r {
                    if g != Got::Ok(v.clone(), *c) {
                        viol(sink, name, b, format!("well-formed extension of its own type {}: expected {:?}, got {:?}", own, v, g));
                    }
                }
                if let (Some(tag), true) = (tag, g.is_ok()) {
                    if tag != *own {
                        viol(sink, name, b, format!("returned a variant whose type tag is {} instead of {}", tag, own));
                    }
                }
            }
            Some(t) => {
                if g.is_ok() {
                    viol(sink, name, b, format!("accepts extension type {} although its own IANA type is {}: {:?}", t, own, g));
                }
            }
            None => {
                if g.is_ok() {
                    viol(sink, name, b, "accepts an input shorter than the type field".into());
                }
            }
        }
    }
}

/// list parsers on a block
fn check_list(b: &[u8], sink: &mut Sink) {
    let r = wire::ref_extensions(b);
    for (li, (name, f)) in LISTS.iter().enumerate() {
        let g = call(b, *f);
        sink.case(fnv(fnv(li as u64, b"list"), b), true);
        sink.count(name, class_pair(&r, &g));
        let mut d = disagree(&r, &g);
        if li > 0 && d.is_some() {
            // elementwise: a known type may stay Unknown(type, data) in the client / server lists
            if let (Ref::Must(V::L(exp), c), Got::Ok(V::L(got), gc)) = (&r, &g) {
                let mut ok = exp.len() == got.len() && c == gc;
                if ok {
                    let mut off = 0usize;
                    for (e, x) in exp.iter().zip(got.iter()) {
                        let t = u16::from_be_bytes([b[off], b[off + 1]]);
                        let l = u16::from_be_bytes([b[off + 2], b[off + 3]]) as usize;
                        let unk = V::N("Unknown", vec![V::U(t as u64), V::s(off + 4, l)]);
                        if !(e == x || (*x == unk && KNOWN_EXT_TYPES.contains(&t))) {
                            ok = false;
                        }
                        off += 4 + l;
                    }
                }
                if ok {
                    d = None;
                }
            }
        }
        if let Some(w) = d {
            sink.violation(
                format!("{} {}", name, hexs(b)),
                format!("{}({}): {}", name, hexshort(b), w),
                json!({"kind":"list","input":hexs(b)}),
            );
        }
        // whatever the block: never more elements than extensions that fit, wire order by offsets
        if let Got::Ok(V::L(items), c) = &g {
            let mut last = 0usize;
            for it in items {
                let mut first = None;
                it.slices(&mut |o, l| {
                    if l > 0 && first.is_none() {
                        first = Some(o);
                    }
                });
                if let Some(o) = first {
                    if o < last || o > *c {
                        sink.violation(
                            format!("{} order {}", name, hexs(b)),
                            format!("{}({}): elements are not in wire order / reach outside the consumed block", name, hexshort(b)),
                            json!({"kind":"list","input":hexs(b)}),
                        );
                    }
                    last = o;
                }
            }
        }
    }
}

fn main() {
    let run = Run::from_args("C05", "exploration");
    if let Some(v) = run.load_replay() {
        let b = unhex(v["case"]["input"].as_str().unwrap());
        let mut outs = Vec::new();
        for _ in 0..2 {
            let mut s = Sink::new();
            if v["case"]["kind"] == "list" {
                check_list(&b, &mut s);
            } else {
                check_single(&b, &mut s);
            }
            outs.push(s.viol.iter().map(|v| v.what.clone()).collect::<Vec<_>>());
        }
        if outs[0] != outs[1] {
            machinery_failure(run.prop, "replay is not deterministic");
        }
        if outs[0].is_empty() {
            println!("replay: property holds on this case");
            std::process::exit(0);
        }
        println!("replay: {}", outs[0].join(" | "));
        println!("VIOLATION property={} replay={}", run.prop, run.replay.clone().unwrap());
        std::process::exit(1);
    }
    let thorough = run.tier == Tier::Thorough;
    vcommon::en::WRAP_LIES.store(true, std::sync::atomic::Ordering::Relaxed);
    let mut sink = Sink::new();
    let sfx = std_suffixes();

    // (1) all 65536 types x generic contents
    let contents = cat::generic_contents();
    let s1 = par_run(run.threads, 256, |hi, sink| {
        for lo in 0..256usize {
            let t = ((hi << 8) | lo) as u16;
            for c in &contents {
                let w = cat::ext_with(t, c);
                check_single(&w.buf, sink);
            }
            if thorough {
                let mut big = cat::ext_with(t, &[]);
                big = cat::ext(t, |w| {
                    w.fill(65531, 0x42);
                });
                check_single(&big.buf, sink);
            }
        }
    });
    sink.merge(s1);

    // (2) known types: well-formed contents x deviations
    let known = cat::known_extensions();
    let nknown = known.len();
    let d = run.tier.pick(1, 2);
    let s2 = par_run(run.threads, known.len(), |i, sink| {
        let mut f = |devs: &[vcommon::en::Dev], b: &[u8]| {
            check_single(b, sink);
            if devs.is_empty() && i % 9 == 0 {
                sink.sample(8, || json!({"extension": hexshort(b), "reference": format!("{:?}", wire::ref_extension(b))}));
            }
        };
        vcommon::en::deviations(&known[i], d, &sfx, 64, &mut f);
    });
    sink.merge(s2);

    for style in [1u8, 3, 4, 6, 7, 8, 10, 11, 12, 13, 14, 15, 16, 17, 18, 19, 20, 21] {
        let k = vcommon::en::with_fill_style(style, cat::known_extensions);
        let sx = par_run(run.threads, k.len(), |i, sink| check_single(&k[i].buf, sink));
        sink.merge(sx);
    }
    {
        let k = cat::oid_filter_extensions();
        let sx = par_run(run.threads, k.len(), |i, sink| check_single(&k[i].buf, sink));
        sink.merge(sx);
    }
    {
        // the known extensions under foreign outer headers (DER, length prefixes, record / handshake headers)
        let k = wrapped(&cat::known_extensions(), 1);
        let sx = par_run(run.threads, k.len(), |i, sink| check_single(&k[i].buf, sink));
        sink.merge(sx);
    }
    {
        // field cross products: encrypted_server_name (suite x group x key-share size x digest x name sizes), key_share (group x size)
        let mut k = cat::esni_grid();
        k.extend(cat::group_size_extensions());
        let sx = par_run(run.threads, k.len(), |i, sink| check_single(&k[i].buf, sink));
        sink.merge(sx);
    }
    {
        // every known extension type with each blob shape as its content, bare and behind a first byte 0 / 1 / 2 (a status type,
        // a name type, a mode): a length prefix of its own, a list of one, DER ...
        let shapes = cat::content_shapes();
        let mut k: Vec<W> = Vec::new();
        for &t in vcommon::reference::iana::KNOWN_EXT_TYPES.iter() {
            for sh in &shapes {
                k.push(cat::ext_with(t, sh));
                for first in [0u8, 1, 2] {
                    k.push(cat::ext_with(t, &[&[first][..], &sh[..]].concat()));
                }
            }
        }
        let sx = par_run(run.threads, k.len(), |i, sink| check_single(&k[i].buf, sink));
        sink.merge(sx);
    }
    {
        let k = cat::enum_lists_with_foreign_content().1;
        let sx = par_run(run.threads, k.len(), |i, sink| check_single(&k[i].buf, sink));
        sink.merge(sx);
    }
    {
        let k = cat::text_extensions();
        let sx = par_run(run.threads, k.len(), |i, sink| check_single(&k[i].buf, sink));
        sink.merge(sx);
    }
    // every content size for the variable-length extension contents (single extension, generic dispatcher and friends)
    {
        let mut builders: Vec<(usize, Box<dyn Fn(usize) -> W + Sync>)> = Vec::new();
        for t in [35u16, 21, 41, 0x1234, 0x0a0a] {
            builders.push((65535, Box::new(move |n| cat::ext(t, |w| {
                w.fill(n, t as u8);
            }))));
        }
        builders.push((65530, Box::new(|n| cat::ext(0, |w| {
            w.block(2, "l", |w| {
                w.u8(0);
                w.block(2, "n", |w| {
                    w.fill(n, b'a');
                });
            });
        }))));
        builders.push((255, Box::new(|n| cat::ext(16, |w| {
            w.block(2, "l", |w| {
                w.block(1, "p", |w| {
                    w.fill(n, b'h');
                });
            });
        }))));
        builders.push((32766, Box::new(|n| cat::ext(10, |w| {
            w.block(2, "l", |w| {
                for i in 0..n {
                    w.u16(i as u16);
                }
            });
        }))));
        builders.push((127, Box::new(|n| cat::ext(43, |w| {
            w.block(1, "l", |w| {
                for i in 0..n {
                    w.u16(0x0300 + i as u16);
                }
            });
        }))));
        builders.push((65533, Box::new(|n| cat::ext(18, |w| {
            w.block(2, "l", |w| {
                w.fill(n, 0x5c);
            });
        }))));
        builders.push((65534, Box::new(|n| cat::ext(5, |w| {
            w.u8(1);
            w.fill(n, 0);
        }))));
        for (max, b) in &builders {
            let all = sizes(*max, thorough);
            let chunks: Vec<&[usize]> = all.chunks(64).collect();
            let sx = par_run(run.threads, chunks.len(), |i, sink| {
                for &n in chunks[i] {
                    check_single(&b(n).buf, sink);
                }
            });
            sink.merge(sx);
        }
    }
    // (2b) inner lists with many elements (255 / 256 / 257 / 1000 / 4000 names, protocols, filters)
    let many = cat::extensions_many();
    let s2b = par_run(run.threads, many.len(), |i, sink| {
        check_single(&many[i].buf, sink);
        let mut cut = many[i].buf.clone();
        cut.pop();
        check_single(&cut, sink);
    });
    sink.merge(s2b);

    // (3) every content string over a small alphabet for each known type (lying inner lengths)
    let a = Alpha::new(&[&[0x00, 0x01, 0x02, 0x03, 0xff], &[0x00, 0x01, 0x02, 0x03, 0x04, 0x05, 0xff]], &[0x00, 0x01, 0x02, 0x03, 0xff]);
    let n = run.tier.pick(6, 8);
    let mut shards: Vec<(u16, Vec<u8>)> = Vec::new();
    for &t in KNOWN_EXT_TYPES.iter().chain([0x0a0au16, 0x1a1a, 0x0a1a, 0x1234].iter()) {
        for s in a.short(1) {
            shards.push((t, s));
        }
        for s in a.shards(1) {
            shards.push((t, s));
        }
    }
    let s3 = par_run(run.threads, shards.len(), |i, sink| {
        let (t, ref prefix) = shards[i];
        let mut buf = Vec::with_capacity(16);
        let mut f = |p: &[u8]| {
            buf.clear();
            buf.extend([(t >> 8) as u8, t as u8, 0, p.len() as u8]);
            buf.extend_from_slice(p);
            check_single(&buf, sink);
        };
        if prefix.is_empty() {
            f(prefix);
        } else {
            a.visit(prefix, n, &mut f);
        }
    });
    sink.merge(s3);

    // (4) lists: every list of <= k extensions from a catalogue, with deviations
    let mut elems: Vec<W> = Vec::new();
    for (i, w) in known.iter().enumerate() {
        if i % 3 == 0 {
            elems.push(w.clone());
        }
    }
    elems.push(cat::ext_with(0x0a0a, &[]));
    elems.push(cat::ext_with(0xfafa, &[1, 2]));
    elems.push(cat::ext_with(0x1234, &[9]));
    elems.push(cat::ext_with(0x0a1a, &[]));
    let nelem = elems.len();
    let k = run.tier.pick(2, 3);
    let mut lists: Vec<W> = vec![W::new()];
    for a in 0..nelem {
        let mut w = W::new();
        w.append(&elems[a]);
        lists.push(w);
    }
    for a in 0..nelem {
        for b in 0..nelem {
            let mut w = W::new();
            w.append(&elems[a]).append(&elems[b]);
            lists.push(w);
        }
    }
    if k >= 3 {
        for a in (0..nelem).step_by(2) {
            for b in (0..nelem).step_by(3) {
                for c in (0..nelem).step_by(2) {
                    let mut w = W::new();
                    w.append(&elems[a]).append(&elems[b]).append(&elems[c]);
                    lists.push(w);
                }
            }
        }
    }
    lists.extend(cat::extension_lists_many());
    let nlists = lists.len();
    let s4 = par_run(run.threads, lists.len(), |i, sink| {
        let dd = if lists[i].lens.len() <= 8 { 1 } else { 0 };
        let mut f = |_: &[vcommon::en::Dev], b: &[u8]| check_list(b, sink);
        vcommon::en::deviations(&lists[i], dd, &sfx, 40, &mut f);
    });
    sink.merge(s4);

    // vacuity: every variant of TlsExtension was produced, every function saw Ok and non-Ok
    if sink.viol.is_empty() {
        let g = sink.groups();
        for (name, _, _) in TAGGED.iter() {
            let h = g.get(name);
            if h.map_or(true, |h| h.get("Ok").copied().unwrap_or(0) == 0 || h.get("not-Ok").copied().unwrap_or(0) == 0) {
                machinery_failure(run.prop, &format!("vacuous: {} never produced both outcomes", name));
            }
        }
    }
    let mut cov = Map::new();
    cov.insert("exhaustive".into(), json!(true));
    cov.insert("known_type_encodings".into(), json!(nknown));
    cov.insert("lists".into(), json!(nlists));
    cov.insert("list_element_catalogue".into(), json!(nelem));
    cov.insert("rule".into(), json!(format!(
        "all 65536 extension types x {} generic contents through the 3 dispatchers, parse_tls_extension_unknown and the 16 tag-specific parsers; {} well-formed encodings of the 26 known types x every combination of <= {} deviations; every content string of length <= {} over a 5-7 letter positional alphabet for each known type, 2 RFC 8701 GREASE values, one mask-only GREASE look-alike and one unassigned type; {} lists of <= {} extensions x single deviations, plus lists of 255 / 256 / 257 / 1000 / 4000 / 16383 extensions and inner lists of 255..4000 elements, through the 3 list parsers. Oracles: strict reference decoder keyed by IANA type, tag == wire type, pairwise agreement of dispatchers, tag parsers accept exactly their own type and agree with the generic parser. Non-trivial: not cut inside the 4-byte header",
        contents.len(), nknown, d, n, nlists, k)));
    // the same check against the crate built with all cargo features (std, serialize, unstable)
    let mut sink = sink;
    if run.tier == Tier::Thorough {
        run.all_features_variant(&mut sink);
    }
    let code = run.finish(
        &sink,
        cov,
        vec![
            "which of the 26 known types the client-hello / server-hello dispatchers decode is not prescribed: an undecoded known type must be preserved as Unknown(type, data)".into(),
            "contents the grammar leaves open (inner list lengths that do not match, trailing bytes) are Unspecified for the value but still subject to the agreement and tag oracles".into(),
        ],
    );
    std::process::exit(code);
}
