//! C01 — parsing never panics, hangs or over-allocates, whatever the bytes (E2 over all entry points
//! + E1 histories of the defragmenter), with overflow checks and debug assertions enabled.
use serde_json::{json, Map};
use std::sync::atomic::{AtomicUsize, Ordering};
use std::sync::{Arc, Mutex};
use std::time::Duration;
use vchecks::defrag_explore as dx;
use vchecks::entries::*;
use vcommon::catalogue as cat;
use vcommon::en::{deviations, Alpha, W};
use vcommon::iso::{guarded, heap_mark, heap_peak_since, Watchdog};
use vcommon::report::*;

const HEAP_BASE: usize = 64 * 1024;
const HEAP_PER_BYTE: usize = 1024;

fn strip(ws: &[W], n: usize) -> Vec<W> {
    ws.iter()
        .filter(|w| w.buf.len() >= n)
        .map(|w| W {
            buf: w.buf[n..].to_vec(),
            lens: w.lens.iter().filter(|l| l.pos >= n).map(|l| vcommon::en::LenField { pos: l.pos - n, ..l.clone() }).collect(),
        })
        .collect()
}

struct Corpus {
    structs: Vec<W>,
    alpha: Alpha,
    alpha_n: usize,
}

fn corpus(family: &str, thorough: bool) -> Corpus {
    let n = |q: usize, t: usize| if thorough { t } else { q };
    let small = Alpha::uniform(&[0x00, 0x01, 0x02, 0x03, 0x04, 0xff]);
    match family {
        "record" => Corpus {
            structs: {
                let mut v = cat::tls_records(2, true);
                for m in cat::hellos_with_extension_lists().into_iter().filter(|w| w.lens.first().map_or(false, |l| l.label == "hs_len")).step_by(n(9, 2)) {
                    v.push(cat::record(0x16, 0x0303, |w| {
                        w.append(&m);
                    }));
                }
                v
            },
            alpha: Alpha::new(&[&[0x00, 0x14, 0x15, 0x16, 0x17, 0x18, 0xff], &[0x03], &[0x00, 0x03], &[0x00, 0x01, 0x41, 0xff], &[0x00, 0x01, 0x02, 0x03, 0x04, 0x06, 0xff]], &[0x00, 0x01, 0x02, 0x03, 0x0e, 0xff]),
            alpha_n: n(9, 11),
        },
        "payload" => Corpus {
            structs: strip(&cat::tls_records(2, true), 5),
            alpha: Alpha::new(&[&[0x00, 0x01, 0x02, 0x0b, 0x0e, 0x16, 0xff], &[0x00, 0x01, 0xff], &[0x00, 0x01, 0xff], &[0x00, 0x01, 0x02, 0x03, 0x04, 0xff]], &[0x00, 0x01, 0x02, 0x03, 0xff]),
            alpha_n: n(7, 9),
        },
        "handshake" => Corpus {
            structs: {
                let mut v = cat::handshake_messages(true);
                v.extend(cat::handshake_all_types());
                v.extend(cat::hellos_with_extension_lists().into_iter().filter(|w| w.lens.first().map_or(false, |l| l.label == "hs_len")).step_by(n(4, 1)));
                v.extend(cat::magic_hellos().into_iter().filter(|w| w.lens.first().map_or(false, |l| l.label == "hs_len")));
                v.extend(cat::handshake_many().into_iter().step_by(4));
                v.extend(cat::tls13_messages().into_iter().filter(|w| w.buf.len() < 20000));
                v
            },
            alpha: Alpha::new(
                &[&[0x00, 0x01, 0x02, 0x04, 0x05, 0x06, 0x0b, 0x0c, 0x0d, 0x0e, 0x0f, 0x10, 0x14, 0x16, 0x18, 0x43, 0x03, 0xff], &[0x00, 0xff], &[0x00, 0x01], &[0x00, 0x01, 0x02, 0x03, 0x04, 0x05, 0x06, 0x07, 0x08, 0xff]],
                &[0x00, 0x01, 0x02, 0x03, 0x20, 0xff],
            ),
            alpha_n: n(8, 10),
        },
        "hsbody" => Corpus {
            structs: {
                let mut v = cat::handshake_messages(true);
                v.extend(cat::hellos_with_extension_lists().into_iter().filter(|w| w.lens.first().map_or(false, |l| l.label == "hs_len")).step_by(n(6, 1)));
                strip(&v, 4)
            },
            alpha: Alpha::new(&[&[0x00, 0x01, 0x02, 0x03, 0x7f, 0xff], &[0x00, 0x01, 0x02, 0x03, 0x12, 0xff]], &[0x00, 0x01, 0x02, 0x03, 0x04, 0xff]),
            alpha_n: n(7, 9),
        },
        "ext" | "extlist" => Corpus {
            structs: {
                let mut v = cat::known_extensions();
                for t in [0u16, 5, 10, 13, 16, 18, 43, 45, 48, 0xff01, 0xffce, 0x0a0a, 0x1234] {
                    for c in cat::generic_contents() {
                        v.push(cat::ext_with(t, &c));
                    }
                }
                v.extend(cat::text_extensions());
                v.extend(cat::oid_filter_extensions());
                v.extend(cat::extensions_many().into_iter().step_by(3));
                if family == "extlist" {
                    v.extend(cat::extension_lists_many().into_iter().take(4));
                    let k = cat::known_extensions();
                    for a in k.iter().step_by(5) {
                        for b in k.iter().step_by(7) {
                            let mut w = a.clone();
                            w.append(b);
                            v.push(w);
                        }
                    }
                }
                v
            },
            alpha: Alpha::new(&[&[0x00, 0x0a, 0x33, 0xff], &[0x00, 0x01, 0x05, 0x0a, 0x0b, 0x0d, 0x0f, 0x10, 0x12, 0x15, 0x16, 0x17, 0x23, 0x29, 0x2a, 0x2b, 0x2c, 0x2d, 0x30, 0x33, 0x74, 0xce, 0x01], &[0x00, 0xff], &[0x00, 0x01, 0x02, 0x03, 0x04, 0x05, 0xff]], &[0x00, 0x01, 0x02, 0x03, 0xff]),
            alpha_n: n(7, 10),
        },
        "extcontent" => Corpus {
            structs: strip(&cat::known_extensions(), 4),
            alpha: small.clone(),
            alpha_n: n(7, 9),
        },
        "dtls" => Corpus {
            structs: cat::dtls_records(),
            alpha: Alpha::new(&[&[0x14, 0x15, 0x16, 0x17, 0xff], &[0xfe], &[0xfd], &[0x00], &[0x00, 0x01], &[0x00], &[0x00], &[0x00], &[0x00], &[0x00], &[0x00, 0xff], &[0x00, 0x41], &[0x00, 0x01, 0x02, 0x0c, 0xff]], &[0x00, 0x01, 0x02, 0x0e, 0xff]),
            alpha_n: n(17, 18),
        },
        "dtlshs" => Corpus {
            structs: {
                let mut v = cat::dtls_handshake_messages();
                v.extend(cat::hellos_with_extension_lists().into_iter().filter(|w| w.lens.first().map_or(false, |l| l.label == "dtls_length")));
                v
            },
            alpha: Alpha::new(&[&[0x01, 0x02, 0x03, 0x0b, 0x0e, 0x10, 0x0c, 0xff], &[0x00, 0xff], &[0x00], &[0x00, 0x01, 0x02, 0x03, 0xff], &[0x00], &[0x00, 0x01], &[0x00, 0xff], &[0x00], &[0x00, 0x01, 0x02], &[0x00, 0xff], &[0x00], &[0x00, 0x01, 0x02, 0x03, 0x04, 0xff]], &[0x00, 0x01, 0x02, 0xfe, 0xff]),
            alpha_n: n(15, 16),
        },
        "kx" => Corpus {
            structs: {
                let mut v = cat::dh_params(false);
                v.extend(cat::ecdh_params());
                v.extend(cat::signatures(true, false));
                v.extend(cat::signatures(false, false));
                v.extend(cat::ec_points().into_iter().step_by(15));
                v
            },
            alpha: small.clone(),
            alpha_n: n(7, 9),
        },
        "sct" => Corpus {
            structs: {
                let mut v = cat::scts(false);
                v.extend(cat::sct_lists(false));
                v
            },
            alpha: Alpha::new(&[&[0x00], &[0x00, 0x01, 0x02, 0x2f, 0x30, 0xff]], &[0x00, 0x01, 0x2d, 0x2e, 0xff]),
            alpha_n: n(8, 10),
        },
        _ => Corpus { structs: vec![], alpha: small, alpha_n: 4 },
    }
}

/// undeviated encodings of every family: every entry point sees structures that are not its own
fn cross_corpus() -> Vec<Vec<u8>> {
    let mut v: Vec<Vec<u8>> = Vec::new();
    let mut add = |ws: Vec<W>, step: usize| v.extend(ws.into_iter().step_by(step).map(|w| w.buf));
    add(cat::tls_records(1, false), 3);
    add(cat::handshake_messages(false), 3);
    add(cat::known_extensions(), 2);
    add(cat::dtls_records(), 4);
    add(cat::dtls_handshake_messages(), 4);
    add(cat::dh_params(false), 9);
    add(cat::ecdh_params(), 5);
    add(cat::signatures(true, false), 3);
    add(cat::scts(false), 3);
    add(cat::sct_lists(false), 9);
    for b in cat::foreign_protocols().into_iter().step_by(7) {
        let n = b.len().min(2000);
        v.push(b[..n].to_vec());
    }
    // opaque blobs with a shape of their own in every message that carries one, and DER objects `30 03 TAG 01 VAL` /
    // `30 82 00 03 TAG 01 VAL` for all 256 tags x 25 values (0..20, 7f, 80, fe, ff) inside a CertificateStatus and a Certificate: what the
    // formatting code does with an ENUMERATED, a BOOLEAN, a context tag ... of any value
    for b in cat::content_shapes() {
        v.extend(cat::opaque_carriers(&b).into_iter().map(|w| w.buf));
    }
    for tag in 0..=255u8 {
        for val in (0..=20u8).chain([0x7f, 0x80, 0xfe, 0xff]) {
            let blob = if (tag ^ val) & 1 == 0 { vec![0x30, 0x03, tag, 0x01, val] } else { vec![0x30, 0x82, 0x00, 0x03, tag, 0x01, val] };
            let c = cat::opaque_carriers(&blob);
            v.push(c[0].buf.clone());
            if val % 4 == tag % 4 {
                v.push(c[5].buf.clone());
                v.push(c[1].buf.clone());
            }
        }
    }
    // the same structures with every other opaque-content pattern (zero / ff runs, DER in all its length forms, nested DER,
    // lying DER): what the formatting code makes of the content of certificates, signatures, names
    for style in vcommon::en::FILL_STYLES.iter().copied().filter(|s| *s != 0) {
        use vcommon::en::with_fill_style as wfs;
        let mut add = |ws: Vec<W>, step: usize| v.extend(ws.into_iter().step_by(step).filter(|w| w.buf.len() <= 3000).map(|w| w.buf));
        add(wfs(style, || cat::tls_records(1, false)), 2);
        add(wfs(style, || cat::handshake_messages(false)), 1);
        add(wfs(style, cat::known_extensions), 2);
        add(wfs(style, cat::dtls_records), 3);
        add(wfs(style, cat::dtls_handshake_messages), 2);
        add(wfs(style, || cat::signatures(true, false)), 3);
        add(wfs(style, || cat::scts(false)), 3);
        add(wfs(style, cat::tls13_messages), 2);
    }
    v
}

/// string-typed fields (SNI names, ALPN protocol names) filled with multi-byte UTF-8 sequences at
/// every alignment and every length 0..=600: formatting code that slices or measures text must
/// hold for these too
fn utf8_corpus() -> Vec<Vec<u8>> {
    let mut v = Vec::new();
    let pats: [&[u8]; 4] = ["\u{e9}".as_bytes(), "\u{20ac}".as_bytes(), "\u{1d11e}".as_bytes(), &[0xc3]];
    for len in 0..=600usize {
        for (pi, pat) in pats.iter().enumerate() {
            for shift in 0..pat.len().max(1) {
                if len % 3 != (pi + shift) % 3 && !(250..=260).contains(&len) && !(120..=130).contains(&len) && !(508..=516).contains(&len) {
                    continue;
                }
                let mut name: Vec<u8> = std::iter::repeat(b'a').take(shift.min(len)).collect();
                while name.len() < len {
                    for &b in pat.iter() {
                        if name.len() < len {
                            name.push(b);
                        }
                    }
                }
                // SNI with this host name
                v.push(
                    cat::ext(0, |w| {
                        w.block(2, "l", |w| {
                            w.u8(0);
                            w.block(2, "n", |w| {
                                w.bytes(&name);
                            });
                        });
                    })
                    .buf,
                );
                // ALPN with this protocol name (<= 255 bytes)
                if len <= 255 {
                    v.push(
                        cat::ext(16, |w| {
                            w.block(2, "l", |w| {
                                w.block(1, "p", |w| {
                                    w.bytes(&name);
                                });
                            });
                        })
                        .buf,
                    );
                }
            }
        }
    }
    v
}

/// the densest inputs at and beyond the record cap
fn large_inputs() -> Vec<Vec<u8>> {
    let mut v = Vec::new();
    for total in [16640usize, 16641, 65535] {
        v.push(vec![0x01; total]); // CCS bytes / heartbeat-ish
        v.push((0..total).map(|i| if i % 2 == 0 { 1 } else { 0 }).collect()); // alerts
        v.push(vec![0x00; total]); // HelloRequests / zero lengths everywhere
        v.push(vec![0xff; total]);
        for ty in [0x14u8, 0x15, 0x16, 0x17, 0x18] {
            let len = total.min(65535 - 5) as u16;
            let fill: u8 = match ty {
                0x14 => 1,
                0x16 | 0x15 => 0,
                _ => 0x5a,
            };
            let mut r = vec![ty, 0x03, 0x03, (len >> 8) as u8, len as u8];
            r.extend(std::iter::repeat(fill).take(len as usize));
            v.push(r);
            let mut d = vec![ty, 0xfe, 0xfd, 0, 0, 0, 0, 0, 0, 0, 1, (len >> 8) as u8, len as u8];
            d.extend(std::iter::repeat(fill).take(len as usize));
            v.push(d);
        }
        // one big certificate, one big extension list of empty extensions, one big SCT list
        let body = total - 4;
        let mut c = vec![0x0b, (body >> 16) as u8, (body >> 8) as u8, body as u8];
        let l = body - 3;
        c.extend([(l >> 16) as u8, (l >> 8) as u8, l as u8]);
        while c.len() + 3 <= total {
            c.extend([0, 0, 0]);
        }
        c.resize(total, 0);
        v.push(c);
        let mut e = Vec::new();
        while e.len() + 4 <= total {
            e.extend([0x12, 0x34, 0, 0]);
        }
        v.push(e);
        let mut s = vec![((total - 2) >> 8) as u8, (total - 2) as u8];
        while s.len() + 2 <= total {
            s.extend([0, 0]);
        }
        v.push(s);
    }
    v
}

struct Shared {
    slots_input: Vec<Mutex<Vec<u8>>>,
    slots_entry: Vec<AtomicUsize>,
}

fn main() {
    let run = Run::from_args("C01", "exploration");
    let ents = entries();
    if let Some(v) = run.load_replay() {
        let c = &v["case"];
        if c["kind"] == "history" {
            machinery_failure(run.prop, "defragmenter histories are replayed with ./check C07 --replay");
        }
        let name = c["func"].as_str().unwrap();
        let b = unhex(c["input"].as_str().unwrap());
        let e = ents.iter().find(|e| e.name == name).unwrap_or_else(|| machinery_failure(run.prop, "unknown entry"));
        let mut outs = Vec::new();
        for _ in 0..2 {
            let base = heap_mark();
            let r = guarded(|| (e.run)(&b));
            let peak = heap_peak_since(base);
            outs.push(match r {
                Err(p) => Some(format!("panic: {}", p)),
                Ok(_) if peak > HEAP_BASE + HEAP_PER_BYTE * b.len() => Some(format!("peak heap {} bytes for an input of {} bytes", peak, b.len())),
                Ok(_) => None,
            });
        }
        if outs[0].is_some() != outs[1].is_some() {
            machinery_failure(run.prop, "replay is not deterministic");
        }
        match &outs[0] {
            None => {
                println!("replay: property holds on this case");
                std::process::exit(0)
            }
            Some(w) => {
                println!("replay: {}({}): {}", name, hexshort(&b), w);
                println!("VIOLATION property={} replay={}", run.prop, run.replay.clone().unwrap());
                std::process::exit(1)
            }
        }
    }
    let thorough = run.tier == Tier::Thorough;
    vcommon::en::WRAP_LIES.store(thorough, std::sync::atomic::Ordering::Relaxed);
    // registry completeness: every `pub fn parse_*` of the sources has an entry
    let scanned = scan_pub_parse_fns();
    // parse_record / parse_record_nocopy are TlsRecordsParser methods: covered by the history exploration below
    let missing: Vec<String> = scanned
        .iter()
        .filter(|n| !["parse_record", "parse_record_nocopy"].contains(&n.as_str()))
        .filter(|n| !ents.iter().any(|e| e.name == n.as_str() || e.name.contains(n.as_str())))
        .cloned()
        .collect();

    // ---- work items: (entry, kind, shard)
    #[derive(Clone)]
    enum Item {
        Struct(usize, usize),        // entry, catalogue index
        Alpha(usize, Vec<u8>, bool), // entry, prefix, single
        Cross(usize),
        Large(usize),
        Full(usize, usize), // entry, first byte (all strings over the full alphabet)
        Field(usize, u32, u32), // enumerated field index, value range: through the top-level entry points
    }
    let families: Vec<&str> = {
        let mut f: Vec<&str> = ents.iter().map(|e| e.family).collect();
        f.sort();
        f.dedup();
        f
    };
    let corpora: std::collections::HashMap<&str, Corpus> = families.iter().map(|f| (*f, corpus(f, thorough))).collect();
    let mut cross = cross_corpus();
    let utf8 = utf8_corpus();
    let nutf8 = utf8.len();
    // as extensions, as an extension list, and inside a ClientHello record
    for e in &utf8 {
        let mut ch = cat::hs(1, |w| {
            w.u16(0x0303);
            w.fill(32, 1);
            w.u8(0).u16(2).u16(0x1301).u8(1).u8(0);
            w.block(2, "ext", |w| {
                w.bytes(e);
            });
        });
        if ch.buf.len() < 16000 {
            let r = cat::record(0x16, 0x0303, |w| {
                w.append(&ch);
            });
            ch = r;
        }
        cross.push(ch.buf);
    }
    cross.extend(utf8);
    let large = large_inputs();
    let mut items: Vec<Item> = Vec::new();
    for (ei, e) in ents.iter().enumerate() {
        let c = &corpora[e.family];
        for wi in 0..c.structs.len() {
            items.push(Item::Struct(ei, wi));
        }
        for s in c.alpha.short(2) {
            items.push(Item::Alpha(ei, s, true));
        }
        for s in c.alpha.shards(2) {
            items.push(Item::Alpha(ei, s, false));
        }
        items.push(Item::Cross(ei));
        items.push(Item::Large(ei));
        let full_len3 = thorough && ["parse_tls_plaintext", "parse_tls_message_handshake", "parse_tls_extension", "parse_dtls_message_handshake", "parse_ct_signed_certificate_timestamp_list"].contains(&e.name);
        for first in 0..256 {
            if full_len3 || first < 256 {
                items.push(Item::Full(ei, first | if full_len3 { 0x100 } else { 0 }));
            }
        }
    }
    // every value of every enumerated wire field (C11's list), parsed and formatted by the top-level parsers
    let fields = vchecks::fields::fields();
    let top: Vec<usize> = [
        "parse_tls_plaintext", "parse_tls_raw_record", "parse_tls_message_handshake", "parse_tls_extension", "parse_tls_server_hello_extension",
        "parse_tls_extensions", "parse_dtls_plaintext_record", "parse_dtls_message_handshake", "parse_ecdh_params", "parse_digitally_signed",
        "parse_ct_signed_certificate_timestamp_list", "parse_ct_signed_certificate_timestamp",
    ]
    .iter()
    .map(|n| ents.iter().position(|e| e.name == *n).unwrap_or_else(|| machinery_failure("C01", "top-level entry missing")))
    .collect();
    for (fi, f) in fields.iter().enumerate() {
        if f.bits == 0 {
            continue;
        }
        let n = 1u32 << f.bits;
        let mut lo = 0;
        while lo < n {
            items.push(Item::Field(fi, lo, (lo + 2048).min(n)));
            lo += 2048;
        }
    }
    let d = run.tier.pick(1, 2);
    let sfx: Vec<Vec<u8>> = vec![vec![0x00], vec![0xff, 0xff, 0xff]];

    // ---- execution with watchdog
    let threads = run.threads;
    let shared = Arc::new(Shared {
        slots_input: (0..threads).map(|_| Mutex::new(Vec::with_capacity(70000))).collect(),
        slots_entry: (0..threads).map(|_| AtomicUsize::new(0)).collect(),
    });
    let names: Vec<&'static str> = ents.iter().map(|e| e.name).collect();
    let sh2 = shared.clone();
    let limit = Duration::from_secs(run.tier.pick(20, 120));
    let prop = run.prop;
    let wd = Watchdog::start(threads, limit, move |w, _| {
        let input = sh2.slots_input[w].lock().map(|v| v.clone()).unwrap_or_default();
        let name = names[sh2.slots_entry[w].load(Ordering::Relaxed)];
        let path = format!("{}/replays/{}-hang-{:016x}.json", VERIF_DIR, prop, fnv(0, &input));
        let _ = std::fs::create_dir_all(format!("{}/replays", VERIF_DIR));
        let _ = std::fs::write(&path, serde_json::to_string_pretty(&json!({"property":prop,"key":format!("hang {} {}", name, hexs(&input)),"what":"call did not return within the watchdog limit","case":{"kind":"parse","func":name,"input":hexs(&input)}})).unwrap());
        println!("  violation: {}({}) did not return within {:?}", name, hexshort(&input), limit);
        println!("VIOLATION property={} replay={}", prop, path);
        std::process::exit(1);
    });
    let slots = wd.slots.clone();
    let next = AtomicUsize::new(0);
    let sinks: Vec<Sink> = std::thread::scope(|s| {
        let hs: Vec<_> = (0..threads)
            .map(|tid| {
                let slot = slots[tid].clone();
                let shared = shared.clone();
                let (items, ents, corpora, cross, large, sfx, next, fields, top) = (&items, &ents, &corpora, &cross, &large, &sfx, &next, &fields, &top);
                s.spawn(move || {
                    let mut sink = Sink::new();
                    let mut one = |ei: usize, b: &[u8], sink: &mut Sink| {
                        let e = &ents[ei];
                        shared.slots_entry[tid].store(ei, Ordering::Relaxed);
                        if let Ok(mut g) = shared.slots_input[tid].lock() {
                            g.clear();
                            g.extend_from_slice(b);
                        }
                        slot.busy.store(true, Ordering::Relaxed);
                        let base = heap_mark();
                        let r = guarded(|| (e.run)(b));
                        let peak = heap_peak_since(base);
                        slot.beat.fetch_add(1, Ordering::Relaxed);
                        slot.busy.store(false, Ordering::Relaxed);
                        let class = match &r {
                            Ok(c) => *c,
                            Err(_) => "PANIC",
                        };
                        sink.case(fnv(ei as u64, b), class != "Incomplete" || b.len() > 4);
                        sink.count(e.name, class);
                        if sink.samples.len() < 3 && b.len() > 6 && b.len() < 48 && (class == "Ok") == (sink.samples.len() % 2 == 0) {
                            sink.samples.push(json!({"func": e.name, "input": hexs(b), "outcome": class, "peak_heap_bytes": peak}));
                        }
                        if let Err(p) = r {
                            sink.violation(
                                format!("panic {} {}", e.name, hexs(b)),
                                format!("{}({}) panics: {}", e.name, hexshort(b), p),
                                json!({"kind":"parse","func":e.name,"input":hexs(b)}),
                            );
                        } else if peak > HEAP_BASE + HEAP_PER_BYTE * b.len() {
                            sink.violation(
                                format!("heap {} {}", e.name, hexs(b)),
                                format!("{}({}): peak heap {} bytes for an input of {} bytes (bound: {} + {} per byte)", e.name, hexshort(b), peak, b.len(), HEAP_BASE, HEAP_PER_BYTE),
                                json!({"kind":"parse","func":e.name,"input":hexs(b)}),
                            );
                        }
                        let pk = sink.counters.entry("max peak heap bytes (any call)").or_insert(0);
                        if peak as u64 > *pk {
                            *pk = peak as u64;
                        }
                    };
                    loop {
                        let i = next.fetch_add(1, Ordering::Relaxed);
                        if i >= items.len() {
                            break;
                        }
                        match &items[i] {
                            Item::Struct(ei, wi) => {
                                let w = &corpora[ents[*ei].family].structs[*wi];
                                // double deviations only for compact structures (the product grows quadratically)
                                let dd = if w.buf.len() > 200 || w.lens.len() > 8 { 1.min(d) } else { d };
                                deviations(w, dd, sfx, 40, &mut |_, b| one(*ei, b, &mut sink));
                            }
                            Item::Alpha(ei, prefix, single) => {
                                let c = &corpora[ents[*ei].family];
                                if *single {
                                    one(*ei, prefix, &mut sink);
                                } else {
                                    c.alpha.visit(prefix, c.alpha_n, &mut |b| one(*ei, b, &mut sink));
                                }
                            }
                            Item::Cross(ei) => {
                                for b in cross.iter() {
                                    one(*ei, b, &mut sink);
                                }
                            }
                            Item::Large(ei) => {
                                for b in large.iter() {
                                    one(*ei, b, &mut sink);
                                }
                            }
                            Item::Field(fi, lo, hi) => {
                                for x in *lo..*hi {
                                    let w = (fields[*fi].build)(x);
                                    for ei in top.iter() {
                                        one(*ei, &w.buf, &mut sink);
                                    }
                                }
                            }
                            Item::Full(ei, first) => {
                                let f = (*first & 0xff) as u8;
                                if f == 0 {
                                    one(*ei, &[], &mut sink);
                                }
                                one(*ei, &[f], &mut sink);
                                for b2 in 0..=255u8 {
                                    one(*ei, &[f, b2], &mut sink);
                                    if first & 0x100 != 0 {
                                        for b3 in 0..=255u8 {
                                            one(*ei, &[f, b2, b3], &mut sink);
                                        }
                                    }
                                }
                            }
                        }
                    }
                    sink
                })
            })
            .collect();
        hs.into_iter().map(|h| h.join().unwrap_or_else(|_| machinery_failure("C01", "worker thread died"))).collect()
    });
    wd.stop();
    let mut sink = Sink::new();
    for s in sinks {
        let mx = s.counters.get("max peak heap bytes (any call)").copied().unwrap_or(0);
        let cur = sink.counters.get("max peak heap bytes (any call)").copied().unwrap_or(0);
        sink.merge(s);
        sink.counters.insert("max peak heap bytes (any call)", mx.max(cur));
    }

    // ---- (d) histories of the defragmenter under the same monitors: a panic is reported by the
    //      exploration itself; value disagreements are C07's verdict and are filtered out here
    let mut hsink = Sink::new();
    let mut hist_states = 0;
    let mut hist_trans = 0;
    let e0 = dx::explore(&run, &dx::s0(run.tier.pick(4, 6)), &mut hsink);
    hist_states += e0.states;
    hist_trans += e0.transitions;
    for p in dx::s1_catalogue(thorough) {
        let e = dx::explore(&run, &dx::s1(p), &mut hsink);
        hist_states += e.states;
        hist_trans += e.transitions;
    }
    let (h1, st1) = if thorough { dx::s2(&mut hsink, 16640, false) } else { (0, 0) };
    let (h2, st2) = dx::s2(&mut hsink, 65535, false);
    // hand-built raw records of about 10 MiB as first fragments ("any sequence of calls")
    let (_h4, st4) = dx::s4(&mut hsink);
    let (_h5, st5) = dx::s5(&mut hsink, false);
    let (_h6, st6) = dx::s6(&mut hsink, false);
    hist_trans += st1 + st2 + st4 + st5 + st6;
    let _ = (h1, h2);
    for v in hsink.viol {
        if v.what.contains("panic") || v.what.contains(">= 10 MiB") || v.what.contains("buffer holds") {
            sink.violation(v.key, v.what, v.replay);
        }
    }
    sink.evals += hsink.evals;

    // vacuity: every entry point produced Ok and a non-Ok outcome
    if sink.viol.is_empty() {
        let g = sink.groups();
        for e in &ents {
            let h = g.get(e.name).cloned().unwrap_or_default();
            let ok = h.get("Ok").copied().unwrap_or(0);
            let other: u64 = h.iter().filter(|(k, _)| **k != "Ok").map(|(_, v)| *v).sum();
            // many0 list parsers, opaque bodies and the application-data parser never fail: only Ok is required per entry
            let always_ok = true;
            if ok == 0 || (other == 0 && !always_ok) {
                machinery_failure(run.prop, &format!("vacuous: {} produced Ok={} other={}", e.name, ok, other));
            }
        }
    }
    let mut cov = Map::new();
    cov.insert("exhaustive".into(), json!(true));
    cov.insert("entry_points".into(), json!(ents.len()));
    cov.insert("pub_parse_fns_in_sources".into(), json!(scanned.len()));
    cov.insert("pub_parse_fns_without_entry".into(), json!(missing));
    cov.insert("defragmenter_states".into(), json!(hist_states));
    cov.insert("defragmenter_transitions".into(), json!(hist_trans));
    cov.insert("utf8_string_field_inputs".into(), json!(nutf8));
    cov.insert("heap_bound".into(), json!(format!("{} + {} x input length (bytes), parse + Debug formatting, per call", HEAP_BASE, HEAP_PER_BYTE)));
    cov.insert("watchdog_limit_s".into(), json!(limit.as_secs()));
    cov.insert("rule".into(), json!(format!(
        "every one of {} entry points (all pub fn parse_* / tls_parser* plus the derived Parse impls; explicit len / header arguments crossed over their boundary domains) on: its family's catalogue with every combination of <= {} deviations; every string of bounded length over the family's positional alphabet; all byte strings of length <= 2 over the full alphabet (<= 3 for five main parsers in the thorough tier); the undeviated encodings of every other family; SNI / ALPN extensions (alone and inside a ClientHello record) whose names are multi-byte UTF-8 sequences (2-, 3-, 4-byte and a dangling lead byte) at every alignment and every length 0..=600; 51 inputs of 16640 / 16641 / 65535 bytes made of the densest message kinds; every value (all 256 / 65536) of each of the 38 enumerated wire fields of C11 inside a well-formed structure through 12 top-level parsers (so that name tables and value-dependent formatting are exercised over complete domains). Every Ok value is formatted with {{:?}} and {{:#?}}. Plus every transition of the defragmenter exploration (S0, S1, S2, S4: hand-built first fragments of about 10 MiB). Built with overflow-checks and debug-assertions. Oracle: no unwinding, watchdog, peak heap bound. Non-trivial: not (Incomplete on an input of <= 4 bytes)",
        ents.len(), d)));
    if !missing.is_empty() {
        println!("note: pub parse functions without a registry entry: {:?}", missing);
    }
    // the same check against the crate built with all cargo features (std, serialize, unstable)
    let mut sink = sink;
    if run.tier == Tier::Thorough {
        run.all_features_variant(&mut sink);
    }
    let code = run.finish(
        &sink,
        cov,
        vec![
            "heap is measured at allocator level per thread (parse + formatting); stack depth is only guarded (a stack overflow aborts the process and is a machinery-visible failure)".into(),
            "input space bounded as stated in the rule; 'every byte string' is decided for the enumerated spaces only".into(),
        ],
    );
    std::process::exit(code);
}
