//! Adapter between the harness and the crate under test.
pub use vcommon;
pub mod states;
pub mod registries;
pub mod mirror;
pub mod defrag;
pub mod sweep;
pub mod targets;
pub mod defrag_explore;
pub mod entries;
pub mod fields;
pub mod multi;
pub mod genprobe;
