//! Owned mirror values of everything the crate's parsers return, built by field access.
//! Slices become (offset, len) relative to a base buffer, so provenance is part of the value.
use tls_parser::nom::error::ErrorKind;
use tls_parser::nom::{Err, IResult, Needed};
use tls_parser::*;
use vcommon::v::{Got, OUTSIDE, V};

#[derive(Clone, Copy)]
pub struct Base {
    pub ptr: usize,
    pub len: usize,
    /// content mode: slices are mirrored by their bytes (for values that do not come from one buffer)
    pub content: bool,
}

impl Base {
    pub fn of(b: &[u8]) -> Base {
        Base {
            ptr: b.as_ptr() as usize,
            len: b.len(),
            content: false,
        }
    }
    pub fn content() -> Base {
        Base {
            ptr: 0,
            len: 0,
            content: true,
        }
    }
    /// mirror of a slice: position inside the base buffer, or OUTSIDE
    pub fn s(&self, sl: &[u8]) -> V {
        if self.content {
            return V::B(sl.to_vec());
        }
        if sl.is_empty() {
            return V::S(0, 0);
        }
        let p = sl.as_ptr() as usize;
        if p >= self.ptr && p + sl.len() <= self.ptr + self.len {
            V::S(p - self.ptr, sl.len())
        } else {
            V::S(OUTSIDE, sl.len())
        }
    }
    pub fn os(&self, sl: Option<&[u8]>) -> V {
        match sl {
            Some(s) => V::some(self.s(s)),
            None => V::None,
        }
    }
}

pub trait ToV {
    fn to_v(&self, b: &Base) -> V;
}

fn u<T: Into<u64>>(x: T) -> V {
    V::U(x.into())
}

impl<T: ToV> ToV for Vec<T> {
    fn to_v(&self, b: &Base) -> V {
        V::L(self.iter().map(|x| x.to_v(b)).collect())
    }
}

impl<T: ToV> ToV for Option<T> {
    fn to_v(&self, b: &Base) -> V {
        match self {
            Some(x) => V::some(x.to_v(b)),
            None => V::None,
        }
    }
}

impl<A: ToV, B: ToV> ToV for (A, B) {
    fn to_v(&self, b: &Base) -> V {
        V::N("Pair", vec![self.0.to_v(b), self.1.to_v(b)])
    }
}

impl ToV for TlsRecordHeader {
    fn to_v(&self, _: &Base) -> V {
        V::N("Hdr", vec![u(self.record_type.0), u(self.version.0), u(self.len)])
    }
}

impl<'a> ToV for TlsPlaintext<'a> {
    fn to_v(&self, b: &Base) -> V {
        V::N("Plaintext", vec![self.hdr.to_v(b), self.msg.to_v(b)])
    }
}

impl<'a> ToV for TlsRawRecord<'a> {
    fn to_v(&self, b: &Base) -> V {
        V::N("Raw", vec![self.hdr.to_v(b), b.s(self.data)])
    }
}

impl<'a> ToV for TlsEncrypted<'a> {
    fn to_v(&self, b: &Base) -> V {
        V::N("Encrypted", vec![self.hdr.to_v(b), b.s(self.msg.blob)])
    }
}

impl<'a> ToV for TlsMessage<'a> {
    fn to_v(&self, b: &Base) -> V {
        match self {
            TlsMessage::Handshake(h) => h.to_v(b),
            TlsMessage::ChangeCipherSpec => V::N("CCS", vec![]),
            TlsMessage::Alert(a) => V::N("Alert", vec![u(a.severity.0), u(a.code.0)]),
            TlsMessage::ApplicationData(d) => V::N("AppData", vec![b.s(d.blob)]),
            TlsMessage::Heartbeat(h) => V::N(
                "Heartbeat",
                vec![u(h.heartbeat_type.0), u(h.payload_len), b.s(h.payload)],
            ),
        }
    }
}

fn ciphers(v: &[TlsCipherSuiteID]) -> V {
    V::L(v.iter().map(|c| u(c.0)).collect())
}
fn comps(v: &[TlsCompressionID]) -> V {
    V::L(v.iter().map(|c| u(c.0)).collect())
}

impl<'a> ToV for TlsClientHelloContents<'a> {
    fn to_v(&self, b: &Base) -> V {
        V::N(
            "ClientHello",
            vec![
                u(self.version.0),
                b.s(self.random),
                b.os(self.session_id),
                ciphers(&self.ciphers),
                comps(&self.comp),
                b.os(self.ext),
            ],
        )
    }
}

impl<'a> ToV for TlsServerHelloContents<'a> {
    fn to_v(&self, b: &Base) -> V {
        V::N(
            "ServerHello",
            vec![
                u(self.version.0),
                b.s(self.random),
                b.os(self.session_id),
                u(self.cipher.0),
                u(self.compression.0),
                b.os(self.ext),
            ],
        )
    }
}

impl<'a> ToV for TlsCertificateContents<'a> {
    fn to_v(&self, b: &Base) -> V {
        V::N(
            "Certificate",
            vec![V::L(self.cert_chain.iter().map(|c| b.s(c.data)).collect())],
        )
    }
}

impl<'a> ToV for TlsCertificateRequestContents<'a> {
    fn to_v(&self, b: &Base) -> V {
        V::N(
            "CertificateRequest",
            vec![
                V::L(self.cert_types.iter().map(|x| u(*x)).collect()),
                match &self.sig_hash_algs {
                    Some(v) => V::some(V::L(v.iter().map(|x| u(*x)).collect())),
                    None => V::None,
                },
                V::L(self.unparsed_ca.iter().map(|c| b.s(c)).collect()),
            ],
        )
    }
}

impl<'a> ToV for TlsCertificateStatusContents<'a> {
    fn to_v(&self, b: &Base) -> V {
        V::N("CertificateStatus", vec![u(self.status_type), b.s(self.blob)])
    }
}

impl<'a> ToV for TlsNextProtocolContent<'a> {
    fn to_v(&self, b: &Base) -> V {
        V::N("NextProtocol", vec![b.s(self.selected_protocol), b.s(self.padding)])
    }
}

impl<'a> ToV for TlsClientKeyExchangeContents<'a> {
    fn to_v(&self, b: &Base) -> V {
        match self {
            TlsClientKeyExchangeContents::Unknown(d) => V::N("Unknown", vec![b.s(d)]),
            TlsClientKeyExchangeContents::Dh(d) => V::N("Dh", vec![b.s(d)]),
            TlsClientKeyExchangeContents::Ecdh(p) => V::N("Ecdh", vec![b.s(p.point)]),
        }
    }
}

impl<'a> ToV for TlsNewSessionTicketContent<'a> {
    fn to_v(&self, b: &Base) -> V {
        V::N("NewSessionTicket", vec![u(self.ticket_lifetime_hint), b.s(self.ticket)])
    }
}

impl<'a> ToV for TlsHelloRetryRequestContents<'a> {
    fn to_v(&self, b: &Base) -> V {
        V::N("HelloRetryRequest", vec![u(self.version.0), u(self.cipher.0), b.os(self.ext)])
    }
}

impl<'a> ToV for TlsMessageHandshake<'a> {
    fn to_v(&self, b: &Base) -> V {
        use TlsMessageHandshake as H;
        match self {
            H::HelloRequest => V::N("HelloRequest", vec![]),
            H::ClientHello(c) => c.to_v(b),
            H::ServerHello(c) => c.to_v(b),
            H::ServerHelloV13Draft18(c) => V::N(
                "ServerHelloV13Draft18",
                vec![u(c.version.0), b.s(c.random), u(c.cipher.0), b.os(c.ext)],
            ),
            H::NewSessionTicket(c) => c.to_v(b),
            H::EndOfEarlyData => V::N("EndOfEarlyData", vec![]),
            H::HelloRetryRequest(c) => c.to_v(b),
            H::Certificate(c) => c.to_v(b),
            H::ServerKeyExchange(c) => V::N("ServerKeyExchange", vec![b.s(c.parameters)]),
            H::CertificateRequest(c) => c.to_v(b),
            H::ServerDone(d) => V::N("ServerDone", vec![b.s(d)]),
            H::CertificateVerify(d) => V::N("CertificateVerify", vec![b.s(d)]),
            H::ClientKeyExchange(c) => V::N("ClientKeyExchange", vec![c.to_v(b)]),
            H::Finished(d) => V::N("Finished", vec![b.s(d)]),
            H::CertificateStatus(c) => c.to_v(b),
            H::NextProtocol(c) => c.to_v(b),
            H::KeyUpdate(x) => V::N("KeyUpdate", vec![u(*x)]),
        }
    }
}

impl<'a> ToV for TlsExtension<'a> {
    fn to_v(&self, b: &Base) -> V {
        use TlsExtension as E;
        match self {
            E::SNI(v) => V::N(
                "SNI",
                vec![V::L(v.iter().map(|(t, n)| V::N("Name", vec![u(t.0), b.s(n)])).collect())],
            ),
            E::MaxFragmentLength(x) => V::N("MaxFragmentLength", vec![u(*x)]),
            E::StatusRequest(o) => V::N(
                "StatusRequest",
                vec![match o {
                    Some((t, d)) => V::some(V::N("Req", vec![u(t.0), b.s(d)])),
                    None => V::None,
                }],
            ),
            E::EllipticCurves(v) => V::N("EllipticCurves", vec![V::L(v.iter().map(|g| u(g.0)).collect())]),
            E::EcPointFormats(d) => V::N("EcPointFormats", vec![b.s(d)]),
            E::SignatureAlgorithms(v) => V::N("SignatureAlgorithms", vec![V::L(v.iter().map(|x| u(*x)).collect())]),
            E::RecordSizeLimit(x) => V::N("RecordSizeLimit", vec![u(*x)]),
            E::SessionTicket(d) => V::N("SessionTicket", vec![b.s(d)]),
            E::KeyShareOld(d) => V::N("KeyShareOld", vec![b.s(d)]),
            E::KeyShare(d) => V::N("KeyShare", vec![b.s(d)]),
            E::PreSharedKey(d) => V::N("PreSharedKey", vec![b.s(d)]),
            E::EarlyData(o) => V::N("EarlyData", vec![V::opt(o.map(u))]),
            E::SupportedVersions(v) => V::N("SupportedVersions", vec![V::L(v.iter().map(|x| u(x.0)).collect())]),
            E::Cookie(d) => V::N("Cookie", vec![b.s(d)]),
            E::PskExchangeModes(v) => V::N("PskExchangeModes", vec![V::B(v.clone())]),
            E::Heartbeat(x) => V::N("HeartbeatExt", vec![u(*x)]),
            E::ALPN(v) => V::N("ALPN", vec![V::L(v.iter().map(|p| b.s(p)).collect())]),
            E::SignedCertificateTimestamp(o) => V::N("SignedCertificateTimestamp", vec![b.os(*o)]),
            E::Padding(d) => V::N("Padding", vec![b.s(d)]),
            E::EncryptThenMac => V::N("EncryptThenMac", vec![]),
            E::ExtendedMasterSecret => V::N("ExtendedMasterSecret", vec![]),
            E::OidFilters(v) => V::N(
                "OidFilters",
                vec![V::L(
                    v.iter()
                        .map(|f| V::N("Oid", vec![b.s(f.cert_ext_oid), b.s(f.cert_ext_val)]))
                        .collect(),
                )],
            ),
            E::PostHandshakeAuth => V::N("PostHandshakeAuth", vec![]),
            E::NextProtocolNegotiation => V::N("NextProtocolNegotiation", vec![]),
            E::RenegotiationInfo(d) => V::N("RenegotiationInfo", vec![b.s(d)]),
            E::EncryptedServerName {
                ciphersuite,
                group,
                key_share,
                record_digest,
                encrypted_sni,
            } => V::N(
                "EncryptedServerName",
                vec![
                    u(ciphersuite.0),
                    u(group.0),
                    b.s(key_share),
                    b.s(record_digest),
                    b.s(encrypted_sni),
                ],
            ),
            E::Grease(t, d) => V::N("Grease", vec![u(*t), b.s(d)]),
            E::Unknown(t, d) => V::N("Unknown", vec![u(t.0), b.s(d)]),
        }
    }
}

// ---------------------------------------------------------------- DTLS

impl ToV for DTLSRecordHeader {
    fn to_v(&self, _: &Base) -> V {
        V::N(
            "DHdr",
            vec![
                u(self.content_type.0),
                u(self.version.0),
                u(self.epoch),
                u(self.sequence_number),
                u(self.length),
            ],
        )
    }
}

impl<'a> ToV for DTLSPlaintext<'a> {
    fn to_v(&self, b: &Base) -> V {
        V::N("DPlaintext", vec![self.header.to_v(b), self.messages.to_v(b)])
    }
}

impl<'a> ToV for DTLSMessage<'a> {
    fn to_v(&self, b: &Base) -> V {
        match self {
            DTLSMessage::Handshake(h) => V::N(
                "DHS",
                vec![
                    u(h.msg_type.0),
                    u(h.length),
                    u(h.message_seq),
                    u(h.fragment_offset),
                    u(h.fragment_length),
                    h.body.to_v(b),
                ],
            ),
            DTLSMessage::ChangeCipherSpec => V::N("CCS", vec![]),
            DTLSMessage::Alert(a) => V::N("Alert", vec![u(a.severity.0), u(a.code.0)]),
            DTLSMessage::ApplicationData(d) => V::N("AppData", vec![b.s(d.blob)]),
            DTLSMessage::Heartbeat(h) => V::N(
                "Heartbeat",
                vec![u(h.heartbeat_type.0), u(h.payload_len), b.s(h.payload)],
            ),
        }
    }
}

impl<'a> ToV for DTLSClientHello<'a> {
    fn to_v(&self, b: &Base) -> V {
        V::N(
            "DClientHello",
            vec![
                u(self.version.0),
                b.s(self.random),
                b.os(self.session_id),
                b.s(self.cookie),
                ciphers(&self.ciphers),
                comps(&self.comp),
                b.os(self.ext),
            ],
        )
    }
}

impl<'a> ToV for DTLSMessageHandshakeBody<'a> {
    fn to_v(&self, b: &Base) -> V {
        use DTLSMessageHandshakeBody as H;
        match self {
            H::HelloRequest => V::N("HelloRequest", vec![]),
            H::ClientHello(c) => c.to_v(b),
            H::HelloVerifyRequest(c) => V::N("HelloVerifyRequest", vec![u(c.server_version.0), b.s(c.cookie)]),
            H::ServerHello(c) => c.to_v(b),
            H::NewSessionTicket(c) => c.to_v(b),
            H::HelloRetryRequest(c) => c.to_v(b),
            H::Certificate(c) => c.to_v(b),
            H::ServerKeyExchange(c) => V::N("ServerKeyExchange", vec![b.s(c.parameters)]),
            H::CertificateRequest(c) => c.to_v(b),
            H::ServerDone(d) => V::N("ServerDone", vec![b.s(d)]),
            H::CertificateVerify(d) => V::N("CertificateVerify", vec![b.s(d)]),
            H::ClientKeyExchange(c) => V::N("ClientKeyExchange", vec![c.to_v(b)]),
            H::Finished(d) => V::N("Finished", vec![b.s(d)]),
            H::CertificateStatus(c) => c.to_v(b),
            H::NextProtocol(c) => c.to_v(b),
            H::Fragment(d) => V::N("Fragment", vec![b.s(d)]),
        }
    }
}

// ---------------------------------------------------------------- key exchange, signatures, SCT

impl<'a> ToV for ServerDHParams<'a> {
    fn to_v(&self, b: &Base) -> V {
        V::N("DH", vec![b.s(self.dh_p), b.s(self.dh_g), b.s(self.dh_ys)])
    }
}

impl<'a> ToV for ECPoint<'a> {
    fn to_v(&self, b: &Base) -> V {
        V::N("ECPoint", vec![b.s(self.point)])
    }
}

impl<'a> ToV for ECParameters<'a> {
    fn to_v(&self, b: &Base) -> V {
        let c = match &self.params_content {
            ECParametersContent::NamedGroup(g) => V::N("NamedGroup", vec![u(g.0)]),
            ECParametersContent::ExplicitPrime(p) => V::N(
                "ExplicitPrime",
                vec![
                    b.s(p.prime_p),
                    b.s(p.curve.a),
                    b.s(p.curve.b),
                    b.s(p.base.point),
                    b.s(p.order),
                    b.s(p.cofactor),
                ],
            ),
        };
        V::N("ECParameters", vec![u(self.curve_type.0), c])
    }
}

impl<'a> ToV for ServerECDHParams<'a> {
    fn to_v(&self, b: &Base) -> V {
        V::N("ECDH", vec![self.curve_params.to_v(b), self.public.to_v(b)])
    }
}

impl<'a> ToV for DigitallySigned<'a> {
    fn to_v(&self, b: &Base) -> V {
        V::N(
            "Signed",
            vec![
                match &self.alg {
                    Some(a) => V::some(V::N("Alg", vec![u(a.hash.0), u(a.sign.0)])),
                    None => V::None,
                },
                b.s(self.data),
            ],
        )
    }
}

impl<'a> ToV for SignedCertificateTimestamp<'a> {
    fn to_v(&self, b: &Base) -> V {
        V::N(
            "SCT",
            vec![
                u(self.version.0),
                b.s(&self.id.key_id[..]),
                u(self.timestamp),
                b.s(self.extensions.0),
                self.signature.to_v(b),
            ],
        )
    }
}

impl<'a> ToV for &'a [u8] {
    fn to_v(&self, b: &Base) -> V {
        b.s(self)
    }
}

impl ToV for u8 {
    fn to_v(&self, _: &Base) -> V {
        u(*self)
    }
}

impl<'a> ToV for (SNIType, &'a [u8]) {
    fn to_v(&self, b: &Base) -> V {
        V::N("Name", vec![u((self.0).0), b.s(self.1)])
    }
}

impl ToV for NamedGroup {
    fn to_v(&self, _: &Base) -> V {
        u(self.0)
    }
}

// ---------------------------------------------------------------- results

pub fn kind_name(k: ErrorKind) -> &'static str {
    match k {
        ErrorKind::Tag => "Tag",
        ErrorKind::MapRes => "MapRes",
        ErrorKind::Verify => "Verify",
        ErrorKind::Switch => "Switch",
        ErrorKind::Complete => "Complete",
        ErrorKind::Eof => "Eof",
        ErrorKind::LengthValue => "LengthValue",
        ErrorKind::TooLarge => "TooLarge",
        ErrorKind::Many0 => "Many0",
        ErrorKind::Many1 => "Many1",
        ErrorKind::NonEmpty => "NonEmpty",
        ErrorKind::Alt => "Alt",
        ErrorKind::Count => "Count",
        ErrorKind::ManyMN => "ManyMN",
        _ => "OtherKind",
    }
}

/// Turn a parser result into a `Got`, checking that the remainder is a suffix of `input`
/// (pointer-and-length; an empty remainder is exempt from the pointer test).
pub fn got_of<'a, T: ToV>(input: &'a [u8], r: IResult<&'a [u8], T>) -> Got {
    let b = Base::of(input);
    match r {
        Ok((rem, v)) => {
            if rem.len() > input.len() {
                return Got::BadRemainder(format!("remainder longer ({}) than the input ({})", rem.len(), input.len()));
            }
            let consumed = input.len() - rem.len();
            if !rem.is_empty() {
                let p = rem.as_ptr() as usize;
                if p != b.ptr + consumed {
                    return Got::BadRemainder(format!(
                        "non-empty remainder of {} bytes does not end at the end of the input",
                        rem.len()
                    ));
                }
            }
            Got::Ok(v.to_v(&b), consumed)
        }
        Err(Err::Incomplete(Needed::Size(n))) => Got::Incomplete(Some(n.get())),
        Err(Err::Incomplete(Needed::Unknown)) => Got::Incomplete(None),
        Err(Err::Error(e)) => Got::Error(kind_name(e.code)),
        Err(Err::Failure(e)) => Got::Failure(kind_name(e.code)),
    }
}

/// guarded call: a panic becomes Got::Panic
pub fn call<'a, T: ToV>(input: &'a [u8], f: impl FnOnce(&'a [u8]) -> IResult<&'a [u8], T>) -> Got {
    match vcommon::iso::guarded(|| got_of(input, f(input))) {
        Ok(g) => g,
        Err(p) => Got::Panic(p),
    }
}
