//! The enumerated wire fields of property C11 (each inside an otherwise well-formed structure),
//! shared by C11 (value preserved) and C01 (parsing + formatting monitors over complete domains).
use crate::sweep::Target;
use crate::targets::*;
use vcommon::catalogue as cat;
use vcommon::en::W;

// for types that are neither known nor GREASE every dispatcher must answer Unknown(type, data),
// i.e. exactly what the generic reference says
static EXT_CLIENT_REF: Target = Target {
    name: "parse_tls_client_hello_extension",
    run: |b| crate::mirror::call(b, tls_parser::parse_tls_client_hello_extension),
    reference: vcommon::reference::wire::ref_extension,
};
static EXT_SERVER_REF: Target = Target {
    name: "parse_tls_server_hello_extension",
    run: |b| crate::mirror::call(b, tls_parser::parse_tls_server_hello_extension),
    reference: vcommon::reference::wire::ref_extension,
};

pub struct Field {
    pub name: &'static str,
    pub bits: u32,
    pub targets: Vec<&'static Target>,
    /// encoding of the enclosing structure with the field set to x (second parameter for 2-D fields)
    pub build: Box<dyn Fn(u32) -> W + Sync>,
}

pub fn fields() -> Vec<Field> {
    let mut f: Vec<Field> = Vec::new();
    let mut add = |name: &'static str, bits: u32, targets: Vec<&'static Target>, build: Box<dyn Fn(u32) -> W + Sync>| {
        f.push(Field { name, bits, targets, build })
    };
    let hello = |w: &mut W, version: u16, ciphers: &[u16], comps: &[u8]| {
        w.u16(version);
        w.fill(32, 0x40);
        w.u8(0);
        w.block(2, "ciphers", |w| {
            for c in ciphers {
                w.u16(*c);
            }
        });
        w.block(1, "comps", |w| {
            for c in comps {
                w.u8(*c);
            }
        });
    };
    add("record version (plaintext / raw / encrypted)", 16, vec![&PLAINTEXT, &RAW_RECORD, &ENCRYPTED, &TWO_STEP], Box::new(|x| {
        cat::record(0x16, x as u16, |w| {
            w.bytes(&[0x0e, 0, 0, 0]);
        })
    }));
    add("content type of raw / encrypted records", 8, vec![&RAW_RECORD, &ENCRYPTED], Box::new(|x| cat::record(x as u8, 0x0303, |w| {
        w.fill(3, 1);
    })));
    add("DTLS record version", 16, vec![&DTLS_RECORD], Box::new(|x| {
        cat::dtls_record(0x15, x as u16, 1, 2, |w| {
            w.u8(1).u8(0);
        })
    }));
    add("ClientHello version (inside a record)", 16, vec![&PLAINTEXT], Box::new(move |x| {
        cat::record(0x16, 0x0301, |w| {
            w.append(&cat::hs(1, |w| hello(w, x as u16, &[0x002f], &[0])));
        })
    }));
    add("ClientHello version (message level)", 16, vec![&MSG_HANDSHAKE], Box::new(move |x| cat::hs(1, |w| hello(w, x as u16, &[0x002f], &[0]))));
    add("HelloRetryRequest version", 16, vec![&MSG_HANDSHAKE], Box::new(|x| cat::hs(6, |w| {
        w.u16(x as u16).u16(0x1301);
    })));
    add("DTLS ClientHello / ServerHello / HelloVerifyRequest version", 16, vec![&DTLS_HANDSHAKE], Box::new(|x| {
        cat::dtls_hs(1, 0, None, 0, |w| cat::client_hello_body(w, x as u16, 0, 1, 1, cat::ExtBlock::Absent, Some(3)))
    }));
    for cookie in [32usize, 33, 255] {
        let name: &'static str = Box::leak(format!("DTLS ClientHello version with a {}-byte cookie", cookie).into_boxed_str());
        add(name, 16, vec![&DTLS_HANDSHAKE], Box::new(move |x| {
            cat::dtls_hs(1, 0, None, 0, |w| cat::client_hello_body(w, x as u16, 0, 1, 1, cat::ExtBlock::Absent, Some(cookie)))
        }));
        let name: &'static str = Box::leak(format!("DTLS HelloVerifyRequest version with a {}-byte cookie", cookie).into_boxed_str());
        add(name, 16, vec![&DTLS_HANDSHAKE], Box::new(move |x| {
            cat::dtls_hs(3, 0, None, 0, |w| {
                w.u16(x as u16);
                w.block(1, "cookie", |w| {
                    w.fill(cookie, 7);
                });
            })
        }));
    }
    add("DTLS ServerHello version", 16, vec![&DTLS_HANDSHAKE], Box::new(|x| {
        cat::dtls_hs(2, 0, None, 0, |w| {
            w.u16(x as u16);
            w.fill(32, 0x20);
            w.u8(0).u16(0xc02f).u8(0);
        })
    }));
    add("DTLS HelloVerifyRequest version", 16, vec![&DTLS_HANDSHAKE], Box::new(|x| {
        cat::dtls_hs(3, 0, None, 0, |w| {
            w.u16(x as u16);
            w.block(1, "cookie", |w| {
                w.fill(2, 7);
            });
        })
    }));
    add("cipher-suite id in a ClientHello list", 16, vec![&MSG_HANDSHAKE], Box::new(move |x| cat::hs(1, |w| hello(w, 0x0303, &[0x1301, x as u16, !(x as u16)], &[0]))));
    add("ServerHello cipher-suite id", 16, vec![&MSG_HANDSHAKE], Box::new(|x| {
        cat::hs(2, |w| {
            w.u16(0x0303);
            w.fill(32, 0x20);
            w.u8(0).u16(x as u16).u8(0);
        })
    }));
    add("draft-18 ServerHello / HelloRetryRequest cipher-suite id", 16, vec![&MSG_HANDSHAKE], Box::new(|x| {
        if x % 2 == 0 {
            cat::hs(2, |w| {
                w.u16(0x7f12);
                w.fill(32, 0x20);
                w.u16(x as u16);
            })
        } else {
            cat::hs(6, |w| {
                w.u16(0x7f12).u16(x as u16);
            })
        }
    }));
    add("compression id in a ClientHello list", 8, vec![&MSG_HANDSHAKE], Box::new(move |x| cat::hs(1, |w| hello(w, 0x0303, &[], &[x as u8, 0, !(x as u8)]))));
    add("ServerHello compression id", 8, vec![&MSG_HANDSHAKE], Box::new(|x| {
        cat::hs(2, |w| {
            w.u16(0x0301);
            w.fill(32, 0x20);
            w.u8(0).u16(0x002f).u8(x as u8);
        })
    }));
    add("alert level x description (TLS)", 16, vec![&PLAINTEXT, &TWO_STEP], Box::new(|x| {
        cat::record(0x15, 0x0303, |w| {
            w.u16(x as u16);
        })
    }));
    add("alert level x description (DTLS)", 16, vec![&DTLS_RECORD], Box::new(|x| {
        cat::dtls_record(0x15, 0xfefd, 0, 0, |w| {
            w.u16(x as u16);
        })
    }));
    add("heartbeat message type", 8, vec![&PLAINTEXT, &TWO_STEP], Box::new(|x| {
        cat::record(0x18, 0x0303, |w| {
            w.u8(x as u8);
            w.block(2, "hb", |w| {
                w.fill(1, 3);
            });
            w.fill(2, 0);
        })
    }));
    add("heartbeat extension mode", 8, vec![&EXTENSION], Box::new(|x| cat::ext_with(15, &[x as u8])));
    add("max_fragment_length code", 8, vec![&EXTENSION], Box::new(|x| cat::ext_with(1, &[x as u8])));
    add("extension type (parse_tls_extension_unknown)", 16, vec![&EXT_UNKNOWN], Box::new(|x| cat::ext_with(x as u16, &[1, 2, 3])));
    add("extension type (all three dispatchers and the list parser; unassigned / GREASE types keep their number)", 16, vec![&EXTENSION, &EXTENSIONS, &EXT_CLIENT_REF, &EXT_SERVER_REF], Box::new(|x| {
        // known types would select a structure: map them onto a neighbouring unassigned value
        let t = x as u16;
        let t = if vcommon::reference::iana::KNOWN_EXT_TYPES.contains(&t) { t ^ 0x4000 } else { t };
        cat::ext_with(t, &[9, 8])
    }));
    add("named group in supported_groups", 16, vec![&EXTENSION], Box::new(|x| {
        cat::ext(10, |w| {
            w.block(2, "l", |w| {
                w.u16(0x0017).u16(x as u16);
            });
        })
    }));
    add("named group in ECParameters / ServerECDHParams", 16, vec![&EC_PARAMETERS, &ECDH_PARAMS], Box::new(|x| {
        let mut w = W::new();
        w.u8(3).u16(x as u16);
        w.block(1, "pt", |w| {
            w.fill(3, 4);
        });
        w
    }));
    add("encrypted_server_name cipher suite / group", 16, vec![&EXTENSION], Box::new(|x| {
        cat::ext(0xffce, |w| {
            w.u16(x as u16).u16(!(x as u16));
            w.block(2, "a", |_| {});
            w.block(2, "b", |_| {});
            w.block(2, "c", |_| {});
        })
    }));
    add("signature scheme in signature_algorithms", 16, vec![&EXTENSION], Box::new(|x| {
        cat::ext(13, |w| {
            w.block(2, "l", |w| {
                w.u16(x as u16);
            });
        })
    }));
    add("hash x signature algorithm in DigitallySigned", 16, vec![&SIGNED], Box::new(|x| {
        let mut w = W::new();
        w.u16(x as u16);
        w.block(2, "sig", |w| {
            w.fill(2, 0x30);
        });
        w
    }));
    add("signature_algorithms entry in CertificateRequest", 16, vec![&MSG_HANDSHAKE], Box::new(|x| cat::hs(13, |w| {
        w.u8(1).u8(1);
        w.block(2, "algs", |w| {
            w.u16(x as u16);
        });
        w.u16(0);
    })));
    add("certificate type in CertificateRequest", 8, vec![&MSG_HANDSHAKE], Box::new(|x| cat::hs(13, |w| {
        w.u8(2).u8(x as u8).u8(1);
        w.block(2, "algs", |w| {
            w.u16(0x0401);
        });
        w.u16(0);
    })));
    add("SNI name type", 8, vec![&EXTENSION], Box::new(|x| {
        cat::ext(0, |w| {
            w.block(2, "l", |w| {
                w.u8(x as u8);
                w.block(2, "n", |w| {
                    w.bytes(b"a.b");
                });
            });
        })
    }));
    add("certificate status type (CertificateStatus message)", 8, vec![&MSG_HANDSHAKE], Box::new(|x| cat::hs(22, |w| {
        w.u8(x as u8);
        w.block(3, "blob", |w| {
            w.fill(2, 0x30);
        });
    })));
    add("certificate status type (status_request extension)", 8, vec![&EXTENSION], Box::new(|x| cat::ext_with(5, &[x as u8, 0, 0, 0, 0])));
    add("PSK key exchange mode", 8, vec![&EXTENSION], Box::new(|x| cat::ext_with(45, &[2, x as u8, 1])));
    add("EC point format", 8, vec![&EXTENSION], Box::new(|x| cat::ext_with(11, &[2, 0, x as u8])));
    add("supported version", 16, vec![&EXTENSION], Box::new(|x| {
        cat::ext(43, |w| {
            w.block(1, "l", |w| {
                w.u16(0x0304).u16(x as u16);
            });
        })
    }));
    add("CT version", 8, vec![&SCT], Box::new(|x| {
        let mut w = W::new();
        cat::sct_entry(&mut w, x as u8, 5, 0, 4, 3, 2);
        w
    }));
    add("CT version (list)", 8, vec![&SCT_LIST], Box::new(|x| {
        let mut w = W::new();
        w.block(2, "list", |w| cat::sct_entry(w, x as u8, 5, 0, 4, 3, 2));
        w
    }));
    add("SCT hash x signature algorithm", 16, vec![&SCT], Box::new(|x| {
        let mut w = W::new();
        cat::sct_entry(&mut w, 0, 5, 0, (x >> 8) as u8, x as u8, 2);
        w
    }));
    add("KeyUpdate request value", 8, vec![&MSG_HANDSHAKE], Box::new(|x| cat::hs(24, |w| {
        w.u8(x as u8);
    })));
    add("EC curve type is a selector (only 1 and 3 parse): excluded, see C13", 0, vec![], Box::new(|_| W::new()));
    f
}

