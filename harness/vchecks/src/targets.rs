//! The parse entry points as uniform targets: run (guarded call + mirror) and reference walker.
use crate::mirror::call;
use crate::sweep::Target;
use tls_parser::*;
use vcommon::reference::wire;
use vcommon::v::Ref;

fn no_ref(_: &[u8]) -> Ref {
    Ref::Unspec("no reference walker for this entry point")
}

macro_rules! target {
    ($name:ident, $reference:expr) => {
        Target {
            name: stringify!($name),
            run: |b| call(b, $name),
            reference: $reference,
        }
    };
    ($label:expr, $f:expr, $reference:expr) => {
        Target {
            name: $label,
            run: |b| call(b, $f),
            reference: $reference,
        }
    };
}

// ---- TLS records
pub static PLAINTEXT: Target = target!(parse_tls_plaintext, wire::ref_tls_plaintext);
pub static ENCRYPTED: Target = target!(parse_tls_encrypted, |b| wire::ref_tls_opaque(b, "Encrypted"));
pub static RAW_RECORD: Target = target!(parse_tls_raw_record, |b| wire::ref_tls_opaque(b, "Raw"));
#[allow(deprecated)]
pub static TLS_PARSER: Target = target!(tls_parser, wire::ref_tls_plaintext);

// ---- messages
pub static MSG_HANDSHAKE: Target = target!(parse_tls_message_handshake, wire::ref_handshake_message);

// ---- extensions
pub static EXTENSION: Target = target!(parse_tls_extension, wire::ref_extension);
pub static EXTENSIONS: Target = target!(parse_tls_extensions, wire::ref_extensions);
pub static EXT_UNKNOWN: Target = target!(parse_tls_extension_unknown, |b| {
    let mut r = wire::Rd::new(b);
    let (Some(t), Some(l)) = (r.u16(), r.u16()) else { return Ref::Reject("extension header cut") };
    match r.sub(l as usize) {
        Some(d) => Ref::Must(wire::ext_unknown(t as u16, d), r.off),
        None => Ref::Reject("extension length exceeds the enclosing block"),
    }
});

// ---- DTLS
pub static DTLS_RECORD: Target = target!(parse_dtls_plaintext_record, wire::ref_dtls_plaintext);
pub static DTLS_HANDSHAKE: Target = target!(parse_dtls_message_handshake, wire::ref_dtls_handshake_message);

// ---- key exchange, signatures, SCT
pub static DH_PARAMS: Target = target!(parse_dh_params, wire::ref_dh_params);
pub static EC_PARAMETERS: Target = target!(parse_ec_parameters, wire::ref_ec_parameters);
pub static ECDH_PARAMS: Target = target!(parse_ecdh_params, wire::ref_ecdh_params);
pub static EC_POINT: Target = target!("ECPoint::parse", |b| <ECPoint as nom_derive::Parse<&[u8]>>::parse(b), wire::ref_ec_point);
pub static SIGNED: Target = target!(parse_digitally_signed, |b| wire::ref_digitally_signed(b, true));
pub static SIGNED_OLD: Target = target!(parse_digitally_signed_old, |b| wire::ref_digitally_signed(b, false));
pub static SCT: Target = target!(parse_ct_signed_certificate_timestamp, wire::ref_sct);
pub static SCT_LIST: Target = target!(parse_ct_signed_certificate_timestamp_list, |b| wire::ref_sct_list(b).0);

pub static NO_REF: fn(&[u8]) -> Ref = no_ref;
