//! The parse entry points as uniform targets: run (guarded call + mirror) and reference walker.
use crate::mirror::call;
use crate::sweep::Target;
use tls_parser::*;
use vcommon::reference::wire;
use vcommon::v::Ref;

fn no_ref(_: &[u8]) -> Ref {
    Ref::Unspec("no reference walker for this entry point")
}

macro_rules! target {
    ($name:ident, $reference:expr) => {
        Target {
            name: stringify!($name),
            run: |b| call(b, $name),
            reference: $reference,
        }
    };
    ($label:expr, $f:expr, $reference:expr) => {
        Target {
            name: $label,
            run: |b| call(b, $f),
            reference: $reference,
        }
    };
}

// ---- TLS records
pub static PLAINTEXT: Target = target!(parse_tls_plaintext, wire::ref_tls_plaintext);
pub static ENCRYPTED: Target = target!(parse_tls_encrypted, |b| wire::ref_tls_opaque(b, "Encrypted"));
pub static RAW_RECORD: Target = target!(parse_tls_raw_record, |b| wire::ref_tls_opaque(b, "Raw"));
#[allow(deprecated)]
pub static TLS_PARSER: Target = target!(tls_parser, wire::ref_tls_plaintext);

// ---- messages
pub static MSG_HANDSHAKE: Target = target!(parse_tls_message_handshake, wire::ref_handshake_message);

// ---- extensions
pub static EXTENSION: Target = target!(parse_tls_extension, wire::ref_extension);
pub static EXTENSIONS: Target = target!(parse_tls_extensions, wire::ref_extensions);
pub static EXT_UNKNOWN: Target = target!(parse_tls_extension_unknown, |b| {
    let mut r = wire::Rd::new(b);
    let (Some(t), Some(l)) = (r.u16(), r.u16()) else { return Ref::Reject("extension header cut") };
    match r.sub(l as usize) {
        Some(d) => Ref::Must(wire::ext_unknown(t as u16, d), r.off),
        None => Ref::Reject("extension length exceeds the enclosing block"),
    }
});

// ---- DTLS
pub static DTLS_RECORD: Target = target!(parse_dtls_plaintext_record, wire::ref_dtls_plaintext);
pub static DTLS_HANDSHAKE: Target = target!(parse_dtls_message_handshake, wire::ref_dtls_handshake_message);

// ---- key exchange, signatures, SCT
pub static DH_PARAMS: Target = target!(parse_dh_params, wire::ref_dh_params);
pub static EC_PARAMETERS: Target = target!(parse_ec_parameters, wire::ref_ec_parameters);
pub static ECDH_PARAMS: Target = target!(parse_ecdh_params, wire::ref_ecdh_params);
pub static EC_POINT: Target = target!("ECPoint::parse", |b| <ECPoint as nom_derive::Parse<&[u8]>>::parse(b), wire::ref_ec_point);
pub static SIGNED: Target = target!(parse_digitally_signed, |b| wire::ref_digitally_signed(b, true));
pub static SIGNED_OLD: Target = target!(parse_digitally_signed_old, |b| wire::ref_digitally_signed(b, false));
pub static SCT: Target = target!(parse_ct_signed_certificate_timestamp, wire::ref_sct);
pub static SCT_LIST: Target = target!(parse_ct_signed_certificate_timestamp_list, |b| wire::ref_sct_list(b).0);

pub static NO_REF: fn(&[u8]) -> Ref = no_ref;

// ---- two-step record parsing: parse_tls_raw_record, then parse_tls_record_with_header
fn run_two_step(b: &[u8]) -> vcommon::v::Got {
    use crate::mirror::{kind_name, Base, ToV};
    use tls_parser::nom::{Err, Needed};
    use vcommon::v::Got;
    let r = vcommon::iso::guarded(|| {
        let (_, raw) = match parse_tls_raw_record(b) {
            Ok(x) => x,
            Err(Err::Incomplete(Needed::Size(n))) => return Got::Incomplete(Some(n.get())),
            Err(Err::Incomplete(Needed::Unknown)) => return Got::Incomplete(None),
            Err(Err::Error(e)) => return Got::Error(kind_name(e.code)),
            Err(Err::Failure(e)) => return Got::Failure(kind_name(e.code)),
        };
        let base = Base::of(b);
        match parse_tls_record_with_header(raw.data, &raw.hdr) {
            Ok((rem, v)) => {
                // the remainder must be the tail of the payload
                let pend = raw.data.as_ptr() as usize + raw.data.len();
                if rem.len() > raw.data.len() || (!rem.is_empty() && rem.as_ptr() as usize + rem.len() != pend) {
                    return Got::BadRemainder(format!("two-step remainder ({} bytes) is not the tail of the payload", rem.len()));
                }
                Got::Ok(v.to_v(&base), 5 + raw.data.len() - rem.len())
            }
            Err(Err::Incomplete(Needed::Size(n))) => Got::Incomplete(Some(n.get())),
            Err(Err::Incomplete(Needed::Unknown)) => Got::Incomplete(None),
            Err(Err::Error(e)) => Got::Error(kind_name(e.code)),
            Err(Err::Failure(e)) => Got::Failure(kind_name(e.code)),
        }
    });
    r.unwrap_or_else(vcommon::v::Got::Panic)
}

fn ref_two_step(b: &[u8]) -> Ref {
    let mut r = wire::Rd::new(b);
    let (Some(ty), Some(_ver), Some(len)) = (r.u8(), r.u16(), r.u16()) else {
        return Ref::Reject("record header cut");
    };
    if len as usize > wire::MAX_RECORD_LEN {
        return Ref::Reject("TooLarge");
    }
    let Some(p) = r.sub(len as usize) else { return Ref::Reject("record payload cut") };
    match wire::record_payload(ty as u8, p.b, p.off, false) {
        wire::Payload::Must(msgs, used) => Ref::Must(vcommon::v::V::L(msgs), 5 + used),
        wire::Payload::Reject(w) => Ref::Reject(w),
        wire::Payload::Unspec(w) => Ref::Unspec(w),
    }
}

pub static TWO_STEP: Target = Target {
    name: "parse_tls_raw_record+parse_tls_record_with_header",
    run: run_two_step,
    reference: ref_two_step,
};

// ---- further self-delimiting entry points (no reference walker: used by the relational checks)
pub static EXT_CLIENT: Target = target!(parse_tls_client_hello_extension, no_ref);
pub static EXT_SERVER: Target = target!(parse_tls_server_hello_extension, no_ref);
pub static RECORD_HEADER: Target = target!(parse_tls_record_header, no_ref);
pub static DTLS_RECORD_HEADER: Target = target!(parse_dtls_record_header, no_ref);
pub static T_SNI: Target = target!(parse_tls_extension_sni, no_ref);
pub static T_MFL: Target = target!(parse_tls_extension_max_fragment_length, no_ref);
pub static T_STATUS: Target = target!(parse_tls_extension_status_request, no_ref);
pub static T_GROUPS: Target = target!(parse_tls_extension_elliptic_curves, no_ref);
pub static T_POINTS: Target = target!(parse_tls_extension_ec_point_formats, no_ref);
pub static T_SIGALGS: Target = target!(parse_tls_extension_signature_algorithms, no_ref);
pub static T_HB: Target = target!(parse_tls_extension_heartbeat, no_ref);
pub static T_ETM: Target = target!(parse_tls_extension_encrypt_then_mac, no_ref);
pub static T_EMS: Target = target!(parse_tls_extension_extended_master_secret, no_ref);
pub static T_TICKET: Target = target!(parse_tls_extension_session_ticket, no_ref);
pub static T_KEYSHARE: Target = target!(parse_tls_extension_key_share, no_ref);
pub static T_PSK: Target = target!(parse_tls_extension_pre_shared_key, no_ref);
pub static T_EARLY: Target = target!(parse_tls_extension_early_data, no_ref);
pub static T_VERSIONS: Target = target!(parse_tls_extension_supported_versions, no_ref);
pub static T_COOKIE: Target = target!(parse_tls_extension_cookie, no_ref);
pub static T_PSKMODES: Target = target!(parse_tls_extension_psk_key_exchange_modes, no_ref);
pub static SNI_HOSTNAME: Target = target!(parse_tls_extension_sni_hostname, no_ref);

pub fn tagged_ext_targets() -> Vec<&'static Target> {
    vec![
        &T_SNI, &T_MFL, &T_STATUS, &T_GROUPS, &T_POINTS, &T_SIGALGS, &T_HB, &T_ETM, &T_EMS, &T_TICKET, &T_KEYSHARE, &T_PSK,
        &T_EARLY, &T_VERSIONS, &T_COOKIE, &T_PSKMODES,
    ]
}

// ---- parse_content_and_signature with three content parsers x both flag values
use vcommon::v::V;
pub fn ec_point_parse(i: &[u8]) -> IResult<&[u8], ECPoint> {
    <ECPoint as nom_derive::Parse<&[u8]>>::parse(i)
}

/// reference for parse_content_and_signature: content value, then the signature form chosen by the flag
pub fn ref_pair(content: fn(&[u8]) -> Ref, with_alg: bool, b: &[u8]) -> Ref {
    match content(b) {
        Ref::Must(c, used) => match wire::ref_digitally_signed(&b[used..], with_alg) {
            Ref::Must(s, su) => {
                // re-base the signature's slices to the whole input
                fn shift(v: &V, by: usize) -> V {
                    match v {
                        V::S(_, 0) => V::S(0, 0),
                        V::S(o, l) => V::S(o + by, *l),
                        V::L(x) => V::L(x.iter().map(|y| shift(y, by)).collect()),
                        V::N(n, x) => V::N(n, x.iter().map(|y| shift(y, by)).collect()),
                        V::Some(x) => V::some(shift(x, by)),
                        o => o.clone(),
                    }
                }
                Ref::Must(V::N("Pair", vec![c, shift(&s, used)]), used + su)
            }
            Ref::Reject(w) => Ref::Reject(w),
            Ref::Unspec(w) => Ref::Unspec(w),
        },
        o => o,
    }
}

macro_rules! pair_target {
    ($label:expr, $fun:expr, $cref:expr, $flag:expr) => {
        Target {
            name: $label,
            run: |b| call(b, |i| parse_content_and_signature(i, $fun, $flag)),
            reference: |b| ref_pair($cref, $flag, b),
        }
    };
}

pub static P_DH_NEW: Target = pair_target!("parse_content_and_signature(dh,true)", parse_dh_params, wire::ref_dh_params, true);
pub static P_DH_OLD: Target = pair_target!("parse_content_and_signature(dh,false)", parse_dh_params, wire::ref_dh_params, false);
pub static P_ECDH_NEW: Target = pair_target!("parse_content_and_signature(ecdh,true)", parse_ecdh_params, wire::ref_ecdh_params, true);
pub static P_ECDH_OLD: Target = pair_target!("parse_content_and_signature(ecdh,false)", parse_ecdh_params, wire::ref_ecdh_params, false);
pub static P_PT_NEW: Target = pair_target!("parse_content_and_signature(ecpoint,true)", ec_point_parse, wire::ref_ec_point, true);
pub static P_PT_OLD: Target = pair_target!("parse_content_and_signature(ecpoint,false)", ec_point_parse, wire::ref_ec_point, false);

