//! Generated probes: statements written by a check at run time (about items it discovered in /repo/src and cannot name at
//! its own compile time) are compiled into /verif/probes/consts against /repo and run; the check reads the printed lines.
use std::process::Command;

/// Build and run the probe with `body` (a Rust block) as its main body, in its own target directory `tag`.
/// None if the probe does not build (e.g. an item behind a cfg, or not public): nothing can then be said.
pub fn run_generated(tag: &str, body: &str) -> Option<String> {
    let dir = format!("/verif/target/{}", tag);
    let _ = std::fs::create_dir_all(&dir);
    let gen = format!("{}/gen.rs", dir);
    if std::fs::read_to_string(&gen).ok().as_deref() != Some(body) && std::fs::write(&gen, body).is_err() {
        return None;
    }
    let b = Command::new("cargo")
        .args(["build", "--offline", "--target-dir", &format!("{}/probe", dir)])
        .current_dir("/verif/probes/consts")
        .env("CARGO_NET_OFFLINE", "true")
        .env("CONSTS_GEN", &gen)
        .env_remove("RUSTFLAGS")
        .output()
        .ok()?;
    if !b.status.success() {
        return None;
    }
    let o = Command::new(format!("{}/probe/debug/consts-probe", dir)).output().ok()?;
    o.status.success().then(|| String::from_utf8_lossy(&o.stdout).to_string())
}

/// Source text of /repo/src with comments removed, per file.
pub fn sources() -> Vec<(String, String)> {
    let mut files: Vec<_> = std::fs::read_dir("/repo/src").map(|d| d.filter_map(|e| e.ok()).map(|e| e.path()).collect()).unwrap_or_default();
    files.sort();
    let mut out = Vec::new();
    for f in files {
        let Ok(s) = std::fs::read_to_string(&f) else { continue };
        let b: Vec<char> = s.chars().collect();
        let mut code = String::with_capacity(s.len());
        let mut i = 0;
        while i < b.len() {
            if b[i] == '/' && i + 1 < b.len() && b[i + 1] == '/' {
                while i < b.len() && b[i] != '\n' {
                    i += 1;
                }
            } else if b[i] == '/' && i + 1 < b.len() && b[i + 1] == '*' {
                i += 2;
                while i + 1 < b.len() && !(b[i] == '*' && b[i + 1] == '/') {
                    i += 1;
                }
                i += 2;
            } else {
                code.push(b[i]);
                i += 1;
            }
        }
        out.push((f.display().to_string(), code.split_whitespace().collect::<Vec<_>>().join(" ")));
    }
    out
}

/// inherent methods `pub fn NAME(&self) -> RET` per implementing type: (type, method, return type)
pub fn inherent_getters() -> Vec<(String, String, String)> {
    let mut out = Vec::new();
    for (_, code) in sources() {
        let mut rest = code.as_str();
        while let Some(p) = rest.find("impl") {
            let after = &rest[p + 4..];
            rest = after;
            let Some(ob) = after.find('{') else { break };
            let header = after[..ob].trim();
            if header.contains(" for ") {
                continue;
            }
            // `<'a> Name<'a>` or `Name`
            let h = header.trim_start_matches(|c: char| c == '<' || c == '\'' || c.is_alphanumeric() || c == ',' || c == ' ' || c == '>');
            let name_src = if header.starts_with('<') { header.split('>').nth(1).unwrap_or("").trim() } else { header };
            let _ = h;
            let ty: String = name_src.chars().take_while(|c| c.is_alphanumeric() || *c == '_').collect();
            if ty.is_empty() {
                continue;
            }
            let mut depth = 1;
            let mut end = after.len();
            for (k, c) in after[ob + 1..].char_indices() {
                if c == '{' {
                    depth += 1;
                } else if c == '}' {
                    depth -= 1;
                    if depth == 0 {
                        end = ob + 1 + k;
                        break;
                    }
                }
            }
            let body = &after[ob + 1..end];
            let mut b = body;
            while let Some(q) = b.find("pub ") {
                b = &b[q + 4..];
                let t = b.strip_prefix("const ").unwrap_or(b);
                let Some(t) = t.strip_prefix("fn ") else { continue };
                let m: String = t.chars().take_while(|c| c.is_alphanumeric() || *c == '_').collect();
                let Some(open) = t.find('(') else { continue };
                let Some(close) = t[open..].find(')') else { continue };
                if t[open + 1..open + close].trim() != "&self" {
                    continue;
                }
                if let Some(r) = t[open + close + 1..].trim_start().strip_prefix("->") {
                    let ret: String = r.trim_start().chars().take_while(|c| c.is_alphanumeric() || *c == '_' || *c == '<' || *c == '>' || *c == '\'' || *c == '&' || *c == ' ').collect();
                    out.push((ty.clone(), m, ret.trim().trim_end_matches('{').trim().to_string()));
                }
            }
        }
    }
    out
}

/// `impl From<&SignatureScheme> for T` / `impl From<SignatureScheme> for T`: (by reference?, T)
pub fn scheme_conversions() -> Vec<(bool, String)> {
    let mut out = Vec::new();
    for (_, code) in sources() {
        for (pat, by_ref) in [("From<&SignatureScheme> for ", true), ("From<&'a SignatureScheme> for ", true), ("From<SignatureScheme> for ", false)] {
            let mut rest = code.as_str();
            while let Some(p) = rest.find(pat) {
                let after = &rest[p + pat.len()..];
                let t: String = after.chars().take_while(|c| c.is_alphanumeric() || *c == '_').collect();
                out.push((by_ref, t));
                rest = after;
            }
        }
    }
    out
}
