//! C17 adapter: the crate's 18 registry newtypes, their constants and formatting, by name.
use tls_parser::*;
use vcommon::reference::iana::{self, Registry};

#[derive(Clone, Copy, PartialEq, Eq, Debug)]
pub enum Fmt {
    /// prints the constant's name, numeric fallback otherwise
    Named,
    /// derived Debug: TypeName(value)
    Derived,
    /// trait not implemented
    Absent,
}

pub struct RegAdapter {
    pub reg: &'static Registry,
    /// (constant name, value the crate gives it)
    pub consts: Vec<(&'static str, u64)>,
    pub display: (Fmt, fn(u64) -> String),
    pub debug: (Fmt, fn(u64) -> String),
    /// Display with formatter flags: (flag, output)
    pub display_flags: Option<fn(u64) -> Vec<(&'static str, String)>>,
}

fn nofmt(_: u64) -> String {
    String::new()
}

macro_rules! reg {
    ($T:ident, $inner:ty, $reg:expr, $disp:ident, $dbg:ident, [$($name:ident),* $(,)?]) => {
        RegAdapter {
            reg: &$reg,
            consts: vec![$((stringify!($name), $T::$name.0 as u64)),*],
            display: reg!(@d $disp, $T, $inner),
            debug: reg!(@g $dbg, $T, $inner),
            display_flags: reg!(@f $disp, $T, $inner),
        }
    };
    (@d Absent, $T:ident, $inner:ty) => { (Fmt::Absent, nofmt as fn(u64) -> String) };
    (@d $k:ident, $T:ident, $inner:ty) => { (Fmt::$k, (|x: u64| format!("{}", $T(x as $inner))) as fn(u64) -> String) };
    (@f Absent, $T:ident, $inner:ty) => { None };
    (@f $k:ident, $T:ident, $inner:ty) => { Some((|x: u64| {
        let v = $T(x as $inner);
        vec![("{:>44}", format!("{:>44}", v)), ("{:<44}", format!("{:<44}", v)), ("{:#}", format!("{:#}", v)), ("{:^50}", format!("{:^50}", v))]
    }) as fn(u64) -> Vec<(&'static str, String)>) };
    (@g Absent, $T:ident, $inner:ty) => { (Fmt::Absent, nofmt as fn(u64) -> String) };
    (@g $k:ident, $T:ident, $inner:ty) => { (Fmt::$k, (|x: u64| format!("{:?}", $T(x as $inner))) as fn(u64) -> String) };
}

pub static NAMED_GROUP_REG: Registry = Registry {
    ty: "NamedGroup",
    bits: 16,
    names: &[],
};

pub fn named_group_registry() -> &'static Registry {
    // built once from NAMED_GROUPS (which also carries the field sizes)
    use std::sync::OnceLock;
    static R: OnceLock<Registry> = OnceLock::new();
    R.get_or_init(|| {
        let v: Vec<(&'static str, u64)> = iana::NAMED_GROUPS.iter().map(|(n, v, _)| (*n, *v)).collect();
        Registry {
            ty: "NamedGroup",
            bits: 16,
            names: Box::leak(v.into_boxed_slice()),
        }
    })
}

pub fn all() -> Vec<RegAdapter> {
    let ng: &'static Registry = named_group_registry();
    vec![
        reg!(TlsRecordType, u8, iana::RECORD_TYPE, Named, Named,
            [ChangeCipherSpec, Alert, Handshake, ApplicationData, Heartbeat]),
        reg!(TlsHandshakeType, u8, iana::HANDSHAKE_TYPE, Named, Named,
            [HelloRequest, ClientHello, ServerHello, HelloVerifyRequest, NewSessionTicket, EndOfEarlyData,
             HelloRetryRequest, EncryptedExtensions, Certificate, ServerKeyExchange, CertificateRequest, ServerDone,
             CertificateVerify, ClientKeyExchange, Finished, CertificateURL, CertificateStatus, KeyUpdate, NextProtocol]),
        reg!(TlsVersion, u16, iana::VERSION, Named, Named,
            [Ssl30, Tls10, Tls11, Tls12, Tls13, Tls13Draft18, Tls13Draft19, Tls13Draft20, Tls13Draft21, Tls13Draft22,
             Tls13Draft23, DTls10, DTls11, DTls12]),
        reg!(TlsHeartbeatMessageType, u8, iana::HEARTBEAT_TYPE, Named, Named, [HeartBeatRequest, HeartBeatResponse]),
        reg!(TlsCompressionID, u8, iana::COMPRESSION, Named, Named, [Null, Deflate]),
        reg!(KeyUpdateRequest, u8, iana::KEY_UPDATE, Absent, Absent, [NotRequested, Requested]),
        reg!(TlsAlertSeverity, u8, iana::ALERT_SEVERITY, Named, Derived, [Warning, Fatal]),
        reg!(TlsAlertDescription, u8, iana::ALERT_DESCRIPTION, Named, Derived,
            [CloseNotify, UnexpectedMessage, BadRecordMac, DecryptionFailed, RecordOverflow, DecompressionFailure,
             HandshakeFailure, NoCertificate, BadCertificate, UnsupportedCertificate, CertificateRevoked,
             CertificateExpired, CertificateUnknown, IllegalParameter, UnknownCa, AccessDenied, DecodeError,
             DecryptError, ExportRestriction, ProtocolVersion, InsufficientSecurity, InternalError,
             InappropriateFallback, UserCancelled, NoRenegotiation, MissingExtension, UnsupportedExtension,
             CertUnobtainable, UnrecognizedName, BadCertStatusResponse, BadCertHashValue, UnknownPskIdentity,
             CertificateRequired, NoApplicationProtocol]),
        reg!(TlsExtensionType, u16, iana::EXTENSION_TYPE, Named, Derived,
            [ServerName, MaxFragmentLength, ClientCertificate, TrustedCaKeys, TruncatedHMac, StatusRequest,
             UserMapping, ClientAuthz, ServerAuthz, CertType, SupportedGroups, EcPointFormats, Srp,
             SignatureAlgorithms, UseSrtp, Heartbeat, ApplicationLayerProtocolNegotiation, StatusRequestv2,
             SignedCertificateTimestamp, ClientCertificateType, ServerCertificateType, Padding, EncryptThenMac,
             ExtendedMasterSecret, TokenBinding, CachedInfo, RecordSizeLimit, SessionTicketTLS, KeyShareOld,
             PreSharedKey, EarlyData, SupportedVersions, Cookie, PskExchangeModes, TicketEarlyDataInfo,
             CertificateAuthorities, OidFilters, PostHandshakeAuth, SigAlgorithmsCert, KeyShare,
             NextProtocolNegotiation, Grease, RenegotiationInfo, EncryptedServerName]),
        reg!(PskKeyExchangeMode, u8, iana::PSK_MODE, Absent, Derived, [Psk, PskDhe]),
        reg!(SNIType, u8, iana::SNI_TYPE, Named, Derived, [HostName]),
        reg!(CertificateStatusType, u8, iana::STATUS_TYPE, Named, Named, [OCSP]),
        RegAdapter {
            reg: ng,
            ..reg!(NamedGroup, u16, NAMED_GROUP_REG, Named, Named,
            [Sect163k1, Sect163r1, Sect163r2, Sect193r1, Sect193r2, Sect233k1, Sect233r1, Sect239k1, Sect283k1,
             Sect283r1, Sect409k1, Sect409r1, Sect571k1, Sect571r1, Secp160k1, Secp160r1, Secp160r2, Secp192k1,
             Secp192r1, Secp224k1, Secp224r1, Secp256k1, Secp256r1, Secp384r1, Secp521r1, BrainpoolP256r1,
             BrainpoolP384r1, BrainpoolP512r1, EcdhX25519, EcdhX448, BrainpoolP256r1tls13, BrainpoolP384r1tls13,
             BrainpoolP512r1tls13, Sm2, Ffdhe2048, Ffdhe3072, Ffdhe4096, Ffdhe6144, Ffdhe8192,
             ArbitraryExplicitPrimeCurves, ArbitraryExplicitChar2Curves])
        },
        reg!(ECCurveType, u8, iana::CURVE_TYPE, Named, Absent, [ExplicitPrime, ExplicitChar2, NamedGroup]),
        reg!(HashAlgorithm, u8, iana::HASH_ALG, Named, Derived,
            [None, Md5, Sha1, Sha224, Sha256, Sha384, Sha512, Intrinsic]),
        reg!(SignAlgorithm, u8, iana::SIGN_ALG, Named, Derived, [Anonymous, Rsa, Dsa, Ecdsa, Ed25519, Ed448]),
        reg!(SignatureScheme, u16, iana::SIGNATURE_SCHEME, Named, Derived,
            [rsa_pkcs1_sha256, rsa_pkcs1_sha384, rsa_pkcs1_sha512, ecdsa_secp256r1_sha256, ecdsa_secp384r1_sha384,
             ecdsa_secp521r1_sha512, sm2sig_sm3, rsa_pss_rsae_sha256, rsa_pss_rsae_sha384, rsa_pss_rsae_sha512,
             ed25519, ed448, rsa_pss_pss_sha256, rsa_pss_pss_sha384, rsa_pss_pss_sha512,
             ecdsa_brainpoolP256r1tls13_sha256, ecdsa_brainpoolP384r1tls13_sha384, ecdsa_brainpoolP512r1tls13_sha512,
             rsa_pkcs1_sha1, ecdsa_sha1]),
        reg!(CtVersion, u8, iana::CT_VERSION, Named, Derived, [V1]),
    ]
}

/// Scan the crate's sources for `newtype_enum!` blocks: (type, constant name) pairs the crate defines.
pub fn scan_source_constants() -> Vec<(String, String)> {
    let mut out = Vec::new();
    let dir = "/repo/src";
    let mut files: Vec<_> = std::fs::read_dir(dir)
        .map(|d| d.filter_map(|e| e.ok()).map(|e| e.path()).collect())
        .unwrap_or_default();
    files.sort();
    for f in files {
        let s = match std::fs::read_to_string(&f) {
            Ok(s) => s,
            Err(_) => continue,
        };
        let mut rest = s.as_str();
        while let Some(i) = rest.find("newtype_enum!") {
            rest = &rest[i + "newtype_enum!".len()..];
            // header: impl [display|debug] Type {
            let Some(b) = rest.find('{') else { break };
            let Some(hs) = rest[b + 1..].find("impl") else { break };
            let hdr_start = b + 1 + hs;
            let Some(ob) = rest[hdr_start..].find('{') else { break };
            let header = &rest[hdr_start..hdr_start + ob];
            let ty = header.split_whitespace().last().unwrap_or("").to_string();
            let body_start = hdr_start + ob + 1;
            let Some(cb) = rest[body_start..].find('}') else { break };
            let body = &rest[body_start..body_start + cb];
            for line in body.lines() {
                let line = line.split("//").next().unwrap_or("");
                let mut l = String::new();
                // strip /* */ comments
                let mut in_c = false;
                let cs: Vec<char> = line.chars().collect();
                let mut k = 0;
                while k < cs.len() {
                    if !in_c && k + 1 < cs.len() && cs[k] == '/' && cs[k + 1] == '*' {
                        in_c = true;
                        k += 2;
                        continue;
                    }
                    if in_c && k + 1 < cs.len() && cs[k] == '*' && cs[k + 1] == '/' {
                        in_c = false;
                        k += 2;
                        continue;
                    }
                    if !in_c {
                        l.push(cs[k]);
                    }
                    k += 1;
                }
                for part in l.split(',') {
                    if let Some((n, _)) = part.split_once('=') {
                        let n = n.trim();
                        if !n.is_empty() && n.chars().all(|c| c.is_alphanumeric() || c == '_') {
                            out.push((ty.clone(), n.to_string()));
                        }
                    }
                }
            }
            rest = &rest[body_start + cb..];
        }
    }
    out
}

/// Associated constants declared for a type in plain `impl Type { pub const NAME: .. = ..; }` blocks
/// (outside the newtype_enum! tables) anywhere in /repo/src: (type, constant name).
pub fn scan_impl_constants() -> Vec<(String, String)> {
    let mut out = Vec::new();
    let mut files: Vec<_> = std::fs::read_dir("/repo/src").map(|d| d.filter_map(|e| e.ok()).map(|e| e.path()).collect()).unwrap_or_default();
    files.sort();
    for f in files {
        let Ok(s) = std::fs::read_to_string(&f) else { continue };
        // drop comments
        let mut code = String::with_capacity(s.len());
        let b: Vec<char> = s.chars().collect();
        let mut i = 0;
        while i < b.len() {
            if b[i] == '/' && i + 1 < b.len() && b[i + 1] == '/' {
                while i < b.len() && b[i] != '\n' {
                    i += 1;
                }
            } else if b[i] == '/' && i + 1 < b.len() && b[i + 1] == '*' {
                i += 2;
                while i + 1 < b.len() && !(b[i] == '*' && b[i + 1] == '/') {
                    i += 1;
                }
                i += 2;
            } else {
                code.push(b[i]);
                i += 1;
            }
        }
        let mut rest = code.as_str();
        while let Some(p) = rest.find("impl") {
            let before_ok = p == 0 || !rest.as_bytes()[p - 1].is_ascii_alphanumeric() && rest.as_bytes()[p - 1] != b'_';
            let after = &rest[p + 4..];
            rest = after;
            if !before_ok || !after.starts_with(|c: char| c.is_whitespace()) {
                continue;
            }
            let Some(ob) = after.find('{') else { break };
            let header = after[..ob].trim();
            // inherent impl of a plain type name only
            if header.is_empty() || !header.chars().all(|c| c.is_alphanumeric() || c == '_') {
                continue;
            }
            // matching close brace
            let body_start = ob + 1;
            let mut depth = 1;
            let mut end = body_start;
            for (k, c) in after[body_start..].char_indices() {
                if c == '{' {
                    depth += 1;
                } else if c == '}' {
                    depth -= 1;
                    if depth == 0 {
                        end = body_start + k;
                        break;
                    }
                }
            }
            let body = &after[body_start..end];
            // constants at depth 1 of the block
            let mut d = 0;
            let mut stmt = String::new();
            for c in body.chars() {
                match c {
                    '{' => d += 1,
                    '}' => {
                        d -= 1;
                        if d == 0 {
                            stmt.clear();
                        }
                    }
                    ';' if d == 0 => {
                        let t = stmt.trim();
                        // skip attributes in front of the item
                        let t = t.rsplit(']').next().unwrap_or(t).trim();
                        if let Some(r) = t.strip_prefix("pub const ") {
                            if let Some((n, _)) = r.split_once(':') {
                                let n = n.trim();
                                if !n.is_empty() && n.chars().all(|c| c.is_alphanumeric() || c == '_') {
                                    out.push((header.to_string(), n.to_string()));
                                }
                            }
                        }
                        stmt.clear();
                    }
                    _ if d == 0 => stmt.push(c),
                    _ => {}
                }
            }
        }
    }
    out
}


/// `pub fn` / `pub const fn` names declared in plain impl blocks of `ty` anywhere in /repo/src
pub fn scan_impl_methods() -> Vec<(String, String)> {
    let mut out = Vec::new();
    let mut files: Vec<_> = std::fs::read_dir("/repo/src").map(|d| d.filter_map(|e| e.ok()).map(|e| e.path()).collect()).unwrap_or_default();
    files.sort();
    for f in files {
        let Ok(s) = std::fs::read_to_string(&f) else { continue };
        let mut rest = s.as_str();
        while let Some(p) = rest.find("\nimpl ") {
            let after = &rest[p + 6..];
            rest = after;
            let Some(ob) = after.find('{') else { break };
            let header = after[..ob].trim();
            if header.is_empty() || !header.chars().all(|c| c.is_alphanumeric() || c == '_') {
                continue;
            }
            let mut depth = 1;
            let mut end = ob + 1;
            for (k, c) in after[ob + 1..].char_indices() {
                if c == '{' {
                    depth += 1;
                } else if c == '}' {
                    depth -= 1;
                    if depth == 0 {
                        end = ob + 1 + k;
                        break;
                    }
                }
            }
            let body = &after[ob + 1..end];
            for line in body.lines() {
                let t = line.trim();
                for pre in ["pub fn ", "pub const fn "] {
                    if let Some(r) = t.strip_prefix(pre) {
                        let name: String = r.chars().take_while(|c| c.is_alphanumeric() || *c == '_').collect();
                        if !name.is_empty() {
                            out.push((header.to_string(), name));
                        }
                    }
                }
            }
        }
    }
    out
}


/// Methods of SignatureScheme (plain impl blocks) that take only `&self` / `self` and return a HashAlgorithm or a
/// SignAlgorithm: (method name, return type). Whatever they are called, "a SignatureScheme splits into hash = high
/// byte and signature = low byte" says what they must return.
pub fn scan_split_methods() -> Vec<(String, String)> {
    let mut out = Vec::new();
    let mut files: Vec<_> = std::fs::read_dir("/repo/src").map(|d| d.filter_map(|e| e.ok()).map(|e| e.path()).collect()).unwrap_or_default();
    files.sort();
    for f in files {
        let Ok(s) = std::fs::read_to_string(&f) else { continue };
        let mut rest = s.as_str();
        while let Some(p) = rest.find("impl SignatureScheme") {
            let after = &rest[p..];
            let Some(ob) = after.find('{') else { break };
            let mut depth = 1;
            let mut end = after.len();
            for (k, c) in after[ob + 1..].char_indices() {
                if c == '{' {
                    depth += 1;
                } else if c == '}' {
                    depth -= 1;
                    if depth == 0 {
                        end = ob + 1 + k;
                        break;
                    }
                }
            }
            let body: String = after[ob + 1..end].split_whitespace().collect::<Vec<_>>().join(" ");
            let mut b = body.as_str();
            while let Some(q) = b.find("pub ") {
                b = &b[q + 4..];
                let t = b.strip_prefix("const ").unwrap_or(b);
                let Some(t) = t.strip_prefix("fn ") else { continue };
                let name: String = t.chars().take_while(|c| c.is_alphanumeric() || *c == '_').collect();
                let Some(open) = t.find('(') else { continue };
                let Some(close) = t[open..].find(')') else { continue };
                let args = t[open + 1..open + close].trim();
                let tail = t[open + close + 1..].trim_start();
                if !(args == "&self" || args == "self") {
                    continue;
                }
                if let Some(r) = tail.strip_prefix("->") {
                    let ret: String = r.trim_start().chars().take_while(|c| c.is_alphanumeric() || *c == '_').collect();
                    if ret == "HashAlgorithm" || ret == "SignAlgorithm" {
                        out.push((name, ret));
                    }
                }
            }
            rest = &after[end.min(after.len() - 1)..];
        }
    }
    out
}
