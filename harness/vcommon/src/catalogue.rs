//! Small-scope catalogues of well-formed encodings (as `W`, i.e. bytes + the position of every
//! length field), from which the deviation operator derives lying lengths, cuts and suffixes.
//! Pure data: nothing here depends on the crate under test. `big` adds the large boundary sizes.

use crate::en::W;

fn fill(w: &mut W, n: usize, seed: u8) {
    w.fill(n, seed);
}

/// handshake message: type, u24 length, body
pub fn hs(ty: u8, body: impl FnOnce(&mut W)) -> W {
    let mut w = W::new();
    w.u8(ty);
    w.block(3, "hs_len", body);
    w
}

#[derive(Clone, Copy, Debug)]
pub enum ExtBlock {
    Absent,
    Empty,
    Bytes(usize),
}

fn put_ext(w: &mut W, e: ExtBlock) {
    match e {
        ExtBlock::Absent => {}
        ExtBlock::Empty => {
            w.block(2, "ext_len", |_| {});
        }
        ExtBlock::Bytes(n) => {
            w.block(2, "ext_len", |w| fill(w, n, 0xe0));
        }
    }
}

pub fn client_hello_body(w: &mut W, version: u16, sid: usize, nciphers: usize, ncomp: usize, ext: ExtBlock, cookie: Option<usize>) {
    w.u16(version);
    fill(w, 32, 0x40);
    w.block(1, "sid_len", |w| fill(w, sid, 0x80));
    if let Some(c) = cookie {
        w.block(1, "cookie_len", |w| fill(w, c, 0xc0));
    }
    w.block(2, "ciphers_len", |w| {
        for i in 0..nciphers {
            w.u16([0xc02f, 0x002f, 0x1301, 0x0a0a, 0xffff][i % 5]);
        }
    });
    w.block(1, "comp_len", |w| {
        for i in 0..ncomp {
            w.u8((i % 3) as u8);
        }
    });
    put_ext(w, ext);
}

pub fn client_hellos(big: bool) -> Vec<W> {
    let mut v = Vec::new();
    let exts = [ExtBlock::Absent, ExtBlock::Empty, ExtBlock::Bytes(9)];
    for version in [0x0303u16, 0x0301, 0x0300, 0xfefd] {
        for sid in [0usize, 1, 31, 32] {
            for nc in [0usize, 1, 2, 3] {
                for ncomp in [0usize, 1, 2] {
                    for e in exts {
                        // keep the cross product small: not every version with every shape
                        if version != 0x0303 && (sid == 31 || nc == 3 || ncomp == 2) {
                            continue;
                        }
                        v.push(hs(1, |w| client_hello_body(w, version, sid, nc, ncomp, e, None)));
                    }
                }
            }
        }
    }
    v.push(hs(1, |w| client_hello_body(w, 0x0303, 32, 2, 255, ExtBlock::Bytes(300), None)));
    if big {
        v.push(hs(1, |w| client_hello_body(w, 0x0303, 0, 32767, 1, ExtBlock::Absent, None)));
        v.push(hs(1, |w| client_hello_body(w, 0x0303, 32, 1, 1, ExtBlock::Bytes(65535), None)));
    }
    v
}

pub fn server_hello_body(w: &mut W, version: u16, sid: usize, ext: ExtBlock) {
    w.u16(version);
    fill(w, 32, 0x20);
    if version == 0x7f12 {
        w.u16(0x1301);
    } else {
        w.block(1, "sid_len", |w| fill(w, sid, 0x90));
        w.u16(0xc02f);
        w.u8(0);
    }
    put_ext(w, ext);
}

pub fn server_hellos(big: bool) -> Vec<W> {
    let mut v = Vec::new();
    for version in [0x0300u16, 0x0301, 0x0302, 0x0303, 0x7f12, 0x0304, 0x0000, 0xfefd, 0x02ff, 0x7f13] {
        for sid in [0usize, 1, 32] {
            for e in [ExtBlock::Absent, ExtBlock::Empty, ExtBlock::Bytes(6)] {
                if version == 0x7f12 && sid != 0 {
                    continue;
                }
                v.push(hs(2, |w| server_hello_body(w, version, sid, e)));
            }
        }
    }
    if big {
        v.push(hs(2, |w| server_hello_body(w, 0x0303, 32, ExtBlock::Bytes(65535))));
    }
    v
}

pub fn opaque_sizes(big: bool) -> Vec<usize> {
    if big {
        vec![0, 1, 255, 256, 65535, 65536]
    } else {
        vec![0, 1, 2, 255, 256]
    }
}

pub fn certificate_body(w: &mut W, certs: &[usize]) {
    w.block(3, "cert_list_len", |w| {
        for (i, &c) in certs.iter().enumerate() {
            w.block(3, "cert_len", |w| fill(w, c, 0x30u8.wrapping_add(i as u8)));
        }
    });
}

pub fn certificate_request_body(w: &mut W, ntypes: usize, algs: Option<usize>, dns: &[usize]) {
    w.block(1, "cert_types_len", |w| {
        for i in 0..ntypes {
            w.u8([1, 2, 64, 255][i % 4]);
        }
    });
    if let Some(na) = algs {
        w.block(2, "sig_algs_len", |w| {
            for i in 0..na {
                w.u16([0x0401, 0x0403, 0x0804][i % 3]);
            }
        });
    }
    w.block(2, "ca_len", |w| {
        for (i, &d) in dns.iter().enumerate() {
            w.block(2, "dn_len", |w| fill(w, d, 0x60u8.wrapping_add(i as u8)));
        }
    });
}

/// Every handshake variant over its boundary domain.
pub fn handshake_messages(big: bool) -> Vec<W> {
    let mut v = Vec::new();
    // HelloRequest, EndOfEarlyData (and with a stray body byte)
    for ty in [0u8, 5] {
        v.push(hs(ty, |_| {}));
        v.push(hs(ty, |w| {
            w.u8(0);
        }));
    }
    v.extend(client_hellos(big));
    v.extend(server_hellos(big));
    // NewSessionTicket
    for lifetime in [0u32, 1, 7200, 0x8000_0000, u32::MAX] {
        for t in [0usize, 1, 255, 256] {
            if lifetime != 7200 && t > 1 {
                continue;
            }
            v.push(hs(4, |w| {
                w.u32(lifetime);
                fill(w, t, 0x11);
            }));
        }
    }
    for short in 0..4usize {
        v.push(hs(4, |w| fill(w, short, 0x01)));
    }
    // HelloRetryRequest
    for e in [ExtBlock::Absent, ExtBlock::Empty, ExtBlock::Bytes(7)] {
        for ver in [0x7f12u16, 0x0304, 0x0000] {
            v.push(hs(6, |w| {
                w.u16(ver);
                w.u16(0x1301);
                put_ext(w, e);
            }));
        }
    }
    for short in 0..4usize {
        v.push(hs(6, |w| fill(w, short, 0x7f)));
    }
    // Certificate chains
    let chains: Vec<Vec<usize>> = vec![
        vec![],
        vec![0],
        vec![1],
        vec![5],
        vec![255],
        vec![256],
        vec![3, 0],
        vec![0, 3],
        vec![2, 2],
        vec![1, 255, 0],
        vec![4, 4, 4],
    ];
    for c in &chains {
        v.push(hs(11, |w| certificate_body(w, c)));
    }
    if big {
        v.push(hs(11, |w| certificate_body(w, &[65535, 65536])));
    }
    // opaque bodies
    for ty in [12u8, 14, 15, 16, 20] {
        for n in opaque_sizes(big) {
            v.push(hs(ty, |w| fill(w, n, ty)));
        }
    }
    // CertificateRequest, both forms
    for nt in [0usize, 1, 3] {
        for algs in [None, Some(0usize), Some(1), Some(3)] {
            for dns in [vec![], vec![0usize], vec![5], vec![1, 0, 5]] {
                if nt == 3 && dns.len() == 3 && algs == Some(3) {
                    continue;
                }
                v.push(hs(13, |w| certificate_request_body(w, nt, algs, &dns)));
            }
        }
    }
    v.push(hs(13, |_| {}));
    v.push(hs(13, |w| certificate_request_body(w, 255, Some(3), &[2])));
    v.push(hs(13, |w| certificate_request_body(w, 255, None, &[])));
    // CertificateStatus
    for st in [0u8, 1, 2, 255] {
        for n in [0usize, 1, 255, 256] {
            if st != 1 && n > 1 {
                continue;
            }
            v.push(hs(22, |w| {
                w.u8(st);
                w.block(3, "status_blob_len", |w| fill(w, n, 0x77));
            }));
        }
    }
    for short in 0..4usize {
        v.push(hs(22, |w| fill(w, short, 0x01)));
    }
    // KeyUpdate
    for k in [0u8, 1, 2, 255] {
        v.push(hs(24, |w| {
            w.u8(k);
        }));
    }
    v.push(hs(24, |_| {}));
    v.push(hs(24, |w| {
        w.u16(0x0100);
    }));
    // NextProtocol
    for p in [0usize, 2, 255] {
        for pad in [0usize, 5, 255] {
            v.push(hs(67, |w| {
                w.block(1, "proto_len", |w| fill(w, p, b'h'));
                w.block(1, "padding_len", |w| fill(w, pad, 0));
            }));
        }
    }
    v.push(hs(67, |_| {}));
    // handshake types without a body parser
    for ty in [3u8, 7, 8, 9, 10, 17, 18, 19, 21, 23, 25, 66, 68, 254, 255] {
        v.push(hs(ty, |_| {}));
        v.push(hs(ty, |w| fill(w, 3, ty)));
    }
    v
}

/// One message per handshake type byte (all 256), with an empty and a 4-byte body.
pub fn handshake_all_types() -> Vec<W> {
    let mut v = Vec::new();
    for ty in 0..=255u8 {
        v.push(hs(ty, |_| {}));
        v.push(hs(ty, |w| fill(w, 4, 0)));
        v.push(hs(ty, |w| {
            w.bytes(&[0x03, 0x03]);
            fill(w, 40, 0);
        }));
    }
    v
}

// ---------------------------------------------------------------- records

pub fn record(ty: u8, version: u16, payload: impl FnOnce(&mut W)) -> W {
    let mut w = W::new();
    w.u8(ty);
    w.u16(version);
    w.block(2, "record_len", payload);
    w
}

/// short, valid handshake messages used to build multi-message records
pub fn small_handshake_messages() -> Vec<W> {
    vec![
        hs(0, |_| {}),
        hs(14, |_| {}),
        hs(14, |w| fill(w, 2, 0xaa)),
        hs(20, |w| fill(w, 12, 0xf0)),
        hs(16, |w| fill(w, 5, 0x10)),
        hs(24, |w| {
            w.u8(1);
        }),
        hs(4, |w| {
            w.u32(300);
            fill(w, 3, 0x44);
        }),
        hs(11, |w| certificate_body(w, &[3, 2])),
        hs(22, |w| {
            w.u8(1);
            w.block(3, "status_blob_len", |w| fill(w, 2, 0x77));
        }),
        hs(2, |w| server_hello_body(w, 0x0303, 0, ExtBlock::Absent)),
        hs(1, |w| client_hello_body(w, 0x0303, 0, 1, 1, ExtBlock::Empty, None)),
    ]
}

/// TLS records: every content type with message lists of 1..=max_msgs messages.
pub fn tls_records(max_msgs: usize, big: bool) -> Vec<W> {
    let mut v = Vec::new();
    let ver = 0x0303;
    // ChangeCipherSpec
    for n in 1..=3usize.min(max_msgs.max(1)) {
        v.push(record(0x14, ver, |w| {
            for _ in 0..n {
                w.u8(1);
            }
        }));
    }
    v.push(record(0x14, ver, |_| {}));
    v.push(record(0x14, ver, |w| {
        w.u8(2);
    }));
    v.push(record(0x14, ver, |w| {
        w.u8(1).u8(0);
    }));
    // alerts: boundary grid
    let grid = [0u8, 1, 2, 3, 0x28, 0xff];
    for &l in &grid {
        for &d in &grid {
            v.push(record(0x15, ver, |w| {
                w.u8(l).u8(d);
            }));
        }
    }
    v.push(record(0x15, ver, |w| {
        w.bytes(&[1, 0, 2, 40]);
    }));
    v.push(record(0x15, ver, |w| {
        w.bytes(&[1, 0, 2]);
    }));
    v.push(record(0x15, ver, |w| {
        w.u8(1);
    }));
    v.push(record(0x15, ver, |_| {}));
    // handshake: singles and lists
    let small = small_handshake_messages();
    for m in &small {
        v.push(record(0x16, ver, |w| {
            w.append(m);
        }));
    }
    if max_msgs >= 2 {
        for a in &small {
            for b in &small {
                v.push(record(0x16, ver, |w| {
                    w.append(a).append(b);
                }));
            }
        }
    }
    if max_msgs >= 3 {
        for a in small.iter().take(6) {
            for b in small.iter().take(6) {
                for c in small.iter().take(6) {
                    v.push(record(0x16, ver, |w| {
                        w.append(a).append(b).append(c);
                    }));
                }
            }
        }
    }
    if max_msgs >= 4 {
        for a in small.iter().take(4) {
            for b in small.iter().take(4) {
                v.push(record(0x16, ver, |w| {
                    w.append(a).append(b).append(a).append(b);
                }));
            }
        }
    }
    v.push(record(0x16, ver, |_| {}));
    // a valid message followed by garbage / an unknown type / a malformed body
    for m in small.iter().take(4) {
        v.push(record(0x16, ver, |w| {
            w.append(m).u8(0xff);
        }));
        v.push(record(0x16, ver, |w| {
            w.append(m).append(&hs(0x63, |w| fill(w, 2, 0)));
        }));
        v.push(record(0x16, ver, |w| {
            w.append(m).append(&hs(24, |_| {}));
        }));
    }
    // application data
    for n in [0usize, 1, 2, 3, 100] {
        v.push(record(0x17, ver, |w| fill(w, n, 0x17)));
    }
    // heartbeat: type, payload, padding
    for t in [0u8, 1, 2, 255] {
        for p in 0..=3usize {
            for pad in 0..=2usize {
                if t != 1 && (p > 1 || pad > 1) {
                    continue;
                }
                v.push(record(0x18, ver, |w| {
                    w.u8(t);
                    w.block(2, "hb_payload_len", |w| fill(w, p, 0xb0));
                    fill(w, pad, 0xd0);
                }));
            }
        }
    }
    for short in 0..3usize {
        v.push(record(0x18, ver, |w| fill(w, short, 1)));
    }
    // unknown content types
    for ty in [0x00u8, 0x13, 0x19, 0x80, 0xff] {
        v.push(record(ty, ver, |w| fill(w, 3, 1)));
        v.push(record(ty, ver, |_| {}));
    }
    if big {
        for n in [16383usize, 16384, 16385, 16639] {
            v.push(record(0x17, ver, |w| fill(w, n, 0x17)));
            v.push(record(0x16, ver, |w| {
                w.append(&hs(20, |w| fill(w, n - 4, 0xf1)));
            }));
        }
        v.push(record(0x17, ver, |w| fill(w, 16640, 0x17)));
        v.push(record(0x14, ver, |w| {
            for _ in 0..16640 {
                w.u8(1);
            }
        }));
        v.push(record(0x15, ver, |w| {
            for _ in 0..8320 {
                w.u8(1).u8(0);
            }
        }));
        v.push(record(0x16, ver, |w| {
            for _ in 0..4160 {
                w.bytes(&[0, 0, 0, 0]);
            }
        }));
        v.push(record(0x16, ver, |w| {
            w.append(&hs(11, |w| certificate_body(w, &[16630])));
        }));
        v.push(record(0x18, ver, |w| {
            w.u8(1);
            w.block(2, "hb_payload_len", |w| fill(w, 16000, 0xb0));
            fill(w, 637, 0);
        }));
    }
    v
}

// ---------------------------------------------------------------- extensions

pub fn ext(t: u16, content: impl FnOnce(&mut W)) -> W {
    let mut w = W::new();
    w.u16(t);
    w.block(2, "ext_len", content);
    w
}

/// well-formed contents for each of the 26 known extension types (list sizes 0..3, boundary values)
pub fn known_extensions() -> Vec<W> {
    let mut v = Vec::new();
    // 0 SNI
    v.push(ext(0, |_| {}));
    for names in [vec![], vec![(0u8, 0usize)], vec![(0, 11)], vec![(0, 3), (1, 0)], vec![(255, 2), (0, 5), (7, 1)]] {
        v.push(ext(0, |w| {
            w.block(2, "sni_list_len", |w| {
                for (t, n) in &names {
                    w.u8(*t);
                    w.block(2, "sni_name_len", |w| fill(w, *n, b'a'));
                }
            });
        }));
    }
    // 1 max fragment length
    for x in [0u8, 1, 4, 255] {
        v.push(ext(1, |w| {
            w.u8(x);
        }));
    }
    // 5 status request
    v.push(ext(5, |_| {}));
    for (t, n) in [(1u8, 0usize), (1, 4), (0, 1), (255, 9)] {
        v.push(ext(5, |w| {
            w.u8(t);
            fill(w, n, 0);
        }));
    }
    // 10 supported groups, 13 signature algorithms
    for t in [10u16, 13] {
        for n in 0..=3usize {
            v.push(ext(t, |w| {
                w.block(2, "list_len", |w| {
                    for i in 0..n {
                        w.u16([0x001d, 0x0017, 0xffff, 0x0a0a][i % 4]);
                    }
                });
            }));
        }
    }
    // 11 point formats
    for n in [0usize, 1, 3] {
        v.push(ext(11, |w| {
            w.block(1, "list_len", |w| fill(w, n, 0));
        }));
    }
    // 15 heartbeat
    for m in [0u8, 1, 2, 255] {
        v.push(ext(15, |w| {
            w.u8(m);
        }));
    }
    // 16 ALPN
    for protos in [vec![], vec![0usize], vec![2], vec![2, 8], vec![1, 0, 255]] {
        v.push(ext(16, |w| {
            w.block(2, "alpn_list_len", |w| {
                for p in &protos {
                    w.block(1, "proto_len", |w| fill(w, *p, b'h'));
                }
            });
        }));
    }
    // 18 SCT
    v.push(ext(18, |_| {}));
    for n in [0usize, 1, 50] {
        v.push(ext(18, |w| {
            w.block(2, "sct_list_len", |w| fill(w, n, 0x5c));
        }));
    }
    // raw-data extensions
    for t in [21u16, 35, 40, 41, 44, 51] {
        for n in [0usize, 1, 7] {
            v.push(ext(t, |w| fill(w, n, t as u8)));
        }
    }
    // empty-by-definition
    for t in [22u16, 23, 49, 13172] {
        v.push(ext(t, |_| {}));
        v.push(ext(t, |w| {
            w.u8(0);
        }));
        v.push(ext(t, |w| fill(w, 3, 1)));
    }
    // 28 record size limit
    for x in [0u16, 64, 16385, 0xffff] {
        v.push(ext(28, |w| {
            w.u16(x);
        }));
    }
    // 42 early data
    v.push(ext(42, |_| {}));
    for x in [0u32, 1, 0x8000_0000, u32::MAX] {
        v.push(ext(42, |w| {
            w.u32(x);
        }));
    }
    // 43 supported versions: server form (2 bytes) and client form
    for x in [0x0304u16, 0x7f12, 0x0000] {
        v.push(ext(43, |w| {
            w.u16(x);
        }));
    }
    for n in [0usize, 2, 3] {
        v.push(ext(43, |w| {
            w.block(1, "versions_len", |w| {
                for i in 0..n {
                    w.u16([0x0304, 0x0303, 0x7f17][i % 3]);
                }
            });
        }));
    }
    // 45 psk modes
    for n in [0usize, 1, 2, 3] {
        v.push(ext(45, |w| {
            w.block(1, "modes_len", |w| {
                for i in 0..n {
                    w.u8([1, 0, 255][i % 3]);
                }
            });
        }));
    }
    // 48 oid filters
    for fs in [vec![], vec![(0usize, 0usize)], vec![(3, 2)], vec![(3, 0), (0, 4), (9, 1)]] {
        v.push(ext(48, |w| {
            w.block(2, "filters_len", |w| {
                for (o, val) in &fs {
                    w.block(1, "oid_len", |w| fill(w, *o, 0x55));
                    w.block(2, "oid_val_len", |w| fill(w, *val, 0x04));
                }
            });
        }));
    }
    // 0xff01 renegotiation info
    for n in [0usize, 1, 12] {
        v.push(ext(0xff01, |w| {
            w.block(1, "reneg_len", |w| fill(w, n, 0x9e));
        }));
    }
    // ---- list sizes at the limit of their length field (RFC maxima)
    for n in [126usize, 127] {
        // supported_versions: versions<2..254>
        v.push(ext(43, |w| {
            w.block(1, "versions_len", |w| {
                for i in 0..n {
                    w.u16(0x0300 + (i % 5) as u16);
                }
            });
        }));
    }
    v.push(ext(45, |w| {
        w.block(1, "modes_len", |w| fill(w, 255, 1));
    }));
    v.push(ext(11, |w| {
        w.block(1, "list_len", |w| fill(w, 255, 0));
    }));
    v.push(ext(0xff01, |w| {
        w.block(1, "reneg_len", |w| fill(w, 255, 0x9e));
    }));
    for t in [10u16, 13] {
        v.push(ext(t, |w| {
            w.block(2, "list_len", |w| {
                for i in 0..32766usize {
                    w.u16(i as u16);
                }
            });
        }));
    }
    v.push(ext(16, |w| {
        w.block(2, "alpn_list_len", |w| {
            w.block(1, "proto_len", |w| fill(w, 255, b'x'));
            w.block(1, "proto_len", |w| fill(w, 255, b'y'));
        });
    }));
    v.push(ext(0, |w| {
        w.block(2, "sni_list_len", |w| {
            w.u8(0);
            w.block(2, "sni_name_len", |w| fill(w, 65530, b'a'));
        });
    }));
    v.push(ext(18, |w| {
        w.block(2, "sct_list_len", |w| fill(w, 65533, 0x5c));
    }));
    v.push(ext(48, |w| {
        w.block(2, "filters_len", |w| {
            w.block(1, "oid_len", |w| fill(w, 255, 0x55));
            w.block(2, "oid_val_len", |w| fill(w, 65000, 0x04));
        });
    }));
    for t in [21u16, 35, 41, 44, 51, 5] {
        v.push(ext(t, |w| fill(w, 65535, 1)));
    }
    // 0xffce esni
    for (a, b, c) in [(0usize, 0usize, 0usize), (32, 32, 10), (1, 0, 300)] {
        v.push(ext(0xffce, |w| {
            w.u16(0x1301).u16(0x001d);
            w.block(2, "esni_ks_len", |w| fill(w, a, 1));
            w.block(2, "esni_rd_len", |w| fill(w, b, 2));
            w.block(2, "esni_sni_len", |w| fill(w, c, 3));
        }));
    }
    v
}

/// generic contents tried with every extension type
pub fn generic_contents() -> Vec<Vec<u8>> {
    vec![
        vec![],
        vec![0x00],
        vec![0x01],
        vec![0x00, 0x00],
        vec![0x00, 0x01, 0x00],
        vec![0x00, 0x02, 0x00, 0x17],
        vec![0x02, 0x03, 0x04],
        vec![0x01, 0x01],
        vec![0xff],
        vec![0x00, 0x00, 0x00, 0x01],
        vec![0x13, 0x01, 0x00, 0x1d, 0x00, 0x00, 0x00, 0x00, 0x00, 0x00],
    ]
}

pub fn ext_with(t: u16, content: &[u8]) -> W {
    ext(t, |w| {
        w.bytes(content);
    })
}

// ---------------------------------------------------------------- DTLS

pub fn dtls_hs(ty: u8, seq: u16, total: Option<u32>, foff: u32, body: impl FnOnce(&mut W)) -> W {
    // body is written first into a scratch builder to learn its length
    let mut b = W::new();
    body(&mut b);
    let flen = b.buf.len() as u32;
    let mut w = W::new();
    w.u8(ty);
    w.lenfield(3, "dtls_length", total.unwrap_or(flen) as u64);
    w.u16(seq);
    w.lenfield(3, "dtls_frag_off", foff as u64);
    w.block(3, "dtls_frag_len", |w| {
        w.append(&b);
    });
    w
}

pub fn dtls_handshake_messages() -> Vec<W> {
    let mut v = Vec::new();
    // ClientHello with cookies
    for cookie in [0usize, 1, 20, 32, 255] {
        for sid in [0usize, 32] {
            for e in [ExtBlock::Absent, ExtBlock::Empty, ExtBlock::Bytes(5)] {
                if cookie == 1 && sid == 32 {
                    continue;
                }
                v.push(dtls_hs(1, 0, None, 0, |w| client_hello_body(w, 0xfefd, sid, 2, 1, e, Some(cookie))));
            }
        }
    }
    // HelloVerifyRequest
    for cookie in [0usize, 1, 32, 255] {
        v.push(dtls_hs(3, 0, None, 0, |w| {
            w.u16(0xfeff);
            w.block(1, "cookie_len", |w| fill(w, cookie, 0xc0));
        }));
    }
    // ServerHello (any version)
    for ver in [0xfefdu16, 0xfeff, 0x0303, 0x7f12, 0x0300] {
        for e in [ExtBlock::Absent, ExtBlock::Bytes(4)] {
            v.push(dtls_hs(2, 1, None, 0, |w| {
                w.u16(ver);
                fill(w, 32, 0x20);
                w.block(1, "sid_len", |w| fill(w, 32, 0x90));
                w.u16(0xc02f);
                w.u8(0);
                put_ext(w, e);
            }));
        }
    }
    // Certificate, ServerHelloDone, ClientKeyExchange
    for c in [vec![], vec![5usize], vec![3, 0, 256]] {
        v.push(dtls_hs(11, 2, None, 0, |w| certificate_body(w, &c)));
    }
    for n in [0usize, 1, 66] {
        v.push(dtls_hs(14, 3, None, 0, |w| fill(w, n, 0x0e)));
        v.push(dtls_hs(16, 4, None, 0, |w| fill(w, n, 0x10)));
    }
    // fragments: non-zero offset, or fragment shorter than the message
    for (total, off, n) in [(100u32, 0u32, 40usize), (100, 40, 60), (100, 99, 1), (1, 1, 0), (5, 0, 0), (300, 0, 299), (0xffffff, 0xfffffe, 1)] {
        for ty in [1u8, 11, 16, 12, 99] {
            v.push(dtls_hs(ty, 7, Some(total), off, |w| fill(w, n, 0xf7)));
        }
    }
    // unsupported complete messages
    for ty in [0u8, 4, 12, 13, 15, 20, 22, 99] {
        v.push(dtls_hs(ty, 9, None, 0, |w| fill(w, 4, ty)));
    }
    // message_seq boundaries
    for seq in [0u16, 1, 0x8000, 0xffff] {
        v.push(dtls_hs(14, seq, None, 0, |_| {}));
    }
    v
}

pub fn dtls_record(ty: u8, version: u16, epoch: u16, seq: u64, payload: impl FnOnce(&mut W)) -> W {
    let mut w = W::new();
    w.u8(ty);
    w.u16(version);
    w.u16(epoch);
    w.u48(seq);
    w.block(2, "record_len", payload);
    w
}

pub fn dtls_records() -> Vec<W> {
    let mut v = Vec::new();
    let hs = dtls_handshake_messages();
    for (i, m) in hs.iter().enumerate() {
        v.push(dtls_record(0x16, 0xfefd, (i % 3) as u16, i as u64, |w| {
            w.append(m);
        }));
    }
    // two and three messages per record
    for a in hs.iter().step_by(7) {
        for b in hs.iter().step_by(11) {
            v.push(dtls_record(0x16, 0xfefd, 0, 1, |w| {
                w.append(a).append(b);
            }));
        }
    }
    v.push(dtls_record(0x16, 0xfefd, 0, 0, |_| {}));
    for n in 1..=3usize {
        v.push(dtls_record(0x14, 0xfefd, 0, 5, |w| {
            for _ in 0..n {
                w.u8(1);
            }
        }));
    }
    v.push(dtls_record(0x14, 0xfefd, 0, 5, |w| {
        w.u8(0);
    }));
    v.push(dtls_record(0x14, 0xfefd, 0, 5, |_| {}));
    for (l, d) in [(1u8, 0u8), (2, 40), (255, 255), (0, 0)] {
        v.push(dtls_record(0x15, 0xfefd, 1, 6, |w| {
            w.u8(l).u8(d);
        }));
    }
    v.push(dtls_record(0x15, 0xfefd, 1, 6, |w| {
        w.bytes(&[1, 0, 2, 40]);
    }));
    v.push(dtls_record(0x15, 0xfefd, 1, 6, |w| {
        w.u8(1);
    }));
    for ty in [0x17u8, 0x18, 0x00, 0x19, 0xff] {
        v.push(dtls_record(ty, 0xfefd, 1, 7, |w| fill(w, 5, 1)));
    }
    v
}

// ---------------------------------------------------------------- key exchange, signatures, SCT

pub fn dh_params(big: bool) -> Vec<W> {
    let sizes: Vec<usize> = if big { vec![0, 1, 2, 255, 256, 65535] } else { vec![0, 1, 2, 255, 256] };
    let mut v = Vec::new();
    for &p in &sizes {
        for &g in &sizes {
            for &y in &sizes {
                if !big && [p, g, y].iter().filter(|&&x| x >= 255).count() > 1 {
                    continue;
                }
                let mut w = W::new();
                w.block(2, "dh_p_len", |w| fill(w, p, 0xd1));
                w.block(2, "dh_g_len", |w| fill(w, g, 0xd2));
                w.block(2, "dh_ys_len", |w| fill(w, y, 0xd3));
                v.push(w);
            }
        }
    }
    v
}

pub fn ec_parameters() -> Vec<W> {
    let mut v = Vec::new();
    for g in [0u16, 23, 29, 0x0100, 0xff01, 0xffff] {
        let mut w = W::new();
        w.u8(3).u16(g);
        v.push(w);
    }
    // explicit prime: six u8-length fields
    let shapes: Vec<[usize; 6]> = vec![
        [0, 0, 0, 0, 0, 0],
        [1, 1, 1, 1, 1, 1],
        [32, 32, 32, 65, 32, 1],
        [255, 0, 1, 0, 255, 0],
        [0, 255, 0, 255, 0, 255],
    ];
    for s in shapes {
        let mut w = W::new();
        w.u8(1);
        for (i, n) in s.iter().enumerate() {
            w.block(1, "ec_field_len", |w| fill(w, *n, 0xa0 + i as u8));
        }
        v.push(w);
    }
    for ct in [0u8, 2, 4, 255] {
        let mut w = W::new();
        w.u8(ct).u16(23).u8(0);
        v.push(w);
    }
    v
}

pub fn ecdh_params() -> Vec<W> {
    let mut v = Vec::new();
    for p in ec_parameters() {
        for n in [0usize, 1, 65, 255] {
            let mut w = p.clone();
            w.block(1, "ec_point_len", |w| fill(w, n, 0x04));
            v.push(w);
        }
    }
    v
}

pub fn ec_points() -> Vec<W> {
    (0..=255usize)
        .map(|n| {
            let mut w = W::new();
            w.block(1, "ec_point_len", |w| fill(w, n, 0x04));
            w
        })
        .collect()
}

pub fn signatures(with_alg: bool, big: bool) -> Vec<W> {
    let mut v = Vec::new();
    let sizes: Vec<usize> = if big { vec![0, 1, 64, 65535] } else { vec![0, 1, 64, 256] };
    let algs: Vec<(u8, u8)> = vec![(4, 1), (4, 3), (8, 4), (0, 0), (255, 255), (6, 2)];
    for &n in &sizes {
        if with_alg {
            for &(h, s) in &algs {
                let mut w = W::new();
                w.u8(h).u8(s);
                w.block(2, "sig_len", |w| fill(w, n, 0x51));
                v.push(w);
            }
        } else {
            let mut w = W::new();
            w.block(2, "sig_len", |w| fill(w, n, 0x51));
            v.push(w);
        }
    }
    v
}

pub fn sct_entry(w: &mut W, version: u8, ts: u64, ext: usize, hash: u8, sign: u8, sig: usize) {
    w.block(2, "sct_len", |w| {
        w.u8(version);
        fill(w, 32, 0x1d);
        w.u64(ts);
        w.block(2, "sct_ext_len", |w| fill(w, ext, 0xe7));
        w.u8(hash).u8(sign);
        w.block(2, "sct_sig_len", |w| fill(w, sig, 0x30));
    });
}

pub fn scts(big: bool) -> Vec<W> {
    let mut v = Vec::new();
    let sizes: Vec<usize> = if big { vec![0, 1, 2, 65000] } else { vec![0, 1, 2, 70] };
    for ver in [0u8, 1, 255] {
        for &e in &sizes {
            for &s in &sizes {
                if e > 2 && s > 2 {
                    continue;
                }
                let mut w = W::new();
                sct_entry(&mut w, ver, 0x0001_0203_0405_0607 ^ ((e as u64) << 40), e, 4, 3, s);
                v.push(w);
            }
        }
    }
    for ts in [0u64, 1, u64::MAX, 1 << 63, 0x0000_0160_0000_0000] {
        let mut w = W::new();
        sct_entry(&mut w, 0, ts, 0, 4, 1, 71);
        v.push(w);
    }
    v
}

pub fn sct_lists(big: bool) -> Vec<W> {
    let mut v = Vec::new();
    let entries: Vec<(u8, u64, usize, u8, u8, usize)> = vec![
        (0, 0x0000_0160_1122_3344, 0, 4, 3, 71),
        (0, u64::MAX, 2, 4, 1, 1),
        (1, 0, 0, 0, 0, 0),
        (255, 1 << 63, 1, 8, 7, 2),
    ];
    let mut lists: Vec<Vec<usize>> = vec![vec![]];
    for a in 0..entries.len() {
        lists.push(vec![a]);
        for b in 0..entries.len() {
            lists.push(vec![a, b]);
            if a < 2 {
                for c in 0..entries.len() {
                    lists.push(vec![a, b, c]);
                }
            }
        }
    }
    for l in lists {
        let mut w = W::new();
        w.block(2, "sct_list_len", |w| {
            for &i in &l {
                let e = entries[i];
                sct_entry(w, e.0, e.1, e.2, e.3, e.4, e.5);
            }
        });
        v.push(w);
    }
    if big {
        let mut w = W::new();
        w.block(2, "sct_list_len", |w| {
            sct_entry(w, 0, 7, 30000, 4, 3, 30000);
        });
        v.push(w);
    }
    v
}

// ---------------------------------------------------------------- repetition at scale

/// Counts at which repeated elements are tried: around 2^8 and towards the limit of the container.
pub const MANY: [usize; 5] = [255, 256, 257, 1000, 4000];

/// Extension blocks with many (empty, mostly unassigned-type) extensions.
pub fn extension_lists_many() -> Vec<W> {
    let mut v = Vec::new();
    for n in MANY.iter().copied().chain([16383]) {
        let mut w = W::new();
        for i in 0..n {
            // unassigned types only (stay clear of the known ones and of GREASE)
            w.append(&ext_with(0x4000 + (i as u16 & 0x0fff), &[]));
        }
        v.push(w);
    }
    // many real extensions of mixed kinds
    let k = known_extensions();
    let mut w = W::new();
    for i in 0..300 {
        let e = &k[i % 60];
        if e.buf.len() < 64 {
            w.append(e);
        }
    }
    v.push(w);
    v
}

/// Handshake messages and extensions whose inner lists hold many elements.
pub fn handshake_many() -> Vec<W> {
    let mut v = Vec::new();
    for n in MANY {
        v.push(hs(11, |w| certificate_body(w, &vec![0usize; n])));
        v.push(hs(11, |w| certificate_body(w, &vec![1usize; n])));
        v.push(hs(13, |w| certificate_request_body(w, 3, Some(n), &vec![0usize; n])));
        v.push(hs(13, |w| certificate_request_body(w, 1, None, &vec![2usize; n])));
    }
    v
}

pub fn extensions_many() -> Vec<W> {
    let mut v = Vec::new();
    for n in MANY {
        v.push(ext(0, |w| {
            w.block(2, "sni_list_len", |w| {
                for i in 0..n {
                    w.u8((i % 3) as u8);
                    w.block(2, "sni_name_len", |w| fill(w, i % 2, b'a'));
                }
            });
        }));
        v.push(ext(16, |w| {
            w.block(2, "alpn_list_len", |w| {
                for i in 0..n {
                    w.block(1, "proto_len", |w| fill(w, 1 + i % 2, b'h'));
                }
            });
        }));
        v.push(ext(48, |w| {
            w.block(2, "filters_len", |w| {
                for i in 0..n {
                    w.block(1, "oid_len", |w| fill(w, i % 2, 0x55));
                    w.block(2, "oid_val_len", |w| fill(w, i % 3, 0x04));
                }
            });
        }));
    }
    v
}

pub fn sct_lists_many() -> Vec<W> {
    let mut v = Vec::new();
    // an SCT entry is at least 49 bytes: 1285 entries of 51 bytes fill the u16 list length
    for n in [255usize, 256, 257, 1000, 1285] {
        let mut w = W::new();
        w.block(2, "sct_list_len", |w| {
            for i in 0..n {
                sct_entry(w, (i % 2) as u8, i as u64, 0, 4, 3, 2);
            }
        });
        v.push(w);
    }
    v
}

/// Buffers holding many records (TLS, then DTLS): (count, bytes)
pub fn many_records() -> Vec<(usize, Vec<u8>, bool)> {
    let mut v = Vec::new();
    for n in [5usize, 6, 7, 8, 15, 100, 255, 256, 257, 1000] {
        for kind in 0..4 {
            let mut b = Vec::new();
            for i in 0..n {
                let r = match kind {
                    0 => record(0x17, 0x0303, |_| {}),
                    1 => record(0x14, 0x0303, |w| {
                        w.u8(1);
                    }),
                    2 => record(0x16, 0x0303, |w| {
                        w.bytes(&[0, 0, 0, 0]);
                    }),
                    _ => {
                        if i % 2 == 0 {
                            record(0x17, 0x0303, |_| {})
                        } else {
                            record(0x15, 0x0303, |w| {
                                w.u8(1).u8(0);
                            })
                        }
                    }
                };
                b.extend_from_slice(&r.buf);
            }
            v.push((n, b, false));
        }
        let mut b = Vec::new();
        for i in 0..n {
            b.extend_from_slice(
                &dtls_record(0x14, 0xfefd, 0, i as u64, |w| {
                    w.u8(1);
                })
                .buf,
            );
        }
        v.push((n, b, true));
    }
    v
}

// ---------------------------------------------------------------- protocol-defined magic values

/// SHA-256("HelloRetryRequest"): the special ServerHello.random of RFC 8446 section 4.1.3
pub const HRR_RANDOM: [u8; 32] = [
    0xcf, 0x21, 0xad, 0x74, 0xe5, 0x9a, 0x61, 0x11, 0xbe, 0x1d, 0x8c, 0x02, 0x1e, 0x65, 0xb8, 0x91, 0xc2, 0xa2, 0x11, 0x16, 0x7a, 0xbb,
    0x8c, 0x5e, 0x07, 0x9e, 0x09, 0xe2, 0xc8, 0xa8, 0x33, 0x9c,
];

/// randoms with a protocol-defined meaning that a decoder must nevertheless return verbatim
pub fn magic_randoms() -> Vec<[u8; 32]> {
    let mut v = vec![HRR_RANDOM, [0u8; 32], [0xff; 32]];
    // downgrade sentinels of RFC 8446 4.1.3 in the last eight bytes
    for last in [0x01u8, 0x00] {
        let mut r = [0x5au8; 32];
        r[24..31].copy_from_slice(b"DOWNGRD");
        r[31] = last;
        v.push(r);
    }
    // a random that starts like a unix time / like the HRR value but differs in the last byte
    let mut near = HRR_RANDOM;
    near[31] ^= 1;
    v.push(near);
    v
}

/// Hello messages (TLS and DTLS) carrying the magic randoms, for every ServerHello version form.
pub fn magic_hellos() -> Vec<W> {
    let mut v = Vec::new();
    for r in magic_randoms() {
        for version in [0x0300u16, 0x0301, 0x0302, 0x0303, 0x7f12] {
            for e in [ExtBlock::Absent, ExtBlock::Bytes(6)] {
                v.push(hs(2, |w| {
                    w.u16(version);
                    w.bytes(&r);
                    if version == 0x7f12 {
                        w.u16(0x1301);
                    } else {
                        w.block(1, "sid_len", |w| fill(w, 32, 0x90));
                        w.u16(0x1301);
                        w.u8(0);
                    }
                    put_ext(w, e);
                }));
            }
        }
        v.push(hs(1, |w| {
            w.u16(0x0303);
            w.bytes(&r);
            w.block(1, "sid_len", |w| {
                w.bytes(&r);
            });
            w.block(2, "ciphers_len", |w| {
                w.u16(0x1301).u16(0x00ff).u16(0x5600);
            });
            w.block(1, "comp_len", |w| {
                w.u8(0);
            });
            put_ext(w, ExtBlock::Empty);
        }));
        v.push(dtls_hs(2, 1, None, 0, |w| {
            w.u16(0xfefd);
            w.bytes(&r);
            w.block(1, "sid_len", |_| {});
            w.u16(0xc02f);
            w.u8(0);
        }));
    }
    v
}

// ---------------------------------------------------------------- text-typed fields

/// Contents for fields that carry text (host names, protocol names): shapes that a
/// "normalising" decoder or encoder would be tempted to edit (trailing / leading dot, case,
/// blanks, NUL, non-ASCII, IDN prefix, empty labels, wildcards).
pub fn text_patterns() -> Vec<Vec<u8>> {
    let mut v: Vec<Vec<u8>> = [
        "a.", ".a", ".", "..", "a..b", "A.B", "Www.Example.COM", "www.example.com.", " a", "a ", "a\t", "a\n", "a\r\n", "a\0", "\0", "a\0b", "xn--bcher-kva.example",
        "*.example.com", "*", "::1", "10.0.0.1", "192.168.1.10", "2001:db8::1", "1.2.3.4.", "256.1.1.1", "1.2.3", "0.0.0.0", "255.255.255.255", "::", "fe80::1%eth0", "h2", "H2", "http/1.1", "HTTP/1.1", "localhost", "127.0.0.1", "[::1]", "a,b", "a;b", "a/b", "a\\b", "\"a\"", "%41", "a%00",
        // what ends up in a name when a URL or an address is pasted: port, userinfo, scheme, path, query, fragment, brackets
        "example.com:8443", "a.b:1", "a.b:0", "a.b:65535", "a.b:65536", "a.b:", ":80", "a.b:80:80", "a.b:8a", "[::1]:443", "[2001:db8::1]:8443", "*.a.b:443", "user@example.com", "user:pw@a.b", "http://a.b", "https://a.b/", "a.b/path", "a.b?x=1", "a.b#f", "a.b:443/", "//a.b", "a.b.", "a.b..", "_srv._tcp.a.b", "a-.b", "-a.b", "a_b.c", "1.2.3.4:80", "0x7f.1", "017.0.0.1", "example.com\u{0}:80", "EXAMPLE.COM:443", "a.b :80", "a.b: 80",
    ]
    .iter()
    .map(|s| s.as_bytes().to_vec())
    .collect();
    v.push("b\u{fc}cher.example".as_bytes().to_vec());
    v.push(vec![0xef, 0xbb, 0xbf, b'a']);
    v.push(vec![b'a', 0x80]);
    v.push(vec![0xff, 0xfe]);
    v
}

/// SNI and ALPN extensions whose names are the text patterns.
pub fn text_extensions() -> Vec<W> {
    let mut v = Vec::new();
    for t in text_patterns() {
        v.push(ext(0, |w| {
            w.block(2, "sni_list_len", |w| {
                w.u8(0);
                w.block(2, "sni_name_len", |w| {
                    w.bytes(&t);
                });
            });
        }));
        if t.len() <= 255 {
            v.push(ext(16, |w| {
                w.block(2, "alpn_list_len", |w| {
                    w.block(1, "proto_len", |w| {
                        w.bytes(&t);
                    });
                    w.block(1, "proto_len", |w| {
                        w.bytes(b"x");
                    });
                });
            }));
        }
    }
    v
}

// ---------------------------------------------------------------- other protocols' first bytes

/// Byte strings that real traffic puts where a TLS / DTLS record is expected: SSLv2-compatible
/// ClientHellos (RFC 5246 appendix E.2) in all their length shapes, and the openings of a few
/// other protocols. Each is padded so that, read as a TLS record, its declared length is present.
pub fn foreign_protocols() -> Vec<Vec<u8>> {
    let mut v: Vec<Vec<u8>> = Vec::new();
    // SSLv2 ClientHello: 2-byte record length (high bit set), msg type 1, version, three u16 lengths, data
    for version in [0x0002u16, 0x0300, 0x0301, 0x0302, 0x0303] {
        for cipher_specs in [3usize, 6, 9, 27, 30, 300] {
            for sid in [0usize, 16] {
                for challenge in [16usize, 24, 32] {
                    let body_len = 9 + cipher_specs + sid + challenge;
                    let mut b = vec![0x80 | (body_len >> 8) as u8, body_len as u8, 0x01, (version >> 8) as u8, version as u8];
                    b.extend((cipher_specs as u16).to_be_bytes());
                    b.extend((sid as u16).to_be_bytes());
                    b.extend((challenge as u16).to_be_bytes());
                    for i in 0..cipher_specs {
                        b.push([0x00, 0x00, 0x2f][i % 3]);
                    }
                    b.extend(std::iter::repeat(0x5a).take(sid + challenge));
                    // read as a TLS record the declared length is bytes 3..5: make it available
                    let tls_len = ((b[3] as usize) << 8) | b[4] as usize;
                    if b.len() < 5 + tls_len + 3 {
                        b.resize(5 + tls_len + 3, 0xee);
                    }
                    v.push(b);
                }
            }
        }
    }
    for text in [
        "GET / HTTP/1.1\r\nHost: a\r\n\r\n", "POST /x HTTP/1.0\r\n\r\n", "HTTP/1.1 400 Bad Request\r\n\r\n", "SSH-2.0-OpenSSH_9.0\r\n", "220 mail ESMTP\r\n",
        "EHLO a\r\n", "STARTTLS\r\n", "CONNECT a:443 HTTP/1.1\r\n\r\n", "PRI * HTTP/2.0\r\n\r\nSM\r\n\r\n", "\u{16}\u{3}\u{1}",
    ] {
        let mut b = text.as_bytes().to_vec();
        b.resize(b.len().max(8) + 70000, 0x20);
        v.push(b);
    }
    v
}

// ---------------------------------------------------------------- hellos with real extension lists

/// Extension blocks that are well-formed extension lists: every known extension alone, and pairs.
pub fn extension_blocks() -> Vec<Vec<u8>> {
    let exts: Vec<Vec<u8>> = known_extensions().into_iter().filter(|w| w.buf.len() < 300).map(|w| w.buf).collect();
    let mut blocks: Vec<Vec<u8>> = exts.clone();
    for a in exts.iter().step_by(7) {
        for b in exts.iter().step_by(11) {
            let mut x = a.clone();
            x.extend_from_slice(b);
            blocks.push(x);
        }
    }
    // the TLS 1.3 ServerHello / HelloRetryRequest shapes
    blocks.push(vec![0x00, 0x2b, 0x00, 0x02, 0x03, 0x04]);
    blocks.push(vec![0x00, 0x2b, 0x00, 0x02, 0x03, 0x04, 0x00, 0x33, 0x00, 0x02, 0x00, 0x1d]);
    blocks.push(vec![0x00, 0x33, 0x00, 0x02, 0x00, 0x1d, 0x00, 0x2b, 0x00, 0x02, 0x7f, 0x1c]);
    blocks.push(vec![0x00, 0x2b, 0x00, 0x03, 0x02, 0x03, 0x04]);
    // extensions that carry protocol meaning, with real contents: alone, in every ordered pair and triple
    let sem = semantic_extensions();
    for a in &sem {
        blocks.push(a.1.clone());
    }
    let core: Vec<&Vec<u8>> = sem.iter().filter(|e| e.2).map(|e| &e.1).collect();
    for (i, a) in core.iter().enumerate() {
        for (j, b) in core.iter().enumerate() {
            if i == j {
                continue;
            }
            blocks.push([&a[..], &b[..]].concat());
            for (k, c) in core.iter().enumerate() {
                if k != i && k != j {
                    blocks.push([&a[..], &b[..], &c[..]].concat());
                }
            }
        }
    }
    // supported_versions with each version family, client and server form
    for v in [0x0304u16, 0x0303, 0x0301, 0xfefc, 0xfefd, 0xfeff, 0x7f1c, 0x7f12, 0x0a0a, 0xffff] {
        blocks.push(vec![0x00, 0x2b, 0x00, 0x03, 0x02, (v >> 8) as u8, v as u8]);
        blocks.push(vec![0x00, 0x2b, 0x00, 0x05, 0x04, 0x03, 0x03, (v >> 8) as u8, v as u8]);
        blocks.push(vec![0x00, 0x2b, 0x00, 0x02, (v >> 8) as u8, v as u8]);
    }
    // whole hello profiles as deployed stacks send them
    let profiles = hello_profiles();
    blocks.extend(profiles.iter().cloned());
    // a block that already carries a length prefix of its own (pasted one level too deep)
    let inner: Vec<Vec<u8>> = profiles.iter().cloned().chain(exts.iter().take(40).cloned()).collect();
    for b in inner {
        let n = b.len();
        if n < 256 {
            blocks.push([&[n as u8][..], &b[..]].concat());
        }
        blocks.push([&[(n >> 8) as u8, n as u8][..], &b[..]].concat());
        blocks.push([&[0, (n >> 8) as u8, n as u8][..], &b[..]].concat());
    }
    blocks
}

fn ext_bytes(t: u16, c: &[u8]) -> Vec<u8> {
    let mut v = vec![(t >> 8) as u8, t as u8, (c.len() >> 8) as u8, c.len() as u8];
    v.extend_from_slice(c);
    v
}

/// (name, encoding, member of the core set used for ordered pairs / triples)
pub fn semantic_extensions() -> Vec<(&'static str, Vec<u8>, bool)> {
    let key: Vec<u8> = (0..32u8).map(|i| i.wrapping_mul(7).wrapping_add(1)).collect();
    let mut psk = vec![0x00, 0x0a, 0x00, 0x04, b't', b'i', b'c', b'k', 0, 0, 0, 0, 0x00, 0x21, 0x20];
    psk.extend_from_slice(&key);
    let mut ks_c = vec![0x00, 0x24, 0x00, 0x1d, 0x00, 0x20];
    ks_c.extend_from_slice(&key);
    let mut ks_s = vec![0x00, 0x1d, 0x00, 0x20];
    ks_s.extend_from_slice(&key);
    vec![
        ("supported_versions client 1.3", ext_bytes(43, &[2, 3, 4]), true),
        ("supported_versions client 1.3+1.2", ext_bytes(43, &[4, 3, 4, 3, 3]), false),
        ("supported_versions client DTLS 1.3", ext_bytes(43, &[2, 0xfe, 0xfc]), true),
        ("supported_versions client DTLS 1.3+1.2", ext_bytes(43, &[4, 0xfe, 0xfc, 0xfe, 0xfd]), false),
        ("supported_versions server 1.3", ext_bytes(43, &[3, 4]), true),
        ("psk_key_exchange_modes", ext_bytes(45, &[1, 1]), true),
        ("pre_shared_key client", ext_bytes(41, &psk), true),
        ("pre_shared_key server", ext_bytes(41, &[0, 0]), true),
        ("key_share client", ext_bytes(51, &ks_c), true),
        ("key_share server", ext_bytes(51, &ks_s), true),
        ("key_share hrr", ext_bytes(51, &[0, 0x1d]), false),
        ("early_data", ext_bytes(42, &[]), true),
        ("cookie", ext_bytes(44, &[0, 3, 0xaa, 0xbb, 0xcc]), true),
        ("renegotiation_info", ext_bytes(0xff01, &[0]), true),
        ("session_ticket", ext_bytes(35, &[]), true),
        ("extended_master_secret", ext_bytes(23, &[]), true),
        ("encrypt_then_mac", ext_bytes(22, &[]), false),
        ("server_name", ext_bytes(0, &[0, 9, 0, 0, 6, b'a', b'.', b'b', b'.', b'c', b'd']), false),
        ("alpn", ext_bytes(16, &[0, 3, 2, b'h', b'2']), false),
        ("supported_groups", ext_bytes(10, &[0, 4, 0, 0x1d, 0, 0x17]), false),
        ("signature_algorithms", ext_bytes(13, &[0, 4, 4, 3, 8, 4]), false),
        ("ec_point_formats", ext_bytes(11, &[1, 0]), false),
        ("status_request", ext_bytes(5, &[1, 0, 0, 0, 0]), false),
        ("sct", ext_bytes(18, &[]), false),
        ("heartbeat", ext_bytes(15, &[1]), false),
        ("padding", ext_bytes(21, &[0, 0, 0]), false),
        ("record_size_limit", ext_bytes(28, &[0x40, 0x01]), false),
    ]
}

/// extension blocks of whole hellos: TLS 1.3 browser-like ClientHello, the same resuming with a PSK,
/// DTLS 1.3 ClientHello, TLS 1.2 ClientHello, TLS 1.3 / PSK / HelloRetryRequest / TLS 1.2 server blocks
pub fn hello_profiles() -> Vec<Vec<u8>> {
    let sem = semantic_extensions();
    let get = |n: &str| -> Vec<u8> { sem.iter().find(|e| e.0 == n).unwrap_or_else(|| panic!("no extension {}", n)).1.clone() };
    let cat = |names: &[&str]| -> Vec<u8> { names.iter().flat_map(|n| get(n)).collect() };
    vec![
        cat(&["server_name", "extended_master_secret", "renegotiation_info", "supported_groups", "ec_point_formats", "session_ticket", "alpn", "status_request", "signature_algorithms", "sct", "key_share client", "psk_key_exchange_modes", "supported_versions client 1.3+1.2", "padding"]),
        cat(&["server_name", "extended_master_secret", "renegotiation_info", "supported_groups", "ec_point_formats", "session_ticket", "alpn", "status_request", "signature_algorithms", "key_share client", "psk_key_exchange_modes", "supported_versions client 1.3+1.2", "early_data", "pre_shared_key client"]),
        cat(&["supported_versions client DTLS 1.3+1.2", "supported_groups", "signature_algorithms", "key_share client", "psk_key_exchange_modes", "cookie"]),
        cat(&["supported_versions client DTLS 1.3", "key_share client", "psk_key_exchange_modes", "pre_shared_key client"]),
        cat(&["server_name", "extended_master_secret", "renegotiation_info", "supported_groups", "ec_point_formats", "session_ticket", "signature_algorithms", "encrypt_then_mac", "heartbeat"]),
        cat(&["supported_versions server 1.3", "key_share server"]),
        cat(&["supported_versions server 1.3", "key_share server", "pre_shared_key server"]),
        cat(&["supported_versions server 1.3", "pre_shared_key server"]),
        cat(&["supported_versions server 1.3", "key_share hrr", "cookie"]),
        cat(&["renegotiation_info", "extended_master_secret", "session_ticket", "alpn", "ec_point_formats", "status_request"]),
        cat(&["supported_versions client 1.3", "psk_key_exchange_modes", "key_share client", "pre_shared_key client"]),
    ]
}

/// ClientHello / ServerHello (every version form) / HelloRetryRequest / DTLS hellos whose extension
/// block is one of `extension_blocks()`.
pub fn hellos_with_extension_lists() -> Vec<W> {
    let mut v = Vec::new();
    for (i, block) in extension_blocks().iter().enumerate() {
        let sid = if i % 2 == 0 { 0 } else { 32 };
        for version in [0x0301u16, 0x0303] {
            v.push(hs(2, |w| {
                w.u16(version);
                fill(w, 32, 0x20);
                w.block(1, "sid_len", |w| fill(w, sid, 9));
                w.u16(0x1301).u8(0);
                w.block(2, "ext_len", |w| {
                    w.bytes(block);
                });
            }));
        }
        v.push(hs(2, |w| {
            w.u16(0x7f12);
            fill(w, 32, 0x20);
            w.u16(0x1301);
            w.block(2, "ext_len", |w| {
                w.bytes(block);
            });
        }));
        v.push(hs(1, |w| {
            w.u16(0x0303);
            fill(w, 32, 0x40);
            w.block(1, "sid_len", |w| fill(w, sid, 7));
            w.block(2, "ciphers_len", |w| {
                w.u16(0x1301);
            });
            w.block(1, "comp_len", |w| {
                w.u8(0);
            });
            w.block(2, "ext_len", |w| {
                w.bytes(block);
            });
        }));
        v.push(hs(6, |w| {
            w.u16(0x0304).u16(0x1301);
            w.block(2, "ext_len", |w| {
                w.bytes(block);
            });
        }));
        v.push(dtls_hs(2, 1, None, 0, |w| {
            w.u16(0xfefd);
            fill(w, 32, 0x20);
            w.block(1, "sid_len", |w| fill(w, sid, 9));
            w.u16(0xc02f).u8(0);
            w.block(2, "ext_len", |w| {
                w.bytes(block);
            });
        }));
        v.push(dtls_hs(1, 0, None, 0, |w| {
            w.u16(0xfefd);
            fill(w, 32, 0x40);
            w.block(1, "sid_len", |w| fill(w, sid, 7));
            w.block(1, "cookie_len", |w| fill(w, 3, 0xc0));
            w.block(2, "ciphers_len", |w| {
                w.u16(0xc02f);
            });
            w.block(1, "comp_len", |w| {
                w.u8(0);
            });
            w.block(2, "ext_len", |w| {
                w.bytes(block);
            });
        }));
    }
    v
}

/// oid_filters extensions with the certificate-extension OIDs RFC 8446 4.2.5 names (Key Usage,
/// Extended Key Usage; DER-wrapped and raw) and DER-shaped values: BIT STRING with every
/// "unused bits" octet, SEQUENCE of OIDs, and malformed variants.
pub fn oid_filter_extensions() -> Vec<W> {
    let oids: [&[u8]; 6] = [
        &[0x06, 0x03, 0x55, 0x1d, 0x0f],
        &[0x06, 0x03, 0x55, 0x1d, 0x25],
        &[0x55, 0x1d, 0x0f],
        &[0x55, 0x1d, 0x25],
        &[0x06, 0x08, 0x2b, 0x06, 0x01, 0x05, 0x05, 0x07, 0x03, 0x01],
        &[0x06, 0x03, 0x55, 0x1d, 0x11],
    ];
    let mut v = Vec::new();
    for oid in oids {
        for unused in 0..=255u8 {
            for val in [vec![0x03, 0x02, unused, 0x80], vec![0x03, 0x03, unused, 0xff, 0xff], vec![0x03, 0x01, unused], vec![0x03, unused], vec![0x30, 0x05, 0x06, 0x03, 0x55, 0x1d, unused]] {
                if unused > 8 && unused < 250 && val.len() != 4 {
                    continue;
                }
                v.push(ext(48, |w| {
                    w.block(2, "filters_len", |w| {
                        w.block(1, "oid_len", |w| {
                            w.bytes(oid);
                        });
                        w.block(2, "oid_val_len", |w| {
                            w.bytes(&val);
                        });
                    });
                }));
            }
        }
    }
    v
}

// ---------------------------------------------------------------- hello grid

/// Cipher ids standing for every kind of suite the crate's table distinguishes (NULL, export, RC4, 3DES,
/// CBC, GCM, CCM, ChaCha, ARIA/Camellia, PSK families, SRP, Kerberos, GOST, SM, the TLS 1.3 suites,
/// signalling values, GREASE and unassigned values).
pub const CIPHER_REPS: &[u16] = &[
    0x0000, 0x0001, 0x0003, 0x0004, 0x0005, 0x000a, 0x0016, 0x001e, 0x002c, 0x002f, 0x0033, 0x0035, 0x003c, 0x0041, 0x0067, 0x0081,
    0x008c, 0x0096, 0x009c, 0x009e, 0x00a8, 0x00c6, 0x00c7, 0x00ff, 0x1300, 0x1301, 0x1302, 0x1303, 0x1304, 0x1305, 0x1306, 0x1307,
    0x1308, 0x5600, 0xc001, 0xc007, 0xc009, 0xc013, 0xc01a, 0xc02b, 0xc02f, 0xc030, 0xc035, 0xc03c, 0xc072, 0xc09c, 0xc0a8, 0xc0b4,
    0xc0b5, 0xc100, 0xc103, 0xc106, 0xcca8, 0xccab, 0xd001, 0xd005, 0x0a0a, 0xfafa, 0xfefe, 0xffff,
];

fn grid_ext(w: &mut W, e: usize) {
    match e {
        0 => {}
        1 => {
            w.block(2, "ext_len", |_| {});
        }
        2 => {
            w.block(2, "ext_len", |w| fill(w, 6, 0xe0));
        }
        3 => {
            // supported_versions (selected version 0x0304) + renegotiation_info
            w.block(2, "ext_len", |w| {
                w.bytes(&[0x00, 0x2b, 0x00, 0x02, 0x03, 0x04, 0xff, 0x01, 0x00, 0x01, 0x00]);
            });
        }
        4 => {
            // supported_versions selecting DTLS 1.3 + key_share
            w.block(2, "ext_len", |w| {
                w.bytes(&[0x00, 0x2b, 0x00, 0x02, 0xfe, 0xfc, 0x00, 0x33, 0x00, 0x02, 0x00, 0x1d]);
            });
        }
        _ => {
            // client form: DTLS 1.3 and 1.2 offered, psk modes
            w.block(2, "ext_len", |w| {
                w.bytes(&[0x00, 0x2b, 0x00, 0x05, 0x04, 0xfe, 0xfc, 0xfe, 0xfd, 0x00, 0x2d, 0x00, 0x02, 0x01, 0x01]);
            });
        }
    }
}

/// The cross product of the hello fields, message `chunk` of `nchunks` (enumeration by index):
/// version x random (magic values included) x session id x cipher id x compression id x extension block.
/// `server`: ServerHello (TLS 1.2 form and draft-18 form), else ClientHello; `dtls`: with the DTLS
/// handshake header (and cookie). `full`: all 256 compression ids instead of 5.
pub fn hello_grid(server: bool, dtls: bool, full: bool, chunk: usize, nchunks: usize) -> Vec<W> {
    let versions: &[u16] = match (server, dtls) {
        (true, false) => &[0x0300, 0x0301, 0x0302, 0x0303, 0x7f12, 0x0304, 0xfefd, 0x0000],
        (false, false) => &[0x0300, 0x0301, 0x0303, 0x0304, 0xfefd, 0x0000, 0xffff, 0x0002],
        (_, true) => &[0xfeff, 0xfefd, 0xfefc, 0x0303, 0x0000],
    };
    let mut randoms = magic_randoms();
    randoms.push([0x20; 32]);
    let comps: Vec<u8> = if full { (0..=255).collect() } else { vec![0, 1, 2, 0x40, 0xff] };
    let mut out = Vec::new();
    let mut idx = 0usize;
    for &version in versions {
        for r in &randoms {
            for sid in [0usize, 32] {
                for &c in CIPHER_REPS {
                    for &comp in &comps {
                        for e in 0..6usize {
                            idx += 1;
                            if idx % nchunks != chunk {
                                continue;
                            }
                            let body = |w: &mut W| {
                                w.u16(version);
                                w.bytes(r);
                                if server {
                                    if version == 0x7f12 {
                                        w.u16(c);
                                    } else {
                                        w.block(1, "sid_len", |w| fill(w, sid, 0x90));
                                        w.u16(c).u8(comp);
                                    }
                                } else {
                                    w.block(1, "sid_len", |w| fill(w, sid, 0x80));
                                    if dtls {
                                        w.block(1, "cookie_len", |w| fill(w, sid / 2, 0xc0));
                                    }
                                    w.block(2, "ciphers_len", |w| {
                                        if c != 0 {
                                            w.u16(0x1301).u16(c).u16(0x00ff);
                                        }
                                    });
                                    w.block(1, "comp_len", |w| {
                                        if comp != 2 {
                                            w.u8(comp).u8(0);
                                        }
                                    });
                                }
                                grid_ext(w, e);
                            };
                            out.push(if dtls { dtls_hs(if server { 2 } else { 1 }, 1, None, 0, body) } else { hs(if server { 2 } else { 1 }, body) });
                        }
                    }
                }
            }
        }
    }
    out
}

// ---------------------------------------------------------------- message streams

/// Long streams (>= 17000 bytes) of record payload per content type: any prefix of a stream is a record
/// payload made of whole messages followed by a cut / undecodable tail. (type, bytes)
pub fn message_streams() -> Vec<(u8, Vec<u8>)> {
    const N: usize = 17000;
    let mut v: Vec<(u8, Vec<u8>)> = Vec::new();
    let pad = |mut s: Vec<u8>, f: &dyn Fn(usize) -> u8| -> Vec<u8> {
        let mut i = 0;
        while s.len() < N {
            s.push(f(i));
            i += 1;
        }
        s
    };
    for k in 0..4usize {
        let hr: Vec<u8> = std::iter::repeat([0u8, 0, 0, 0]).take(k).flatten().collect();
        v.push((0x16, pad(hr.clone(), &|_| 0xff)));
        v.push((0x16, pad(hr.clone(), &|i| (i % 251) as u8 + 1)));
        let mut s = hr.clone();
        s.extend([0x63, 0, 0, 2, 0xaa, 0xbb]);
        v.push((0x16, pad(s, &|_| 0)));
    }
    // ServerHelloDone, then a Certificate announcing 0x5000 bytes
    let mut s = vec![0x0e, 0, 0, 0, 0x0b, 0x00, 0x50, 0x00, 0x00, 0x4f, 0xfd];
    s.extend([0x00, 0x4f, 0xfa]);
    v.push((0x16, pad(s, &|i| (i % 253) as u8)));
    // small valid messages only
    v.push((0x16, pad(Vec::new(), &|i| [0x0e, 0, 0, 0][i % 4])));
    // a realistic server flight, then Finished messages
    let mut s = Vec::new();
    s.extend(hs(2, |w| server_hello_body(w, 0x0303, 32, ExtBlock::Empty)).buf);
    s.extend(hs(11, |w| certificate_body(w, &[100, 100, 100])).buf);
    s.extend(hs(12, |w| {
        fill(w, 40, 3);
    }).buf);
    s.extend(hs(14, |_| {}).buf);
    let fin = hs(20, |w| {
        fill(w, 12, 0x77);
    }).buf;
    while s.len() < N {
        s.extend(&fin);
    }
    v.push((0x16, s));
    // 1000-byte Finished messages
    let fin = hs(20, |w| {
        fill(w, 1000, 0x55);
    }).buf;
    let mut s = Vec::new();
    while s.len() < N {
        s.extend(&fin);
    }
    v.push((0x16, s));
    // a ClientHello, then key exchange
    let mut s = hs(1, |w| client_hello_body(w, 0x0303, 0, 2, 1, ExtBlock::Bytes(9), None)).buf;
    s.extend(hs(16, |w| {
        fill(w, 66, 4);
    }).buf);
    v.push((0x16, pad(s, &|i| [0x14u8, 0, 0, 1, 9][i % 5])));
    // every small message kind the decoder knows, one after the other (forwards and backwards), incl. the TLS 1.3 ones
    {
        let mut kinds: Vec<Vec<u8>> = small_handshake_messages().into_iter().map(|w| w.buf).filter(|b| b.len() <= 120).collect();
        kinds.extend(tls13_messages().into_iter().map(|w| w.buf).filter(|b| b.len() <= 120));
        kinds.extend(handshake_all_types().into_iter().map(|w| w.buf).filter(|b| b.len() <= 60 && matches!(b[0], 0 | 4 | 5 | 14 | 16 | 20 | 24 | 67)));
        for rev in [false, true] {
            let mut order: Vec<&Vec<u8>> = kinds.iter().collect();
            if rev {
                order.reverse();
            }
            let mut s = Vec::new();
            while s.len() < N {
                for k in &order {
                    s.extend_from_slice(k);
                }
            }
            v.push((0x16, s));
        }
    }
    // other content types
    v.push((0x15, pad(Vec::new(), &|i| [1u8, 0][i % 2])));
    v.push((0x15, pad(vec![2, 40], &|i| (i % 7) as u8)));
    v.push((0x14, pad(Vec::new(), &|_| 1)));
    v.push((0x14, pad(vec![1, 1], &|i| (i % 3) as u8)));
    v.push((0x18, pad(vec![1, 0, 3, 9, 9, 9], &|i| (i % 5) as u8)));
    v.push((0x18, pad(vec![2, 0x40, 0x00], &|_| 0x42)));
    v.push((0x17, pad(Vec::new(), &|i| (i % 256) as u8)));
    v
}

/// the payload sizes at which the streams are cut
pub fn stream_cuts(thorough: bool) -> Vec<usize> {
    let mut v: Vec<usize> = (0..=if thorough { 2200 } else { 700 }).collect();
    v.extend(16376..=16392);
    v.extend(16636..=16640);
    v.extend((701..16376).step_by(if thorough { 61 } else { 509 }));
    v.extend([1024, 2048, 4096, 8192, 4095, 4097, 8191, 8193, 16383, 16385]);
    v.sort();
    v.dedup();
    v
}

// ---------------------------------------------------------------- TLS 1.3 message layouts

/// Handshake messages in their RFC 8446 / RFC 9147 layouts (Certificate with a request context and
/// per-entry extensions, CertificateRequest with context and extensions, NewSessionTicket with age_add
/// and nonce, EncryptedExtensions, KeyUpdate, EndOfEarlyData, message_hash, CertificateVerify, Finished),
/// as a TLS 1.2-era decoder meets them on the wire.
pub fn tls13_messages() -> Vec<W> {
    let mut v = Vec::new();
    let ext_blocks: [&[u8]; 3] = [&[], &[0x00, 0x05, 0x00, 0x00], &[0x00, 0x12, 0x00, 0x04, 0x00, 0x02, 0x00, 0x00]];
    for ctx in [0usize, 1, 8, 255] {
        for certs in [vec![], vec![0usize], vec![5], vec![8, 3], vec![300, 1, 70], vec![65000]] {
            for (ei, eb) in ext_blocks.iter().enumerate() {
                if (ctx > 1 || certs.len() > 2) && ei == 2 {
                    continue;
                }
                v.push(hs(11, |w| {
                    w.block(1, "ctx_len", |w| fill(w, ctx, 0xc7));
                    w.block(3, "cert_list_len", |w| {
                        for (i, c) in certs.iter().enumerate() {
                            w.block(3, "cert_len", |w| fill(w, *c, 0x30u8.wrapping_add(i as u8)));
                            w.block(2, "cert_ext_len", |w| {
                                w.bytes(eb);
                            });
                        }
                    });
                }));
            }
        }
    }
    // a TLS 1.3 Certificate whose bytes also make a long TLS 1.2 list (context length byte = high length byte)
    for hi in [1usize, 2] {
        let total = (hi << 16) + 0x0101;
        v.push(hs(11, |w| {
            w.u8(hi as u8).u8(1).u8(1);
            // as TLS 1.2: a list of (hi<<16)+0x0101 bytes follows; as TLS 1.3: context of `hi` bytes, then a list
            let c = total - 3;
            w.block(3, "cert_len", |w| {
                w.u8((((c - 5) >> 16) & 0xff) as u8).u8((((c - 5) >> 8) & 0xff) as u8).u8(((c - 5) & 0xff) as u8);
                fill(w, c - 5, 0x30);
                w.u8(0).u8(0);
            });
        }));
    }
    for ctx in [0usize, 4] {
        for eb in [&[][..], &[0x00, 0x0d, 0x00, 0x04, 0x00, 0x02, 0x04, 0x03], &[0x00, 0x0d, 0x00, 0x04, 0x00, 0x02, 0x08, 0x04, 0x00, 0x2f, 0x00, 0x02, 0x00, 0x00]] {
            v.push(hs(13, |w| {
                w.block(1, "ctx_len", |w| fill(w, ctx, 0xc7));
                w.block(2, "ext_len", |w| {
                    w.bytes(eb);
                });
            }));
        }
    }
    for nonce in [0usize, 1, 8] {
        for ticket in [1usize, 32, 300] {
            for eb in [&[][..], &[0x00, 0x2a, 0x00, 0x04, 0x00, 0x00, 0x40, 0x00]] {
                for life in [0u32, 604800, 604801, 0x7fff_ffff, 0xffff_ffff] {
                    if nonce == 8 && ticket == 32 {
                        v.push(hs(4, |w| {
                            w.u32(life).u32(1);
                            w.block(1, "nonce_len", |w| fill(w, nonce, 1));
                            w.block(2, "ticket_len", |w| fill(w, ticket, 0x70));
                            w.block(2, "ext_len", |w| {
                                w.bytes(eb);
                            });
                        }));
                    }
                }
                v.push(hs(4, |w| {
                    w.u32(7200).u32(0xdead_beef);
                    w.block(1, "nonce_len", |w| fill(w, nonce, 1));
                    w.block(2, "ticket_len", |w| fill(w, ticket, 0x70));
                    w.block(2, "ext_len", |w| {
                        w.bytes(eb);
                    });
                }));
            }
        }
    }
    for eb in [&[][..], &[0x00, 0x10, 0x00, 0x05, 0x00, 0x03, 0x02, b'h', b'2'], &[0x00, 0x00, 0x00, 0x00, 0x00, 0x0a, 0x00, 0x04, 0x00, 0x02, 0x00, 0x1d]] {
        v.push(hs(8, |w| {
            w.block(2, "ext_len", |w| {
                w.bytes(eb);
            });
        }));
    }
    for x in [0u8, 1, 2] {
        v.push(hs(24, |w| {
            w.u8(x);
        }));
    }
    v.push(hs(5, |_| {}));
    v.push(hs(254, |w| fill(w, 32, 0x99)));
    v.push(hs(254, |w| fill(w, 48, 0x99)));
    for (alg, n) in [(0x0804u16, 256usize), (0x0403, 70), (0x0807, 64), (0x0808, 114)] {
        v.push(hs(15, |w| {
            w.u16(alg);
            w.block(2, "sig_len", |w| fill(w, n, 0x30));
        }));
    }
    for n in [32usize, 48] {
        v.push(hs(20, |w| fill(w, n, 0xf1)));
    }
    // the compressed certificate message (RFC 8879) and the DTLS 1.3 ACK content as a handshake body
    v.push(hs(25, |w| {
        w.u16(2);
        w.u8(0).u8(1).u8(0);
        w.block(3, "compressed_len", |w| fill(w, 40, 0x78));
    }));
    v
}

/// SCT entries over the cross product of all their fields: version x timestamp x extensions size x hash x
/// signature algorithm x signature size (registered, unregistered and extreme values of each)
pub fn sct_grid(full: bool) -> Vec<W> {
    let mut v = Vec::new();
    let versions: &[u8] = if full { &[0, 1, 2, 3, 0x7f, 0x80, 0xff] } else { &[0, 1, 2, 0xff] };
    let algs: &[u8] = if full { &[0, 1, 2, 3, 4, 5, 6, 7, 8, 9, 0x40, 0xe0, 0xff] } else { &[0, 1, 3, 4, 7, 8, 9, 0x40, 0xff] };
    for &ver in versions {
        for ts in [0u64, 0x0000_0160_0000_0000, u64::MAX] {
            for e in [0usize, 1, 5, 300] {
                for &h in algs {
                    for &s in algs {
                        for sig in [0usize, 1, 64, 65, 72] {
                            if !full && ts != 0 && (sig == 1 || sig == 65 || e == 5) {
                                continue;
                            }
                            let mut w = W::new();
                            sct_entry(&mut w, ver, ts, e, h, s, sig);
                            v.push(w);
                        }
                    }
                }
            }
        }
    }
    v
}

/// encrypted_server_name (0xffce) over the cross product of its fields: suite x named group x key-share size x
/// record-digest size x encrypted-SNI size
pub fn esni_grid() -> Vec<W> {
    let mut v = Vec::new();
    let groups: Vec<u16> = (0x0017..=0x001e).chain(0x0100..=0x0104).chain([0x0000, 0x0a0a, 0x6399, 0x11ec, 0xffff]).collect();
    for suite in [0x1301u16, 0x1302, 0x1303, 0x0000, 0x0a0a, 0x13f0, 0xffff] {
        for &g in &groups {
            for ks in [0usize, 1, 32, 33, 56, 65, 97, 133, 255, 256, 257, 348, 349, 384, 385, 512, 768, 1024] {
                for (rd, es) in [(0usize, 0usize), (32, 0), (32, 300), (0, 1)] {
                    v.push(ext(0xffce, |w| {
                        w.u16(suite).u16(g);
                        w.block(2, "esni_ks_len", |w| fill(w, ks, 1));
                        w.block(2, "esni_rd_len", |w| fill(w, rd, 2));
                        w.block(2, "esni_sni_len", |w| fill(w, es, 3));
                    }));
                }
            }
        }
    }
    v
}

/// key_share / pre_shared_key / cookie style extensions over group x size grids (opaque to the crate today, a
/// decoder that starts validating them shows here): (type, content)
pub fn group_size_extensions() -> Vec<W> {
    let mut v = Vec::new();
    let groups: Vec<u16> = (0x0017..=0x001e).chain(0x0100..=0x0104).chain([0x0000, 0x0a0a, 0x6399, 0x11ec, 0xffff]).collect();
    for &g in &groups {
        for ks in [0usize, 1, 32, 33, 56, 65, 97, 133, 256, 384, 1184, 1216] {
            // server form, client form (list of one / two), HelloRetryRequest form
            v.push(ext(51, |w| {
                w.u16(g);
                w.block(2, "ks_len", |w| fill(w, ks, 1));
            }));
            v.push(ext(51, |w| {
                w.block(2, "ks_list", |w| {
                    w.u16(g);
                    w.block(2, "ks_len", |w| fill(w, ks, 1));
                    w.u16(0x001d);
                    w.block(2, "ks_len", |w| fill(w, 32, 2));
                });
            }));
        }
        v.push(ext(51, |w| {
            w.u16(g);
        }));
    }
    v
}

/// ServerDHParams whose three integers stand in the relations a "sanity check" would look for: Ys in
/// {0, 1, 2, g, p-2, p-1, p, p+1, p/2}, g in {0, 1, 2, 5, p-1, p}, p odd / even, all-ff, with and without
/// leading zero octets on each field, field sizes 1..257.
pub fn dh_relations() -> Vec<W> {
    fn be(mut x: Vec<u8>, pad: usize) -> Vec<u8> {
        let mut v = vec![0u8; pad];
        v.append(&mut x);
        v
    }
    fn add(p: &[u8], d: i32) -> Vec<u8> {
        let mut v = p.to_vec();
        let mut carry = d;
        for b in v.iter_mut().rev() {
            let t = *b as i32 + carry;
            *b = t.rem_euclid(256) as u8;
            carry = t.div_euclid(256);
            if carry == 0 {
                break;
            }
        }
        v
    }
    fn half(p: &[u8]) -> Vec<u8> {
        let mut v = Vec::with_capacity(p.len());
        let mut c = 0u16;
        for &b in p {
            let t = (c << 8) | b as u16;
            v.push((t >> 1) as u8);
            c = t & 1;
        }
        v
    }
    let mut out = Vec::new();
    let primes: Vec<Vec<u8>> = vec![
        vec![0x17],
        vec![0x00, 0x17],
        vec![0xff, 0xfb],
        vec![0x01, 0x00, 0x01],
        (0..32u32).map(|i| if i == 31 { 0xe3 } else { 0xff - i as u8 }).collect(),
        vec![0xff; 256],
        (0..257u32).map(|i| if i == 0 { 0 } else if i == 256 { 0x6b } else { (i * 7 % 256) as u8 | 0x80 }).collect(),
        vec![0x00, 0x00, 0x10],
    ];
    for p in &primes {
        let gs: Vec<Vec<u8>> = vec![vec![2], vec![5], vec![0], vec![1], add(p, -1), p.clone(), vec![0, 2]];
        let ys: Vec<Vec<u8>> = vec![vec![0], vec![1], vec![2], add(p, -2), add(p, -1), p.clone(), add(p, 1), half(p), be(add(p, -1), 1), be(vec![1], p.len().saturating_sub(1)), add(p, -1)[p.iter().take_while(|b| **b == 0).count().min(p.len() - 1)..].to_vec()];
        for (gi, g) in gs.iter().enumerate() {
            for (yi, y) in ys.iter().enumerate() {
                if gi > 1 && yi > 5 && p.len() > 3 {
                    continue;
                }
                let mut w = W::new();
                for f in [p, g, y] {
                    w.block(2, "dh_len", |w| {
                        w.bytes(f);
                    });
                }
                out.push(w);
            }
        }
    }
    out
}

/// RFC 6962 (v1) SCT entries whose bytes also read as an RFC 9162 (CT v2) TransItem filling the entry exactly:
/// `type(2)=3|4, log id<1>, timestamp(8), extensions<2>, signature<2>`. Found by solving the two layouts against
/// each other: the v2 length fields are written into bytes that are opaque for v1 (log id, timestamp, extension
/// and signature contents) or coincide with v1 fields of the same value. A decoder that tries the successor
/// layout first changes its answer for exactly these.
pub fn sct_v2_polyglots() -> Vec<W> {
    let mut out = Vec::new();
    for ty in [3u8, 4] {
        for e1 in [0usize, 4, 40] {
            for n in [0usize, 8, 71, 300, 1025] {
                let len = 47 + e1 + n;
                let opaque = |p: usize| (1..41).contains(&p) || (43..43 + e1).contains(&p) || (43 + e1..45 + e1).contains(&p) || p >= 47 + e1;
                // v1 entry content
                let mut base: Vec<u8> = Vec::with_capacity(len);
                base.push(0);
                base.extend((0..32u8).map(|i| 0x1d + i));
                base.extend([0, 0, 1, 0x60, 0x11, 0x22, 0x33, 0x44]);
                base.extend([(e1 >> 8) as u8, e1 as u8]);
                base.extend((0..e1).map(|i| 0xe7u8.wrapping_add(i as u8)));
                base.extend([4, 3]);
                base.extend([(n >> 8) as u8, n as u8]);
                base.extend((0..n).map(|i| 0x30u8.wrapping_add((i % 200) as u8)));
                debug_assert_eq!(base.len(), len);
                for d in 0..=60usize {
                    let p = 11 + d;
                    if p + 2 > len || 3 + d > len {
                        continue;
                    }
                    for e2 in 0..=(len - p - 2) {
                        let q = p + 2 + e2;
                        if q + 2 > len {
                            continue;
                        }
                        let s2 = len - q - 2;
                        // keep a spread of solutions per (e1, n, d)
                        if e2 > 4 && s2 > 4 && !(e2 % 97 == 5 && d % 4 == 0) {
                            continue;
                        }
                        let writes = [(1usize, ty), (2, d as u8), (p, (e2 >> 8) as u8), (p + 1, e2 as u8), (q, (s2 >> 8) as u8), (q + 1, s2 as u8)];
                        if !writes.iter().all(|&(pos, val)| opaque(pos) || base[pos] == val) {
                            continue;
                        }
                        let mut b = base.clone();
                        for &(pos, val) in &writes {
                            if opaque(pos) {
                                b[pos] = val;
                            }
                        }
                        // later writes must not undo earlier ones
                        if !writes.iter().all(|&(pos, val)| b[pos] == val) {
                            continue;
                        }
                        let mut w = W::new();
                        w.block(2, "sct_len", |w| {
                            w.bytes(&b);
                        });
                        out.push(w);
                    }
                }
            }
        }
    }
    out
}

fn hexb(s: &str) -> Vec<u8> {
    let s: String = s.chars().filter(|c| c.is_ascii_hexdigit()).collect();
    (0..s.len() / 2).map(|i| u8::from_str_radix(&s[2 * i..2 * i + 2], 16).unwrap()).collect()
}

/// Field primes of curves and groups everybody knows (NIST P-256 / P-384 / P-521, secp256k1, brainpoolP256r1,
/// Curve25519, ffdhe2048): "magic values" for prime fields, like the HelloRetryRequest random for hellos.
pub fn well_known_primes() -> Vec<(&'static str, Vec<u8>)> {
    vec![
        ("P-256", hexb("FFFFFFFF00000001000000000000000000000000FFFFFFFFFFFFFFFFFFFFFFFF")),
        ("P-384", hexb("FFFFFFFFFFFFFFFFFFFFFFFFFFFFFFFFFFFFFFFFFFFFFFFFFFFFFFFFFFFFFFFEFFFFFFFF0000000000000000FFFFFFFF")),
        ("P-521", {
            let mut v = vec![0x01];
            v.extend(std::iter::repeat(0xff).take(65));
            v
        }),
        ("secp256k1", hexb("FFFFFFFFFFFFFFFFFFFFFFFFFFFFFFFFFFFFFFFFFFFFFFFFFFFFFFFEFFFFFC2F")),
        ("brainpoolP256r1", hexb("A9FB57DBA1EEA9BC3E660A909D838D726E3BF623D52620282013481D1F6E5377")),
        ("curve25519", hexb("7FFFFFFFFFFFFFFFFFFFFFFFFFFFFFFFFFFFFFFFFFFFFFFFFFFFFFFFFFFFFFFFED")),
        ("P-224", hexb("FFFFFFFFFFFFFFFFFFFFFFFFFFFFFFFF000000000000000000000001")),
        ("ffdhe2048", hexb("FFFFFFFFFFFFFFFFADF85458A2BB4A9AAFDC5620273D3CF1D8B9C583CE2D3695A9E13641146433FBCC939DCE249B3EF97D2FE363630C75D8F681B202AEC4617AD3DF1ED5D5FD65612433F51F5F066ED0856365553DED1AF3B557135E7F57C935984F0C70E0E68B77E2A689DAF3EFE8721DF158A136ADE73530ACCA4F483A797ABC0AB182B324FB61D108A94BB2C8E3FBB96ADAB760D7F4681D4F42A3DE394DF4AE56EDE76372BB190B07A7C8EE0A6D709E02FCE1CDF7E2ECC03404CD28342F619172FE9CE98583FF8E4F1232EEF28183C3FE3B1B4C6FAD733BB5FCBC2EC22005C58EF1837D1683B2C6F34A26C1B2EFFA886B423861285C97FFFFFFFFFFFFFFFF")),
    ]
}

/// explicit-prime ECParameters / ServerECDHParams built on the well-known primes (real a, b, base point, order
/// for P-256 and P-384; p - 3 / counting values for the others), and ServerDHParams on the same moduli
pub fn ec_explicit_real() -> Vec<W> {
    let mut v = Vec::new();
    let p256 = (
        hexb("5AC635D8AA3A93E7B3EBBD55769886BC651D06B0CC53B0F63BCE3C3E27D2604B"),
        hexb("046B17D1F2E12C4247F8BCE6E563A440F277037D812DEB33A0F4A13945D898C2964FE342E2FE1A7F9B8EE7EB4A7C0F9E162BCE33576B315ECECBB6406837BF51F5"),
        hexb("FFFFFFFF00000000FFFFFFFFFFFFFFFFBCE6FAADA7179E84F3B9CAC2FC632551"),
    );
    let p384 = (
        hexb("B3312FA7E23EE7E4988E056BE3F82D19181D9C6EFE8141120314088F5013875AC656398D8A2ED19D2A85C8EDD3EC2AEF"),
        hexb("04AA87CA22BE8B05378EB1C71EF320AD746E1D3B628BA79B9859F741E082542A385502F25DBF55296C3A545E3872760AB73617DE4A96262C6F5D9E98BF9292DC29F8F41DBD289A147CE9DA3113B5F0B8C00A60B1CE1D7E819D7A431D7C90EA0E5F"),
        hexb("FFFFFFFFFFFFFFFFFFFFFFFFFFFFFFFFFFFFFFFFFFFFFFFFC7634D81F4372DDF581A0DB248B0A77AECEC196ACCC52973"),
    );
    for (name, p) in well_known_primes() {
        if p.len() > 255 {
            continue;
        }
        let mut a = p.clone();
        let l = a.len();
        a[l - 1] = a[l - 1].wrapping_sub(3);
        let (b, g, n) = match name {
            "P-256" => p256.clone(),
            "P-384" => p384.clone(),
            _ => {
                let b: Vec<u8> = (0..p.len()).map(|i| (i * 7 + 1) as u8).collect();
                let mut g = vec![4u8];
                g.extend((0..2 * p.len()).map(|i| (i * 3 + 5) as u8));
                let mut n = p.clone();
                n[l - 1] ^= 0x54;
                (b, g, n)
            }
        };
        for padded in [false, true] {
            for with_point in [false, true] {
                let mut w = W::new();
                w.u8(1);
                let pp = if padded { [&[0u8][..], &p[..]].concat() } else { p.clone() };
                for f in [&pp, &a, &b, &g, &n, &vec![1u8]] {
                    w.block(1, "ec_field_len", |w| {
                        w.bytes(f);
                    });
                }
                if with_point {
                    w.block(1, "ec_point_len", |w| {
                        w.bytes(&g);
                    });
                }
                v.push(w);
            }
        }
    }
    v
}

/// ServerDHParams on the well-known moduli with generator 2 and a plausible public value
pub fn dh_well_known() -> Vec<W> {
    let mut v = Vec::new();
    for (_, p) in well_known_primes() {
        for g in [vec![2u8], vec![0, 2], vec![5]] {
            let ys: Vec<u8> = p.iter().enumerate().map(|(i, b)| if i == 0 { b >> 1 } else { b ^ 0x5a }).collect();
            let mut w = W::new();
            for f in [&p, &g, &ys] {
                w.block(2, "dh_len", |w| {
                    w.bytes(f);
                });
            }
            v.push(w);
        }
    }
    v
}

/// Byte strings that are well-formed instances of *other* structures (DER names, lists of names, extension lists,
/// records, messages, protocol text): used as the content of lists of enumerated values, whose decoders have no
/// business recognising them.
pub fn foreign_blobs() -> Vec<Vec<u8>> {
    let dn: Vec<u8> = vec![0x30, 0x0c, 0x31, 0x0a, 0x30, 0x08, 0x06, 0x03, 0x55, 0x04, 0x03, 0x0c, 0x01, 0x61];
    let mut v: Vec<Vec<u8>> = vec![
        vec![0x00, 0x04, 0x30, 0x02, 0x31, 0x00],
        [&[0x00, 0x0e][..], &dn[..]].concat(),
        [&[0x00, 0x0e][..], &dn[..], &[0x00, 0x04, 0x30, 0x02, 0x31, 0x00][..]].concat(),
        dn.clone(),
        vec![0x30, 0x02, 0x31, 0x00],
        vec![0x16, 0x03, 0x03, 0x00, 0x04, 0x0e, 0x00, 0x00, 0x00],
        vec![0x0e, 0x00, 0x00, 0x00],
        vec![0x00, 0x0c, 0x02, b'h', b'2', 0x08, b'h', b't', b't', b'p', b'/', b'1', b'.', b'1'],
        b"HTTP/1.1 200 OK\r\n\r\n".to_vec(),
        b"GET / HTTP/1.1\r\n".to_vec(),
        vec![0x06, 0x03, 0x55, 0x1d, 0x0f, 0x00],
        vec![0x04, 0x02, 0x00, 0x00],
        vec![0x00, 0x02, 0x00, 0x00],
        vec![0x00, 0x00, 0x00, 0x02, 0x00, 0x00],
    ];
    let p = hello_profiles();
    v.push(p[5].clone());
    v.push(p[9].clone());
    v.push([&[0u8, p[5].len() as u8][..], &p[5][..]].concat());
    v
}

/// CertificateRequest / ClientHello messages and extensions whose lists of enumerated values (signature algorithms,
/// certificate types, cipher suites, compression methods, groups, versions, modes, point formats) carry the
/// `foreign_blobs` (as they are, and padded to an even length for 16-bit lists)
pub fn enum_lists_with_foreign_content() -> (Vec<W>, Vec<W>) {
    let mut msgs = Vec::new();
    let mut exts = Vec::new();
    for blob in foreign_blobs() {
        let mut even = blob.clone();
        if even.len() % 2 == 1 {
            even.push(0);
        }
        for b in [&blob, &even] {
            if b.len() > 255 {
                continue;
            }
            for dns in [0usize, 1] {
                // signature algorithms / certificate types of a CertificateRequest
                msgs.push(hs(13, |w| {
                    w.block(1, "types", |w| {
                        w.u8(1).u8(64);
                    });
                    w.block(2, "algs", |w| {
                        w.bytes(b);
                    });
                    w.block(2, "dns", |w| {
                        for _ in 0..dns {
                            w.block(2, "dn", |w| {
                                w.bytes(&[0x30, 0x02, 0x31, 0x00]);
                            });
                        }
                    });
                }));
                msgs.push(hs(13, |w| {
                    w.block(1, "types", |w| {
                        w.bytes(b);
                    });
                    w.block(2, "algs", |w| {
                        w.u16(0x0403).u16(0x0804);
                    });
                    w.block(2, "dns", |w| {
                        for _ in 0..dns {
                            w.block(2, "dn", |w| {
                                w.bytes(&[0x30, 0x02, 0x31, 0x00]);
                            });
                        }
                    });
                }));
            }
            // cipher suites / compression methods of a ClientHello
            msgs.push(hs(1, |w| {
                w.u16(0x0303);
                fill(w, 32, 0x40);
                w.u8(0);
                w.block(2, "ciphers_len", |w| {
                    w.bytes(b);
                });
                w.block(1, "comp_len", |w| {
                    w.u8(0);
                });
            }));
            msgs.push(hs(1, |w| {
                w.u16(0x0303);
                fill(w, 32, 0x40);
                w.u8(0);
                w.block(2, "ciphers_len", |w| {
                    w.u16(0x1301);
                });
                w.block(1, "comp_len", |w| {
                    w.bytes(b);
                });
                w.block(2, "ext_len", |_| {});
            }));
            for t in [10u16, 13, 50] {
                exts.push(ext(t, |w| {
                    w.block(2, "list_len", |w| {
                        w.bytes(b);
                    });
                }));
            }
            for t in [43u16, 45, 11] {
                exts.push(ext(t, |w| {
                    w.block(1, "list_len", |w| {
                        w.bytes(b);
                    });
                }));
            }
        }
    }
    (msgs, exts)
}

/// Shapes an opaque blob can have that tempt a decoder to look inside: data behind an 8 / 16 / 24-bit length of its
/// own (exactly filling the blob, with bytes after it, nested twice), the foreign structures, DER of several tags.
pub fn content_shapes() -> Vec<Vec<u8>> {
    let mut v: Vec<Vec<u8>> = vec![vec![], vec![0], vec![1], vec![0xff]];
    for width in 1..=3usize {
        for inner in [0usize, 1, 5, 40, 128, 256] {
            for trailing in [0usize, 1, 2] {
                if inner >= 128 && (width == 1 && inner > 255 || trailing == 1) {
                    continue;
                }
                let mut b: Vec<u8> = Vec::new();
                for k in (0..width).rev() {
                    b.push((inner >> (8 * k)) as u8);
                }
                b.extend((0..inner).map(|i| 0x61 + (i % 20) as u8));
                b.extend((0..trailing).map(|i| 0xe0 + i as u8));
                v.push(b.clone());
                if inner == 5 && trailing == 0 {
                    // the same once more inside a 24-bit length (a list of one entry)
                    let mut l = vec![0, 0, b.len() as u8];
                    l.extend_from_slice(&b);
                    v.push(l);
                }
            }
        }
    }
    v.extend(foreign_blobs());
    // structured data behind a length of its own: a DER object / a name list / an extension list as the only entry of a list
    for inner in [vec![0x30u8, 0x03, 0x0a, 0x01, 0x03], vec![0x30, 0x82, 0x00, 0x03, 0x0a, 0x01, 0x00], vec![0x30, 0x00], vec![0x04, 0x02, 0x00, 0x00], vec![0x00, 0x04, 0x30, 0x02, 0x31, 0x00], vec![0x00, 0x17, 0x00, 0x00]] {
        let n = inner.len();
        v.push([&[n as u8][..], &inner[..]].concat());
        v.push([&[0, n as u8][..], &inner[..]].concat());
        v.push([&[0, 0, n as u8][..], &inner[..]].concat());
        v.push([&[0, 0, n as u8][..], &inner[..], &[0, 0][..]].concat());
    }
    // DER objects: every universal tag with a one-byte value in and out of small enumerations
    for tag in [0x01u8, 0x02, 0x03, 0x04, 0x05, 0x06, 0x0a, 0x0c, 0x13, 0x17, 0x18, 0x30, 0x31, 0x80, 0xa0, 0xa3] {
        for val in [0u8, 1, 6, 7, 8, 0x7f, 0x80, 0xff] {
            v.push(vec![0x30, 0x03, tag, 0x01, val]);
            v.push(vec![0x30, 0x82, 0x00, 0x03, tag, 0x01, val]);
        }
    }
    v
}

/// every message / extension that carries one opaque blob, with `blob` in that place: (kind, encoding)
pub fn opaque_carriers(blob: &[u8]) -> Vec<W> {
    let mut v = Vec::new();
    for st in [1u8, 2, 0, 3, 0xff] {
        v.push(hs(22, |w| {
            w.u8(st);
            w.block(3, "blob", |w| {
                w.bytes(blob);
            });
        }));
    }
    v.push(hs(11, |w| {
        w.block(3, "cert_list_len", |w| {
            w.block(3, "cert_len", |w| {
                w.bytes(blob);
            });
        });
    }));
    v.push(hs(4, |w| {
        w.u32(7200);
        w.block(2, "ticket_len", |w| {
            w.bytes(blob);
        });
    }));
    for ty in [12u8, 16, 20, 15] {
        v.push(hs(ty, |w| {
            w.bytes(blob);
        }));
    }
    v.push(hs(13, |w| {
        w.block(1, "types", |w| {
            w.u8(1);
        });
        w.block(2, "algs", |w| {
            w.u16(0x0403);
        });
        w.block(2, "dns", |w| {
            w.block(2, "dn", |w| {
                w.bytes(blob);
            });
        });
    }));
    v
}


/// ServerECDHParams over named group x point size (0..=70, 97, 133, 255) - the sizes the fixed-length curves imply
/// (32, 56, 65, 97, 133) and everything around them; contents follow the fill style
pub fn ecdh_grid() -> Vec<W> {
    let mut v = Vec::new();
    let groups: Vec<u16> = (0x0017..=0x001e).chain(0x0100..=0x0104).chain([0x0000, 0x0a0a, 0x11ec, 0xffff]).collect();
    for &g in &groups {
        for n in (0..=70usize).chain([97, 133, 255]) {
            let mut w = W::new();
            w.u8(3).u16(g);
            w.block(1, "ec_point_len", |w| fill(w, n, 4));
            v.push(w);
        }
    }
    v
}
