//! Generic owned mirror value: what a parser returned (built by field access in the adapter) and
//! what a reference walker says it should have returned, in one comparable shape.
//!
//! Byte slices are represented by their *position* in the input (`S(off,len)`), so one equality
//! test checks content and zero-copy provenance at once.

use std::fmt;

/// Offset used for a non-empty slice that does not lie inside the input buffer.
pub const OUTSIDE: usize = usize::MAX;

#[derive(Clone, PartialEq, Eq, Hash)]
pub enum V {
    /// integer field
    U(u64),
    /// borrowed slice: offset relative to the input start, length. Empty slices are S(0,0).
    S(usize, usize),
    /// bytes that are legitimately a copy (e.g. PskExchangeModes)
    B(Vec<u8>),
    /// list
    L(Vec<V>),
    /// named struct / enum variant with ordered fields
    N(&'static str, Vec<V>),
    None,
    Some(Box<V>),
}

impl V {
    pub fn some(v: V) -> V {
        V::Some(Box::new(v))
    }
    pub fn opt(v: Option<V>) -> V {
        match v {
            Some(v) => V::some(v),
            None => V::None,
        }
    }
    pub fn s(off: usize, len: usize) -> V {
        if len == 0 {
            V::S(0, 0)
        } else {
            V::S(off, len)
        }
    }
    /// visit every slice node
    pub fn slices(&self, f: &mut impl FnMut(usize, usize)) {
        match self {
            V::S(o, l) => f(*o, *l),
            V::L(v) | V::N(_, v) => v.iter().for_each(|x| x.slices(f)),
            V::Some(b) => b.slices(f),
            _ => {}
        }
    }
    /// true if every non-empty slice lies inside [0, limit)
    pub fn slices_within(&self, limit: usize) -> bool {
        let mut ok = true;
        self.slices(&mut |o, l| {
            if l > 0 && (o == OUTSIDE || o.checked_add(l).map_or(true, |e| e > limit)) {
                ok = false;
            }
        });
        ok
    }
    pub fn name(&self) -> &'static str {
        match self {
            V::N(n, _) => n,
            V::U(_) => "int",
            V::S(..) => "slice",
            V::B(_) => "bytes",
            V::L(_) => "list",
            V::None => "None",
            V::Some(_) => "Some",
        }
    }
}

impl fmt::Debug for V {
    fn fmt(&self, f: &mut fmt::Formatter) -> fmt::Result {
        match self {
            V::U(x) => write!(f, "{}", x),
            V::S(o, l) => {
                if *o == OUTSIDE {
                    write!(f, "[OUTSIDE;{}]", l)
                } else {
                    write!(f, "[{}..+{}]", o, l)
                }
            }
            V::B(b) => write!(f, "copy:{}", crate::report::hexshort(b)),
            V::L(v) => {
                if v.len() > 12 {
                    write!(f, "[{:?}, {:?}, .. {} items .., {:?}]", v[0], v[1], v.len(), v[v.len() - 1])
                } else {
                    f.debug_list().entries(v.iter()).finish()
                }
            }
            V::N(n, v) => {
                write!(f, "{}", n)?;
                if !v.is_empty() {
                    let mut t = f.debug_tuple("");
                    for x in v {
                        t.field(x);
                    }
                    t.finish()?;
                }
                Ok(())
            }
            V::None => write!(f, "None"),
            V::Some(b) => write!(f, "Some({:?})", b),
        }
    }
}

/// What the reference says about one input.
#[derive(Clone, PartialEq, Eq, Debug)]
pub enum Ref {
    /// well-formed: exactly this value, exactly `consumed` bytes
    Must(V, usize),
    /// one of the rejection rules named in the property statement fires: no value may come out
    Reject(&'static str),
    /// the statement does not say (invariants still apply)
    Unspec(&'static str),
}

/// What the implementation did on one input.
#[derive(Clone, PartialEq, Eq, Debug)]
pub enum Got {
    Ok(V, usize),
    /// Incomplete with the Needed size if given
    Incomplete(Option<usize>),
    /// Error / Failure with the ErrorKind name
    Error(&'static str),
    Failure(&'static str),
    /// Ok, but the remainder was not a suffix of the input
    BadRemainder(String),
    Panic(String),
}

impl Got {
    pub fn class(&self) -> &'static str {
        match self {
            Got::Ok(..) => "Ok",
            Got::Incomplete(_) => "Incomplete",
            Got::Error(k) => k,
            Got::Failure(_) => "Failure",
            Got::BadRemainder(_) => "BadRemainder",
            Got::Panic(_) => "Panic",
        }
    }
    pub fn is_ok(&self) -> bool {
        matches!(self, Got::Ok(..))
    }
    /// Ok / error class used by locality checks (Incomplete counts as an error class of its own)
    pub fn coarse(&self) -> &'static str {
        match self {
            Got::Ok(..) => "Ok",
            Got::Incomplete(_) => "Incomplete",
            Got::Error(_) | Got::Failure(_) => "Err",
            Got::BadRemainder(_) => "BadRemainder",
            Got::Panic(_) => "Panic",
        }
    }
}

/// Compare an implementation result with the reference verdict; `None` = agreement.
pub fn disagree(r: &Ref, g: &Got) -> Option<String> {
    match (r, g) {
        (_, Got::Panic(m)) => Some(format!("panic: {}", m)),
        (_, Got::BadRemainder(m)) => Some(format!("remainder is not a suffix of the input: {}", m)),
        (Ref::Must(v, c), Got::Ok(w, d)) => {
            if v != w {
                Some(format!("wrong value: expected {:?}, got {:?}", v, w))
            } else if c != d {
                Some(format!("wrong consumption: expected {} bytes, consumed {}", c, d))
            } else {
                None
            }
        }
        (Ref::Must(v, _), other) => Some(format!(
            "well-formed input rejected: expected {:?}, got {}",
            v,
            other.class()
        )),
        (Ref::Reject(rule), Got::Ok(w, _)) => Some(format!(
            "malformed input accepted (rule: {}): got {:?}",
            rule, w
        )),
        (Ref::Reject(_), _) => None,
        (Ref::Unspec(_), _) => None,
    }
}
