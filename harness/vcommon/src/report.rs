//! Verdicts, evidence files, replay files, known findings.

use serde_json::{json, Map, Value};
use std::collections::{BTreeMap, HashMap, HashSet};
use std::time::Instant;

pub const VERIF_DIR: &str = "/verif";

#[derive(Clone, Copy, PartialEq, Eq, Debug)]
pub enum Tier {
    Quick,
    Thorough,
}

impl Tier {
    pub fn name(self) -> &'static str {
        match self {
            Tier::Quick => "quick",
            Tier::Thorough => "thorough",
        }
    }
    pub fn pick<T>(self, q: T, t: T) -> T {
        match self {
            Tier::Quick => q,
            Tier::Thorough => t,
        }
    }
}

#[derive(Clone, Debug)]
pub struct Violation {
    /// identifies the witness exactly (function + input, operation list, cell): known findings match on it
    pub key: String,
    pub what: String,
    /// everything needed to re-run the case without the enumerator
    pub replay: Value,
}

pub fn fnv(init: u64, data: &[u8]) -> u64 {
    let mut h = init ^ 0xcbf29ce484222325;
    for &b in data {
        h ^= b as u64;
        h = h.wrapping_mul(0x100000001b3);
    }
    h
}

pub fn hexs(b: &[u8]) -> String {
    let mut s = String::with_capacity(b.len() * 2);
    for x in b {
        s.push_str(&format!("{:02x}", x));
    }
    s
}

/// An input inside a replay file: hex, or for long inputs made of long runs a run-length list
/// `{"rle": [[byte, count], ..]}` (a 16 MiB buffer of uniform records stays a few hundred KiB).
pub fn enc_input(b: &[u8]) -> serde_json::Value {
    if b.len() <= 200_000 {
        return serde_json::Value::String(hexs(b));
    }
    let mut runs: Vec<(u8, u64)> = Vec::new();
    for &x in b {
        match runs.last_mut() {
            Some((y, n)) if *y == x => *n += 1,
            _ => runs.push((x, 1)),
        }
        if runs.len() > 400_000 {
            return serde_json::Value::String(hexs(b));
        }
    }
    serde_json::json!({"rle": runs.iter().map(|(x, n)| serde_json::json!([x, n])).collect::<Vec<_>>()})
}

pub fn dec_input(v: &serde_json::Value) -> Vec<u8> {
    if let Some(s) = v.as_str() {
        return unhex(s);
    }
    let mut b = Vec::new();
    if let Some(runs) = v["rle"].as_array() {
        for r in runs {
            let (x, n) = (r[0].as_u64().unwrap_or(0) as u8, r[1].as_u64().unwrap_or(0) as usize);
            b.resize(b.len() + n, x);
        }
    }
    b
}

/// a violation key for an input: the bytes for short inputs, abbreviation + hash for long ones
pub fn key_of(b: &[u8]) -> String {
    if b.len() <= 256 {
        hexs(b)
    } else {
        format!("{}#{:016x}", hexshort(b), fnv(0, b))
    }
}

pub fn unhex(s: &str) -> Vec<u8> {
    let s: Vec<u8> = s.bytes().filter(|c| c.is_ascii_hexdigit()).collect();
    s.chunks(2)
        .map(|c| u8::from_str_radix(std::str::from_utf8(c).unwrap(), 16).unwrap())
        .collect()
}

/// Short hex for samples / messages: whole string up to 64 bytes, else head..tail with length.
pub fn hexshort(b: &[u8]) -> String {
    if b.len() <= 64 {
        hexs(b)
    } else {
        format!(
            "{}..{}(len={})",
            hexs(&b[..24]),
            hexs(&b[b.len() - 8..]),
            b.len()
        )
    }
}

const DISTINCT_CAP_LOCAL: usize = 400_000;
const DISTINCT_CAP_GLOBAL: usize = 6_000_000;
const VIOL_CAP_LOCAL: usize = 200;

/// Per-worker accumulator; merged into one at the end of a run.
#[derive(Default)]
pub struct Sink {
    pub evals: u64,
    pub nontrivial: u64,
    pub hist: HashMap<(&'static str, &'static str), u64>,
    pub distinct: HashSet<u64>,
    pub distinct_overflow: u64,
    pub samples: Vec<Value>,
    pub viol: Vec<Violation>,
    pub viol_total: u64,
    pub counters: BTreeMap<&'static str, u64>,
}

impl Sink {
    pub fn new() -> Sink {
        Sink::default()
    }
    #[inline]
    pub fn case(&mut self, hash: u64, nontrivial: bool) {
        self.evals += 1;
        if nontrivial {
            self.nontrivial += 1;
            if self.distinct.len() < DISTINCT_CAP_LOCAL {
                self.distinct.insert(hash);
            } else {
                self.distinct_overflow += 1;
            }
        }
    }
    #[inline]
    pub fn count(&mut self, group: &'static str, class: &'static str) {
        *self.hist.entry((group, class)).or_insert(0) += 1;
    }
    #[inline]
    pub fn bump(&mut self, name: &'static str, n: u64) {
        *self.counters.entry(name).or_insert(0) += n;
    }
    pub fn sample(&mut self, max: usize, f: impl FnOnce() -> Value) {
        if self.samples.len() < max {
            self.samples.push(f());
        }
    }
    pub fn violation(&mut self, key: String, what: String, replay: Value) {
        self.viol_total += 1;
        if self.viol.len() < VIOL_CAP_LOCAL && !self.viol.iter().any(|v| v.key == key) {
            self.viol.push(Violation { key, what, replay });
        }
    }
    pub fn merge(&mut self, o: Sink) {
        self.evals += o.evals;
        self.nontrivial += o.nontrivial;
        for (k, v) in o.hist {
            *self.hist.entry(k).or_insert(0) += v;
        }
        for h in o.distinct {
            if self.distinct.len() < DISTINCT_CAP_GLOBAL {
                self.distinct.insert(h);
            } else {
                self.distinct_overflow += 1;
            }
        }
        self.distinct_overflow += o.distinct_overflow;
        for s in o.samples {
            if self.samples.len() < 24 {
                self.samples.push(s);
            }
        }
        for v in o.viol {
            if !self.viol.iter().any(|x| x.key == v.key) {
                self.viol.push(v);
            }
        }
        self.viol_total += o.viol_total;
        for (k, v) in o.counters {
            *self.counters.entry(k).or_insert(0) += v;
        }
    }
    /// histogram as JSON: {group: {class: n}}
    pub fn hist_json(&self) -> Value {
        let mut m: BTreeMap<&str, BTreeMap<&str, u64>> = BTreeMap::new();
        for ((g, c), n) in &self.hist {
            *m.entry(g).or_default().entry(c).or_insert(0) += n;
        }
        json!(m)
    }
    pub fn groups(&self) -> BTreeMap<&'static str, BTreeMap<&'static str, u64>> {
        let mut m: BTreeMap<&'static str, BTreeMap<&'static str, u64>> = BTreeMap::new();
        for ((g, c), n) in &self.hist {
            *m.entry(*g).or_default().entry(*c).or_insert(0) += n;
        }
        m
    }
}

// ---------------------------------------------------------------- known findings

#[derive(Debug, Clone)]
pub struct Known {
    pub property: String,
    pub key: String,
    pub what: String,
}

/// `/verif/known_findings.txt`, one entry per line:
///   `known: property=<id> key=<exact witness key> :: <what fails>`   (suppresses exactly that witness)
///   `fixed: property=<id> <commit> <what failed>`                     (suppresses nothing)
pub fn load_known() -> Vec<Known> {
    let p = format!("{}/known_findings.txt", VERIF_DIR);
    let mut v = Vec::new();
    if let Ok(s) = std::fs::read_to_string(p) {
        for line in s.lines() {
            let line = line.trim();
            if let Some(rest) = line.strip_prefix("known:") {
                let rest = rest.trim();
                let (head, what) = match rest.split_once(" :: ") {
                    Some((h, w)) => (h, w),
                    None => (rest, ""),
                };
                let mut prop = String::new();
                let mut key = String::new();
                if let Some(i) = head.find("key=") {
                    key = head[i + 4..].trim().to_string();
                    for tok in head[..i].split_whitespace() {
                        if let Some(p) = tok.strip_prefix("property=") {
                            prop = p.to_string();
                        }
                    }
                }
                if !prop.is_empty() && !key.is_empty() {
                    v.push(Known {
                        property: prop,
                        key,
                        what: what.to_string(),
                    });
                }
            }
        }
    }
    v
}

// ---------------------------------------------------------------- run context

pub struct Run {
    pub prop: &'static str,
    pub tier: Tier,
    pub seed: i64,
    pub start: Instant,
    pub level: &'static str,
    pub replay: Option<String>,
    pub threads: usize,
}

/// Exit code for machinery failures (never a verdict).
pub const EXIT_MACHINERY: i32 = 2;

pub fn machinery_failure(prop: &str, msg: &str) -> ! {
    eprintln!("MACHINERY-ERROR property={} {}", prop, msg);
    println!("MACHINERY-ERROR property={} {}", prop, msg);
    std::process::exit(EXIT_MACHINERY)
}

impl Run {
    /// Parse `--tier quick|thorough`, `--replay <file>`, env VERIF_TIER / VERIF_SEED.
    pub fn from_args(prop: &'static str, level: &'static str) -> Run {
        let args: Vec<String> = std::env::args().collect();
        let mut tier = match std::env::var("VERIF_TIER").ok().as_deref() {
            Some("thorough") => Tier::Thorough,
            _ => Tier::Quick,
        };
        let mut replay = None;
        let mut i = 1;
        while i < args.len() {
            match args[i].as_str() {
                "--tier" if i + 1 < args.len() => {
                    tier = if args[i + 1] == "thorough" {
                        Tier::Thorough
                    } else {
                        Tier::Quick
                    };
                    i += 1;
                }
                "--replay" if i + 1 < args.len() => {
                    replay = Some(args[i + 1].clone());
                    i += 1;
                }
                _ => {}
            }
            i += 1;
        }
        let seed = std::env::var("VERIF_SEED")
            .ok()
            .and_then(|s| s.parse::<i64>().ok())
            .unwrap_or(0);
        let threads = std::env::var("VERIF_THREADS")
            .ok()
            .and_then(|s| s.parse::<usize>().ok())
            .unwrap_or_else(|| {
                std::thread::available_parallelism()
                    .map(|n| n.get())
                    .unwrap_or(4)
            })
            .clamp(1, 16);
        crate::iso::install_panic_hook();
        Run {
            prop,
            tier,
            seed,
            start: Instant::now(),
            level,
            replay,
            threads,
        }
    }

    pub fn load_replay(&self) -> Option<Value> {
        let p = self.replay.as_ref()?;
        let s = std::fs::read_to_string(p)
            .unwrap_or_else(|e| machinery_failure(self.prop, &format!("cannot read replay {}: {}", p, e)));
        let v: Value = serde_json::from_str(&s)
            .unwrap_or_else(|e| machinery_failure(self.prop, &format!("bad replay json: {}", e)));
        if v["case"]["features"] == "all" && !is_sub() {
            // a case found against the all-features build of the crate is replayed by that build of the check
            let (out, _) = self.run_variant(&["--replay".to_string(), p.clone()]);
            for l in out.lines().filter(|l| !l.starts_with("SUB")) {
                println!("{}", l);
            }
            std::process::exit(if out.contains("VIOLATION property=") { 1 } else { 0 });
        }
        Some(v)
    }

    /// Build this check against tls-parser with every cargo feature on (std, serialize, unstable) and run it
    /// as a sub-process with `--sub`; returns its stdout and exit status.
    fn run_variant(&self, extra: &[String]) -> (String, Option<i32>) {
        use std::process::Command;
        let bin = self.prop.to_lowercase();
        let b = Command::new("cargo")
            .args(["build", "--release", "--offline", "-p", "vchecks", "--bin", &bin, "--features", "tp-unstable", "--target-dir", VARIANT_TARGET])
            .current_dir(format!("{}/harness", VERIF_DIR))
            .env("CARGO_NET_OFFLINE", "true")
            .output();
        match b {
            Ok(o) if o.status.success() => {}
            Ok(o) => machinery_failure(self.prop, &format!("the all-features build of the check failed: {}", String::from_utf8_lossy(&o.stderr).lines().rev().take(6).collect::<Vec<_>>().join(" | "))),
            Err(e) => machinery_failure(self.prop, &format!("cannot run cargo: {}", e)),
        }
        let o = Command::new(format!("{}/release/{}", VARIANT_TARGET, bin))
            .arg("--sub")
            .args(["--tier", self.tier.name()])
            .args(extra)
            .current_dir(VERIF_DIR)
            .output()
            .unwrap_or_else(|e| machinery_failure(self.prop, &format!("cannot run the all-features variant: {}", e)));
        (String::from_utf8_lossy(&o.stdout).to_string(), o.status.code())
    }

    /// The same check against the crate built with all cargo features: its violations are merged into `sink`
    /// (keys and texts marked, replay cases tagged so that the replay runs in that build). The properties
    /// are stated for the crate, whatever features are enabled.
    pub fn all_features_variant(&self, sink: &mut Sink) {
        if is_sub() {
            return;
        }
        let (out, code) = self.run_variant(&[]);
        let mut evals = None;
        for l in out.lines() {
            if let Some(j) = l.strip_prefix("SUBVIOL ") {
                if let Ok(v) = serde_json::from_str::<Value>(j) {
                    let mut case = v["case"].clone();
                    case["features"] = json!("all");
                    sink.violation(
                        format!("[all features] {}", v["key"].as_str().unwrap_or("")),
                        format!("[tls-parser built with --all-features] {}", v["what"].as_str().unwrap_or("")),
                        case,
                    );
                }
            } else if let Some(n) = l.strip_prefix("SUBEVALS ") {
                evals = n.trim().parse::<u64>().ok();
            }
        }
        match evals {
            Some(n) => {
                sink.evals += n;
                sink.bump("evaluations in the all-features configuration", n);
            }
            None => machinery_failure(self.prop, &format!("the all-features variant ended without a result (status {:?}): {:.300}", code, out.lines().rev().take(3).collect::<Vec<_>>().join(" | "))),
        }
    }

    /// Write evidence, replay files, print verdict lines; returns the process exit code.
    ///
    /// `coverage` holds the check-specific keys (rule, exhaustive, states, ...); the counts
    /// measured by the sink are added here.
    pub fn finish(&self, sink: &Sink, mut coverage: Map<String, Value>, assumptions: Vec<String>) -> i32 {
        if is_sub() {
            // sub-process of all_features_variant: hand the findings to the parent, write nothing
            for v in sink.viol.iter().take(300) {
                println!("SUBVIOL {}", json!({"key": v.key, "what": v.what, "case": v.replay}));
            }
            println!("SUBEVALS {}", sink.evals);
            return 0;
        }
        let known = load_known();
        let mut fresh: Vec<&Violation> = Vec::new();
        let mut known_hits: Vec<(&Violation, &Known)> = Vec::new();
        for v in &sink.viol {
            match known
                .iter()
                .find(|k| k.property == self.prop && k.key == v.key)
            {
                Some(k) => known_hits.push((v, k)),
                None => fresh.push(v),
            }
        }
        for (v, k) in &known_hits {
            println!(
                "KNOWN-FINDING: property={} {} [{}]",
                self.prop,
                if k.what.is_empty() { &v.what } else { &k.what },
                v.key
            );
        }
        let _ = std::fs::create_dir_all(format!("{}/replays", VERIF_DIR));
        let mut printed = 0;
        for v in &fresh {
            let h = fnv(0, v.key.as_bytes());
            let path = format!("{}/replays/{}-{:016x}.json", VERIF_DIR, self.prop, h);
            let body = json!({
                "property": self.prop,
                "key": v.key,
                "what": v.what,
                "case": v.replay,
            });
            let _ = std::fs::write(&path, serde_json::to_string_pretty(&body).unwrap());
            if printed < 25 {
                println!("  violation: {}", v.what);
                println!("VIOLATION property={} replay={}", self.prop, path);
                printed += 1;
            }
        }
        if fresh.len() > printed {
            println!("  ... and {} more distinct violations", fresh.len() - printed);
        }

        let wall = self.start.elapsed().as_secs_f64();
        if !coverage.contains_key("evaluations") {
            coverage.insert("evaluations".into(), json!(sink.evals));
        }
        if !coverage.contains_key("distinct_nontrivial") {
            coverage.insert("distinct_nontrivial".into(), json!(sink.distinct.len() as u64));
        }
        coverage.insert("nontrivial_evaluations".into(), json!(sink.nontrivial));
        if sink.distinct_overflow > 0 {
            coverage.insert(
                "distinct_nontrivial_note".into(),
                json!(format!(
                    "exact distinct count capped (hash set full): distinct_nontrivial is a lower bound; {} further non-trivial evaluations were not deduplicated",
                    sink.distinct_overflow
                )),
            );
        }
        if !coverage.contains_key("samples") {
            coverage.insert("samples".into(), json!(sink.samples));
        }
        if !sink.hist.is_empty() {
            coverage.insert("outcome_histogram".into(), sink.hist_json());
        }
        if !sink.counters.is_empty() {
            coverage.insert("counters".into(), json!(sink.counters));
        }
        coverage.insert("known_findings_hit".into(), json!(known_hits.len()));
        coverage.insert("violating_evaluations".into(), json!(sink.viol_total));
        let ev = json!({
            "property_id": self.prop,
            "tier": self.tier.name(),
            "seed": self.seed,
            "level": self.level,
            "coverage": Value::Object(coverage),
            "assumptions": assumptions,
            "wall_s": (wall * 1000.0).round() / 1000.0,
            "violations": fresh.len(),
        });
        let _ = std::fs::create_dir_all(format!("{}/evidence", VERIF_DIR));
        let path = format!("{}/evidence/{}.json", VERIF_DIR, self.prop);
        if let Err(e) = std::fs::write(&path, serde_json::to_string_pretty(&ev).unwrap() + "\n") {
            machinery_failure(self.prop, &format!("cannot write evidence: {}", e));
        }
        println!(
            "{} tier={} evaluations={} distinct_nontrivial={} violations={} known={} wall={:.1}s",
            self.prop,
            self.tier.name(),
            sink.evals,
            sink.distinct.len(),
            fresh.len(),
            known_hits.len(),
            wall
        );
        if fresh.is_empty() {
            0
        } else {
            1
        }
    }
}

pub const VARIANT_TARGET: &str = "/verif/target/feat-unstable";

/// true in the sub-process that `Run::all_features_variant` starts
pub fn is_sub() -> bool {
    std::env::args().any(|a| a == "--sub")
}

/// Parallel map over `n` work items with dynamic scheduling; each worker owns a Sink.
pub fn par_run<F>(threads: usize, n: usize, f: F) -> Sink
where
    F: Fn(usize, &mut Sink) + Sync,
{
    use std::sync::atomic::{AtomicUsize, Ordering};
    let next = AtomicUsize::new(0);
    let mut total = Sink::new();
    let sinks: Vec<Sink> = std::thread::scope(|s| {
        let hs: Vec<_> = (0..threads.max(1))
            .map(|_| {
                s.spawn(|| {
                    let mut sink = Sink::new();
                    loop {
                        let i = next.fetch_add(1, Ordering::Relaxed);
                        if i >= n {
                            break;
                        }
                        f(i, &mut sink);
                    }
                    sink
                })
            })
            .collect();
        hs.into_iter()
            .map(|h| match h.join() {
                Ok(s) => s,
                Err(_) => {
                    eprintln!("MACHINERY-ERROR worker thread panicked outside a guarded call");
                    std::process::exit(EXIT_MACHINERY)
                }
            })
            .collect()
    });
    for s in sinks {
        total.merge(s);
    }
    total
}
