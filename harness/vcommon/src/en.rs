//! Wire-space enumerators (engine E2): positional-alphabet strings and structured encodings with
//! deviations. All of them are deterministic: the n-th case is always the same case.

/// Positional alphabets: position i draws from `pos[i]`, positions beyond the table from `rest`.
#[derive(Clone)]
pub struct Alpha {
    pub pos: Vec<Vec<u8>>,
    pub rest: Vec<u8>,
}

impl Alpha {
    pub fn uniform(a: &[u8]) -> Alpha {
        Alpha {
            pos: vec![],
            rest: a.to_vec(),
        }
    }
    pub fn new(pos: &[&[u8]], rest: &[u8]) -> Alpha {
        Alpha {
            pos: pos.iter().map(|p| p.to_vec()).collect(),
            rest: rest.to_vec(),
        }
    }
    #[inline]
    pub fn at(&self, i: usize) -> &[u8] {
        if i < self.pos.len() {
            &self.pos[i]
        } else {
            &self.rest
        }
    }
    /// number of strings of length 0..=n
    pub fn count(&self, n: usize) -> u64 {
        let mut total = 1u64;
        let mut level = 1u64;
        for i in 0..n {
            level = level.saturating_mul(self.at(i).len() as u64);
            total = total.saturating_add(level);
        }
        total
    }
    /// Visit every string of length 0..=n that starts with `prefix` (which must itself be over the
    /// alphabet), as a prefix tree (each string visited exactly once, parents before children).
    pub fn visit(&self, prefix: &[u8], n: usize, f: &mut impl FnMut(&[u8])) {
        let mut buf = prefix.to_vec();
        self.rec(&mut buf, n, f);
    }
    fn rec(&self, buf: &mut Vec<u8>, n: usize, f: &mut impl FnMut(&[u8])) {
        f(buf);
        if buf.len() >= n {
            return;
        }
        let i = buf.len();
        for k in 0..self.at(i).len() {
            let b = self.at(i)[k];
            buf.push(b);
            self.rec(buf, n, f);
            buf.pop();
        }
    }
    /// All prefixes of exactly length `d` (for sharding across workers); strings shorter than d are
    /// returned by `short(d)`.
    pub fn shards(&self, d: usize) -> Vec<Vec<u8>> {
        let mut out = vec![vec![]];
        for i in 0..d {
            let mut next = Vec::new();
            for p in &out {
                for &b in self.at(i) {
                    let mut q: Vec<u8> = p.clone();
                    q.push(b);
                    next.push(q);
                }
            }
            out = next;
        }
        out
    }
    /// all strings of length < d
    pub fn short(&self, d: usize) -> Vec<Vec<u8>> {
        let mut out = Vec::new();
        if d == 0 {
            return out;
        }
        let mut f = |b: &[u8]| out.push(b.to_vec());
        self.visit(&[], d - 1, &mut f);
        out
    }
}

// ---------------------------------------------------------------- structured encodings

#[derive(Clone, Debug, PartialEq, Eq)]
pub struct LenField {
    pub pos: usize,
    pub width: usize,
    pub value: u64,
    pub label: &'static str,
}

thread_local! {
    static FILL_STYLE: std::cell::Cell<u8> = const { std::cell::Cell::new(0) };
}

pub const FILL_STYLES: [u8; 22] = [0, 1, 2, 3, 4, 5, 6, 7, 8, 9, 10, 11, 12, 13, 14, 15, 16, 17, 18, 19, 20, 21];

/// a DER TLV of exactly `total` bytes (total >= 2): tag, definite length (minimal where a minimal form of that
/// total size exists), content from `body`
fn der_exact(tag: u8, total: usize, body: &mut dyn FnMut(usize) -> Vec<u8>) -> Vec<u8> {
    let mut v = vec![tag];
    let content = if total - 2 < 128 {
        v.push((total - 2) as u8);
        total - 2
    } else if total - 3 < 256 {
        v.push(0x81);
        v.push((total - 3) as u8);
        total - 3
    } else {
        v.push(0x82);
        v.push(((total - 4) >> 8) as u8);
        v.push((total - 4) as u8);
        total - 4
    };
    v.extend(body(content));
    v
}

/// nested DER of exactly n bytes: SEQUENCE { INTEGER, INTEGER } (an ECDSA-Sig-Value / DSA signature), or
/// `x509`: SEQUENCE { SEQUENCE { INTEGER, SEQUENCE { OID } }, SEQUENCE { OID }, BIT STRING } (a certificate
/// outline), followed by `trailing` bytes outside the outer SEQUENCE
fn nested_der(n: usize, trailing: usize, x509: bool, seed: u8) -> Option<Vec<u8>> {
    if n < trailing + if x509 { 24 } else { 8 } || n - trailing > 65000 {
        return None;
    }
    let mut k = 0usize;
    let mut cnt = |m: usize| -> Vec<u8> {
        (0..m)
            .map(|_| {
                k += 1;
                seed.wrapping_add((k % 251) as u8) | 1
            })
            .collect()
    };
    let mut v = der_exact(0x30, n - trailing, &mut |c| {
        if !x509 {
            let a = c / 2;
            let mut b = der_exact(0x02, a, &mut cnt);
            b.extend(der_exact(0x02, c - a, &mut cnt));
            b
        } else {
            let t = c / 2;
            let mut b = der_exact(0x30, t, &mut |c2| {
                let mut x = der_exact(0x02, 3, &mut cnt);
                x.extend(der_exact(0x30, c2 - 3, &mut |c3| der_exact(0x06, c3, &mut cnt)));
                x
            });
            let rest = c - t;
            b.extend(der_exact(0x30, 5, &mut |c3| der_exact(0x06, c3, &mut cnt)));
            b.extend(der_exact(0x03, rest - 5, &mut |c3| {
                let mut x = vec![0u8];
                x.extend(cnt(c3 - 1));
                x
            }));
            b
        }
    });
    for i in 0..trailing {
        v.push(0xe0 + i as u8);
    }
    debug_assert_eq!(v.len(), n);
    Some(v)
}

/// Run `f` (typically a catalogue constructor) with opaque field contents drawn from another pattern.
pub fn with_fill_style<T>(style: u8, f: impl FnOnce() -> T) -> T {
    let old = FILL_STYLE.with(|s| s.replace(style));
    let r = f();
    FILL_STYLE.with(|s| s.set(old));
    r
}

/// Wire builder that remembers where every length field is, so that a "lying length" deviation
/// can overwrite exactly that field and nothing else.
#[derive(Clone, Debug, Default)]
pub struct W {
    pub buf: Vec<u8>,
    pub lens: Vec<LenField>,
}

impl W {
    pub fn new() -> W {
        W::default()
    }
    pub fn u8(&mut self, x: u8) -> &mut W {
        self.buf.push(x);
        self
    }
    pub fn u16(&mut self, x: u16) -> &mut W {
        self.buf.extend_from_slice(&x.to_be_bytes());
        self
    }
    pub fn u24(&mut self, x: u32) -> &mut W {
        self.buf.extend_from_slice(&x.to_be_bytes()[1..]);
        self
    }
    pub fn u32(&mut self, x: u32) -> &mut W {
        self.buf.extend_from_slice(&x.to_be_bytes());
        self
    }
    pub fn u48(&mut self, x: u64) -> &mut W {
        self.buf.extend_from_slice(&x.to_be_bytes()[2..]);
        self
    }
    pub fn u64(&mut self, x: u64) -> &mut W {
        self.buf.extend_from_slice(&x.to_be_bytes());
        self
    }
    pub fn bytes(&mut self, b: &[u8]) -> &mut W {
        self.buf.extend_from_slice(b);
        self
    }
    /// `n` bytes of opaque content. The pattern depends on the thread's fill style (see
    /// `with_fill_style`): 0 = recognisable counting pattern starting at `seed` (default),
    /// 1 = all zero, 2 = `00 ff 00 ff ..`, 3 = `00 80 ff 7f ..` (leading zero before a high
    /// bit), 4 = all ff, 5 = `80 00 00 ..` (high bit first), 6..9 = DER-shaped (tag 06 / 30 / 04 / 02 with a
    /// definite length that covers the rest of the field), 10 / 11 = SEQUENCE whose length is short / long,
    /// 12..15 = nested DER (signature value, with trailing bytes, certificate outline), 16..19 = SEQUENCE headers
    /// with four / nine length octets, indefinite length, the reserved length form.
    pub fn fill(&mut self, n: usize, seed: u8) -> &mut W {
        let style = FILL_STYLE.with(|s| s.get());
        if style == 20 || style == 21 {
            // short-form DER SEQUENCE whose one-byte length overstates (20: +3) or understates (21: -3) what the field holds
            let mut v: Vec<u8> = Vec::with_capacity(n);
            let body = n.saturating_sub(2);
            let l = if style == 20 { (body + 3).min(0x7f) } else { body.saturating_sub(3).min(0x7f) };
            for b in [0x30u8, l as u8] {
                if v.len() < n {
                    v.push(b);
                }
            }
            while v.len() < n {
                v.push(seed.wrapping_add((v.len() % 251) as u8) | 1);
            }
            self.buf.extend_from_slice(&v);
            return self;
        }
        if (16..=19).contains(&style) {
            // DER SEQUENCE headers with unusual length forms: 16 = four length octets (30 84 00 00 hi lo), 17 = nine length
            // octets (30 89 ..), 18 = indefinite length (30 80 .. 00 00), 19 = the reserved form 30 ff followed by 127 octets
            let mut v: Vec<u8> = Vec::with_capacity(n);
            let hdr: Vec<u8> = match style {
                16 => {
                    let c = n.saturating_sub(6);
                    vec![0x30, 0x84, (c >> 24) as u8, (c >> 16) as u8, (c >> 8) as u8, c as u8]
                }
                17 => {
                    let c = n.saturating_sub(11);
                    vec![0x30, 0x89, 0, 0, 0, 0, 0, 0, 0, (c >> 8) as u8, c as u8]
                }
                18 => vec![0x30, 0x80],
                _ => vec![0x30, 0xff],
            };
            v.extend(hdr.into_iter().take(n));
            while v.len() < n {
                v.push(if style == 18 && v.len() + 2 >= n { 0 } else { seed.wrapping_add((v.len() % 251) as u8) | 1 });
            }
            self.buf.extend_from_slice(&v);
            return self;
        }
        if (12..=15).contains(&style) {
            // nested DER: 12 = SEQUENCE { INTEGER, INTEGER } filling the field, 13 / 14 = the same followed by 1 / 3
            // bytes inside the field, 15 = a certificate outline; fields too short for it get the counting pattern
            let v = match style {
                12 => nested_der(n, 0, false, seed),
                13 => nested_der(n, 1, false, seed),
                14 => nested_der(n, 3, false, seed),
                _ => nested_der(n, 0, true, seed),
            };
            match v {
                Some(v) if v.len() == n => self.buf.extend_from_slice(&v),
                _ => {
                    for i in 0..n {
                        self.buf.push(seed.wrapping_add((i % 251) as u8));
                    }
                }
            }
            return self;
        }
        if style == 10 || style == 11 {
            // DER SEQUENCE in long form (30 82 hi lo) whose inner length under- (10) or overstates (11) the rest
            let mut v: Vec<u8> = Vec::with_capacity(n);
            let rest = n.saturating_sub(4);
            let inner = if style == 10 { rest.saturating_sub(5) } else { rest + 5 };
            for b in [0x30u8, 0x82, (inner >> 8) as u8, inner as u8] {
                if v.len() < n {
                    v.push(b);
                }
            }
            while v.len() < n {
                v.push(seed.wrapping_add((v.len() % 251) as u8));
            }
            self.buf.extend_from_slice(&v);
            return self;
        }
        if (6..=9).contains(&style) {
            // DER-shaped content: tag, definite length covering the rest of the field, counting body
            let tag = [0x06u8, 0x30, 0x04, 0x02][(style - 6) as usize];
            let mut v: Vec<u8> = Vec::with_capacity(n);
            if n >= 1 {
                v.push(tag);
            }
            if n >= 2 {
                let rest = n - 2;
                if rest < 128 {
                    v.push(rest as u8);
                } else if n >= 3 && n - 3 < 256 {
                    v.push(0x81);
                    v.push((n - 3) as u8);
                } else if n >= 4 {
                    v.push(0x82);
                    v.push(((n - 4) >> 8) as u8);
                    v.push((n - 4) as u8);
                }
            }
            while v.len() < n {
                v.push(seed.wrapping_add((v.len() % 251) as u8));
            }
            v.truncate(n);
            self.buf.extend_from_slice(&v);
            return self;
        }
        for i in 0..n {
            let b = match style {
                0 => seed.wrapping_add((i % 251) as u8),
                1 => 0,
                2 => {
                    if i % 2 == 0 {
                        0
                    } else {
                        0xff
                    }
                }
                3 => [0x00, 0x80, 0xff, 0x7f][i % 4],
                4 => 0xff,
                _ => {
                    if i == 0 {
                        0x80
                    } else {
                        0
                    }
                }
            };
            self.buf.push(b);
        }
        self
    }
    /// a length-prefixed block; the prefix is `width` bytes wide (1, 2 or 3)
    pub fn block(&mut self, width: usize, label: &'static str, f: impl FnOnce(&mut W)) -> &mut W {
        let pos = self.buf.len();
        for _ in 0..width {
            self.buf.push(0);
        }
        let idx = self.lens.len();
        self.lens.push(LenField {
            pos,
            width,
            value: 0,
            label,
        });
        let start = self.buf.len();
        f(self);
        let n = (self.buf.len() - start) as u64;
        self.lens[idx].value = n;
        write_be(&mut self.buf[pos..pos + width], n);
        self
    }
    /// an explicit length/count field that is written with a given value (e.g. DTLS fragment length)
    pub fn lenfield(&mut self, width: usize, label: &'static str, value: u64) -> &mut W {
        let pos = self.buf.len();
        for _ in 0..width {
            self.buf.push(0);
        }
        write_be(&mut self.buf[pos..pos + width], value);
        self.lens.push(LenField {
            pos,
            width,
            value,
            label,
        });
        self
    }
    /// append another builder (its length fields are re-based)
    pub fn append(&mut self, o: &W) -> &mut W {
        let base = self.buf.len();
        self.buf.extend_from_slice(&o.buf);
        for l in &o.lens {
            let mut l = l.clone();
            l.pos += base;
            self.lens.push(l);
        }
        self
    }
}

pub fn write_be(dst: &mut [u8], v: u64) {
    let w = dst.len();
    for i in 0..w {
        dst[i] = (v >> (8 * (w - 1 - i))) as u8;
    }
}

/// Also lie by amounts that vanish in a narrower integer (true+256, true+65536) and by the top bit.
pub static WRAP_LIES: std::sync::atomic::AtomicBool = std::sync::atomic::AtomicBool::new(false);

/// The lying values for one length field: 0, 1, true-1, true+1, max (deduplicated, true value excluded);
/// with WRAP_LIES also true+256 / true+65536 (fields wide enough) and the top bit flipped.
pub fn lies(l: &LenField) -> Vec<u64> {
    let max = if l.width >= 8 { u64::MAX } else { (1u64 << (8 * l.width)) - 1 };
    let mut v = vec![0, 1, l.value.wrapping_sub(1) & max, (l.value + 1) & max, max];
    if WRAP_LIES.load(std::sync::atomic::Ordering::Relaxed) && l.width < 8 {
        if l.width >= 2 {
            v.push((l.value + 256) & max);
        }
        if l.width >= 3 {
            v.push((l.value + 65536) & max);
        }
        v.push(l.value ^ (1u64 << (8 * l.width - 1)));
    }
    v.sort();
    v.dedup();
    v.retain(|&x| x != l.value);
    v
}

/// One deviation of a well-formed encoding.
#[derive(Clone, Debug, PartialEq, Eq)]
pub enum Dev {
    /// overwrite length field #i with a lying value
    Lie(usize, u64),
    /// truncate to n bytes
    Cut(usize),
    /// append suffix #k of the suffix table
    Suffix(usize),
}

pub fn apply(w: &W, devs: &[Dev], suffixes: &[Vec<u8>]) -> Vec<u8> {
    let mut b = w.buf.clone();
    for d in devs {
        if let Dev::Lie(i, v) = d {
            let l = &w.lens[*i];
            write_be(&mut b[l.pos..l.pos + l.width], *v);
        }
    }
    for d in devs {
        if let Dev::Suffix(k) = d {
            b.extend_from_slice(&suffixes[*k]);
        }
    }
    for d in devs {
        if let Dev::Cut(n) = d {
            b.truncate(*n);
        }
    }
    b
}

/// Enumerate every combination of at most `d` deviations of `w` (d in 0..=2): the undeviated
/// encoding, every single lie / cut / suffix, and (d = 2) every pair lie+lie (distinct fields),
/// lie+cut, lie+suffix. Cuts are every byte position; for encodings longer than `cut_dense`
/// bytes, cuts are every position in the first and last `cut_dense/2` bytes plus the position
/// just before and after every length field.
pub fn deviations(w: &W, d: usize, suffixes: &[Vec<u8>], cut_dense: usize, f: &mut impl FnMut(&[Dev], &[u8])) {
    let base: Vec<Dev> = vec![];
    f(&base, &w.buf);
    if d == 0 {
        return;
    }
    let n = w.buf.len();
    let mut cuts: Vec<usize> = if n <= cut_dense {
        (0..n).collect()
    } else {
        let h = cut_dense / 2;
        let mut c: Vec<usize> = (0..h).chain(n - h..n).collect();
        for l in &w.lens {
            for p in [l.pos, l.pos + l.width, l.pos + l.width + 1] {
                if p < n {
                    c.push(p);
                }
            }
        }
        c
    };
    cuts.sort();
    cuts.dedup();
    let mut singles: Vec<Dev> = Vec::new();
    for (i, l) in w.lens.iter().enumerate() {
        for v in lies(l) {
            singles.push(Dev::Lie(i, v));
        }
    }
    let nlies = singles.len();
    for &c in &cuts {
        singles.push(Dev::Cut(c));
    }
    for k in 0..suffixes.len() {
        singles.push(Dev::Suffix(k));
    }
    for s in &singles {
        let ds = [s.clone()];
        let b = apply(w, &ds, suffixes);
        f(&ds, &b);
    }
    if d < 2 {
        return;
    }
    for a in 0..nlies {
        for b in a + 1..singles.len() {
            if let (Dev::Lie(i, _), Dev::Lie(j, _)) = (&singles[a], &singles[b]) {
                if i == j {
                    continue;
                }
            }
            let ds = [singles[a].clone(), singles[b].clone()];
            let bytes = apply(w, &ds, suffixes);
            f(&ds, &bytes);
        }
    }
}

#[cfg(test)]
mod tests {
    use super::*;
    #[test]
    fn alpha_counts() {
        let a = Alpha::new(&[&[1, 2], &[0, 1, 2]], &[9]);
        let mut n = 0u64;
        a.visit(&[], 4, &mut |_| n += 1);
        assert_eq!(n, a.count(4));
        assert_eq!(n, 1 + 2 + 6 + 6 + 6);
        let sh = a.shards(2);
        let mut m = a.short(2).len() as u64;
        for s in &sh {
            a.visit(s, 4, &mut |_| m += 1);
        }
        assert_eq!(m, n);
    }
    #[test]
    fn blocks() {
        let mut w = W::new();
        w.u8(0x16).block(3, "hs", |w| {
            w.u16(0x0303).block(1, "sid", |w| {
                w.bytes(&[1, 2]);
            });
        });
        assert_eq!(w.buf, vec![0x16, 0, 0, 5, 3, 3, 2, 1, 2]);
        assert_eq!(w.lens.len(), 2);
        assert_eq!(w.lens[0].value, 5);
        assert_eq!(w.lens[1].value, 2);
        let mut n = 0;
        deviations(&w, 2, &[vec![0xff]], 64, &mut |_, _| n += 1);
        assert!(n > 30);
    }
}

/// The same bytes inside the outer headers under which such data travels elsewhere (a DER OCTET STRING /
/// SEQUENCE / BIT STRING in minimal and long forms, 8/16/24-bit length prefixes, a TLS record header, a
/// handshake header, an extension header): a parser that "helpfully" recognises one of them is no longer
/// the parser of its own format. None of these is a length-mapped structure (no deviations apply).
pub fn wrappers(b: &[u8]) -> Vec<W> {
    let n = b.len();
    let mut heads: Vec<Vec<u8>> = Vec::new();
    for tag in [0x04u8, 0x30, 0x03] {
        let pad: &[u8] = if tag == 0x03 { &[0] } else { &[] };
        let m = n + pad.len();
        if m < 128 {
            heads.push([&[tag, m as u8][..], pad].concat());
        }
        if m < 256 {
            heads.push([&[tag, 0x81, m as u8][..], pad].concat());
        }
        if m < 65536 {
            heads.push([&[tag, 0x82, (m >> 8) as u8, m as u8][..], pad].concat());
        }
    }
    if n < 256 {
        heads.push(vec![n as u8]);
    }
    if n < 65536 {
        heads.push(vec![(n >> 8) as u8, n as u8]);
        heads.push(vec![0x16, 0x03, 0x03, (n >> 8) as u8, n as u8]);
        heads.push(vec![0x00, 0x12, (n >> 8) as u8, n as u8]);
        heads.push(vec![0x00, 0x00, (n >> 8) as u8, n as u8]);
    }
    heads.push(vec![(n >> 16) as u8, (n >> 8) as u8, n as u8]);
    heads.push(vec![0x0b, (n >> 16) as u8, (n >> 8) as u8, n as u8]);
    heads.push(vec![0x16, (n >> 16) as u8, (n >> 8) as u8, n as u8]);
    heads
        .into_iter()
        .map(|h| {
            let mut w = W::new();
            w.bytes(&h).bytes(b);
            w
        })
        .collect()
}
