//! Isolation of one execution: silent panic capture, per-thread heap accounting, watchdog.

use std::alloc::{GlobalAlloc, Layout, System};
use std::cell::{Cell, RefCell};
use std::panic::{catch_unwind, AssertUnwindSafe};
use std::sync::atomic::{AtomicBool, AtomicU64, Ordering};
use std::sync::{Arc, Mutex};
use std::time::{Duration, Instant};

// ---------------------------------------------------------------- allocator

pub struct CountingAlloc;

thread_local! {
    static CUR: Cell<usize> = const { Cell::new(0) };
    static PEAK: Cell<usize> = const { Cell::new(0) };
}

unsafe impl GlobalAlloc for CountingAlloc {
    unsafe fn alloc(&self, l: Layout) -> *mut u8 {
        let p = System.alloc(l);
        if !p.is_null() {
            let _ = CUR.try_with(|c| {
                let n = c.get().wrapping_add(l.size());
                c.set(n);
                let _ = PEAK.try_with(|p| {
                    if n > p.get() {
                        p.set(n)
                    }
                });
            });
        }
        p
    }
    unsafe fn dealloc(&self, p: *mut u8, l: Layout) {
        System.dealloc(p, l);
        let _ = CUR.try_with(|c| c.set(c.get().wrapping_sub(l.size())));
    }
    unsafe fn realloc(&self, p: *mut u8, l: Layout, new: usize) -> *mut u8 {
        let q = System.realloc(p, l, new);
        if !q.is_null() {
            let _ = CUR.try_with(|c| {
                let n = c.get().wrapping_sub(l.size()).wrapping_add(new);
                c.set(n);
                let _ = PEAK.try_with(|p| {
                    if n > p.get() && n < (1usize << 60) {
                        p.set(n)
                    }
                });
            });
        }
        q
    }
}

#[global_allocator]
static GLOBAL: CountingAlloc = CountingAlloc;

/// Start a heap measurement on this thread: returns the baseline.
#[inline]
pub fn heap_mark() -> usize {
    let c = CUR.with(|c| c.get());
    PEAK.with(|p| p.set(c));
    c
}

/// Peak number of bytes allocated above the baseline since `heap_mark` (this thread only).
#[inline]
pub fn heap_peak_since(base: usize) -> usize {
    let p = PEAK.with(|p| p.get());
    p.wrapping_sub(base).min(1usize << 60)
}

// ---------------------------------------------------------------- panics

thread_local! {
    static LAST_PANIC: RefCell<Option<String>> = const { RefCell::new(None) };
    static QUIET: Cell<bool> = const { Cell::new(false) };
}

/// Install a panic hook that stays silent inside `guarded` and records message + location.
pub fn install_panic_hook() {
    let prev = std::panic::take_hook();
    std::panic::set_hook(Box::new(move |info| {
        let quiet = QUIET.try_with(|q| q.get()).unwrap_or(false);
        if quiet {
            let msg = if let Some(s) = info.payload().downcast_ref::<&str>() {
                s.to_string()
            } else if let Some(s) = info.payload().downcast_ref::<String>() {
                s.clone()
            } else {
                "<non-string panic>".to_string()
            };
            let loc = info
                .location()
                .map(|l| format!("{}:{}", l.file(), l.line()))
                .unwrap_or_default();
            let _ = LAST_PANIC.try_with(|p| *p.borrow_mut() = Some(format!("{} @ {}", msg, loc)));
        } else {
            prev(info);
        }
    }));
}

/// Run `f`, turning a panic into `Err(message @ file:line)`.
pub fn guarded<T>(f: impl FnOnce() -> T) -> Result<T, String> {
    let was = QUIET.with(|q| q.replace(true));
    let r = catch_unwind(AssertUnwindSafe(f));
    QUIET.with(|q| q.set(was));
    match r {
        Ok(v) => Ok(v),
        Err(_) => Err(LAST_PANIC
            .with(|p| p.borrow_mut().take())
            .unwrap_or_else(|| "<panic>".into())),
    }
}

// ---------------------------------------------------------------- watchdog

/// One slot per worker: a heartbeat that the worker bumps per case and a short description of the
/// case it is currently running (only refreshed every `DESC_EVERY` cases, plus on demand).
pub struct Slot {
    pub beat: AtomicU64,
    pub busy: AtomicBool,
    pub desc: Mutex<String>,
}

pub struct Watchdog {
    pub slots: Vec<Arc<Slot>>,
    stop: Arc<AtomicBool>,
    handle: Option<std::thread::JoinHandle<()>>,
}

impl Watchdog {
    /// `on_hang(worker, description)` is called from the monitor thread once a busy worker has not
    /// advanced for `limit`; it is expected to report and terminate the process.
    pub fn start(
        workers: usize,
        limit: Duration,
        on_hang: impl Fn(usize, String) + Send + 'static,
    ) -> Watchdog {
        let slots: Vec<Arc<Slot>> = (0..workers)
            .map(|_| {
                Arc::new(Slot {
                    beat: AtomicU64::new(0),
                    busy: AtomicBool::new(false),
                    desc: Mutex::new(String::new()),
                })
            })
            .collect();
        let stop = Arc::new(AtomicBool::new(false));
        let s2 = slots.clone();
        let st = stop.clone();
        let handle = std::thread::spawn(move || {
            let mut last: Vec<(u64, Instant)> = s2
                .iter()
                .map(|s| (s.beat.load(Ordering::Relaxed), Instant::now()))
                .collect();
            while !st.load(Ordering::Relaxed) {
                std::thread::sleep(Duration::from_millis(250));
                for (i, s) in s2.iter().enumerate() {
                    let b = s.beat.load(Ordering::Relaxed);
                    if b != last[i].0 || !s.busy.load(Ordering::Relaxed) {
                        last[i] = (b, Instant::now());
                    } else if last[i].1.elapsed() > limit {
                        let d = s.desc.lock().map(|d| d.clone()).unwrap_or_default();
                        on_hang(i, d);
                        last[i] = (b, Instant::now());
                    }
                }
            }
        });
        Watchdog {
            slots,
            stop,
            handle: Some(handle),
        }
    }
    pub fn stop(mut self) {
        self.stop.store(true, Ordering::Relaxed);
        if let Some(h) = self.handle.take() {
            let _ = h.join();
        }
    }
}

/// Cap the address space of this process so that a runaway allocation aborts this process
/// instead of exhausting the sandbox.
pub fn cap_memory(bytes: u64) {
    unsafe {
        let lim = libc::rlimit {
            rlim_cur: bytes as libc::rlim_t,
            rlim_max: bytes as libc::rlim_t,
        };
        libc::setrlimit(libc::RLIMIT_AS, &lim);
    }
}

/// A lazily zeroed buffer of `len` bytes straight from the kernel (anonymous private mapping, no reservation):
/// pages become resident only when touched, so a 4 GiB input costs nothing until a parser walks it.
/// Leaked on purpose (lives until the process ends). None if the mapping is refused.
pub fn big_zero(len: usize) -> Option<&'static mut [u8]> {
    // SAFETY: a fresh anonymous mapping of `len` readable and writable bytes, owned by nobody else and never unmapped
    unsafe {
        let p = libc::mmap(std::ptr::null_mut(), len, libc::PROT_READ | libc::PROT_WRITE, libc::MAP_PRIVATE | libc::MAP_ANONYMOUS | libc::MAP_NORESERVE, -1, 0);
        if p == libc::MAP_FAILED {
            None
        } else {
            Some(std::slice::from_raw_parts_mut(p as *mut u8, len))
        }
    }
}
