//! Strict reference walkers for the wire grammar (DESIGN appendix D). Plain Rust, no nom.
//!
//! Every walker classifies an input as `Must(value, consumed)` (well-formed per the RFCs: the
//! parser has to return exactly this), `Reject(rule)` (one of the rejection rules the properties
//! name: no value may come out) or `Unspec(why)` (the statements do not say).
//! Values use the shape documented in vchecks/src/mirror.rs; slices are (offset, len) in the input.

use crate::reference::iana::{is_rfc8701_grease, KNOWN_EXT_TYPES};
use crate::v::{Ref, V};

pub const MAX_RECORD_LEN: usize = (1 << 14) + 256;

/// Reader over a sub-slice that remembers its absolute offset in the original input.
#[derive(Clone, Copy)]
pub struct Rd<'a> {
    pub b: &'a [u8],
    pub off: usize,
}

impl<'a> Rd<'a> {
    pub fn new(b: &'a [u8]) -> Rd<'a> {
        Rd { b, off: 0 }
    }
    pub fn at(b: &'a [u8], off: usize) -> Rd<'a> {
        Rd { b, off }
    }
    pub fn len(&self) -> usize {
        self.b.len()
    }
    pub fn is_empty(&self) -> bool {
        self.b.is_empty()
    }
    fn adv(&mut self, n: usize) -> Option<&'a [u8]> {
        if self.b.len() < n {
            return None;
        }
        let (h, t) = self.b.split_at(n);
        self.b = t;
        self.off += n;
        Some(h)
    }
    pub fn uint(&mut self, w: usize) -> Option<u64> {
        let h = self.adv(w)?;
        Some(h.iter().fold(0u64, |a, &x| (a << 8) | x as u64))
    }
    pub fn u8(&mut self) -> Option<u64> {
        self.uint(1)
    }
    pub fn u16(&mut self) -> Option<u64> {
        self.uint(2)
    }
    pub fn u24(&mut self) -> Option<u64> {
        self.uint(3)
    }
    /// take n bytes as a slice value
    pub fn take(&mut self, n: usize) -> Option<V> {
        let o = self.off;
        self.adv(n)?;
        Some(V::s(o, n))
    }
    /// take n bytes as a sub-reader
    pub fn sub(&mut self, n: usize) -> Option<Rd<'a>> {
        let o = self.off;
        let h = self.adv(n)?;
        Some(Rd { b: h, off: o })
    }
    pub fn rest(&mut self) -> V {
        let n = self.b.len();
        self.take(n).unwrap()
    }
}

/// Body-level verdict (consumption is decided by the container).
#[derive(Clone, Debug, PartialEq, Eq)]
pub enum Bd {
    Must(V),
    Reject(&'static str),
    Unspec(&'static str),
}

use Bd::{Must as BM, Reject as BR, Unspec as BU};

fn n(name: &'static str, f: Vec<V>) -> V {
    V::N(name, f)
}
fn u(x: u64) -> V {
    V::U(x)
}

/// optional trailing extension block `[ext_len u16, ext[ext_len]]` that must end the body
fn opt_ext(r: &mut Rd) -> Result<V, &'static str> {
    if r.is_empty() {
        return Ok(V::None);
    }
    let Some(l) = r.u16() else {
        return Err("one stray byte where an extension block could start");
    };
    let l = l as usize;
    if l == r.len() {
        Ok(V::some(r.rest()))
    } else if l < r.len() {
        Err("trailing bytes after the extension block")
    } else {
        Err("extension block length overshoots the body")
    }
}

fn session_id(r: &mut Rd) -> Result<V, Bd> {
    let Some(l) = r.u8() else { return Err(BR("session id length cut")) };
    if l > 32 {
        return Err(BR("session id longer than 32"));
    }
    if l == 0 {
        return Ok(V::None);
    }
    match r.take(l as usize) {
        Some(s) => Ok(V::some(s)),
        None => Err(BR("session id cut")),
    }
}

fn u16_list(mut r: Rd) -> Vec<V> {
    let mut v = Vec::new();
    while let Some(x) = r.u16() {
        v.push(u(x));
    }
    v
}

pub fn body_client_hello(mut r: Rd, dtls: bool) -> Bd {
    let Some(version) = r.u16() else { return BR("version cut") };
    let Some(random) = r.take(32) else { return BR("random cut") };
    let sid = match session_id(&mut r) {
        Ok(s) => s,
        Err(b) => return b,
    };
    let mut cookie = None;
    if dtls {
        let Some(cl) = r.u8() else { return BR("cookie length cut") };
        let Some(c) = r.take(cl as usize) else { return BR("cookie cut") };
        cookie = Some(c);
    }
    let Some(cs_len) = r.u16() else { return BR("cipher list length cut") };
    if cs_len % 2 == 1 {
        return BR("odd cipher list length");
    }
    let Some(cs) = r.sub(cs_len as usize) else { return BR("cipher list overlong") };
    let Some(comp_len) = r.u8() else { return BR("compression length cut") };
    let Some(comp) = r.sub(comp_len as usize) else { return BR("compression list overlong") };
    let ext = match opt_ext(&mut r) {
        Ok(e) => e,
        Err(w) => return BU(w),
    };
    let ciphers = V::L(u16_list(cs));
    let comps = V::L(comp.b.iter().map(|&x| u(x as u64)).collect());
    match cookie {
        None => BM(n("ClientHello", vec![u(version), random, sid, ciphers, comps, ext])),
        Some(c) => BM(n("DClientHello", vec![u(version), random, sid, c, ciphers, comps, ext])),
    }
}

/// `any_version`: the DTLS dispatcher uses the TLS 1.0-1.2 layout whatever the version value
pub fn body_server_hello(mut r: Rd, any_version: bool) -> Bd {
    let mut peek = r;
    let Some(version) = peek.u16() else { return BR("version cut") };
    if !any_version && version == 0x7f12 {
        r.u16();
        let Some(random) = r.take(32) else { return BR("random cut") };
        let Some(cipher) = r.u16() else { return BR("cipher cut") };
        return match opt_ext(&mut r) {
            Ok(e) => BM(n("ServerHelloV13Draft18", vec![u(version), random, u(cipher), e])),
            Err(w) => BU(w),
        };
    }
    let has_ext = if any_version {
        true
    } else {
        match version {
            0x0301..=0x0303 => true,
            0x0300 => false,
            _ => return BR("unsupported ServerHello version"),
        }
    };
    r.u16();
    let Some(random) = r.take(32) else { return BR("random cut") };
    let sid = match session_id(&mut r) {
        Ok(s) => s,
        Err(b) => return b,
    };
    let Some(cipher) = r.u16() else { return BR("cipher cut") };
    let Some(comp) = r.u8() else { return BR("compression cut") };
    let ext = if has_ext {
        match opt_ext(&mut r) {
            Ok(e) => e,
            Err(w) => return BU(w),
        }
    } else {
        if !r.is_empty() {
            return BU("bytes after an SSLv3 ServerHello");
        }
        V::None
    };
    BM(n("ServerHello", vec![u(version), random, sid, u(cipher), u(comp), ext]))
}

pub fn body_certificate(mut r: Rd) -> Bd {
    let body_len = r.len();
    let Some(list_len) = r.u24() else { return BR("certificate list length cut") };
    if list_len as usize > body_len - 3 {
        return BR("certificate list longer than the body");
    }
    if (list_len as usize) < body_len - 3 {
        return BU("trailing bytes after the certificate list");
    }
    let mut certs = Vec::new();
    while !r.is_empty() {
        let Some(l) = r.u24() else { return BU("certificate length cut inside the list") };
        let Some(c) = r.take(l as usize) else { return BU("certificate overshoots the list") };
        certs.push(c);
    }
    BM(n("Certificate", vec![V::L(certs)]))
}

fn dn_list(mut r: Rd) -> Option<Vec<V>> {
    let mut v = Vec::new();
    while !r.is_empty() {
        let l = r.u16()?;
        v.push(r.take(l as usize)?);
    }
    Some(v)
}

pub fn body_certificate_request(r0: Rd) -> Bd {
    let mut r = r0;
    let Some(nt) = r.u8() else { return BR("certificate type count cut") };
    let Some(types) = r.sub(nt as usize) else { return BR("certificate types cut") };
    let types = V::L(types.b.iter().map(|&x| u(x as u64)).collect());
    // TLS 1.2 form, exact
    let full = (|| {
        let mut r = r;
        let sa = r.u16()? as usize;
        if sa % 2 == 1 {
            return None;
        }
        let algs = r.sub(sa)?;
        let ca = r.u16()? as usize;
        if ca != r.len() {
            return None;
        }
        let dns = dn_list(r.sub(ca)?)?;
        Some(n(
            "CertificateRequest",
            vec![types.clone(), V::some(V::L(u16_list(algs))), V::L(dns)],
        ))
    })();
    if let Some(v) = full {
        return BM(v);
    }
    // legacy form, exact
    let legacy = (|| {
        let mut r = r;
        let ca = r.u16()? as usize;
        if ca != r.len() {
            return None;
        }
        let dns = dn_list(r.sub(ca)?)?;
        Some(n("CertificateRequest", vec![types.clone(), V::None, V::L(dns)]))
    })();
    if let Some(v) = legacy {
        return BM(v);
    }
    BU("certificate request in neither exact form")
}

/// One handshake body, already isolated by the 24-bit length. `ht` = handshake type.
pub fn body_handshake(ht: u8, r: Rd) -> Bd {
    let mut r = r;
    let len = r.len();
    match ht {
        0 => {
            if len == 0 {
                BM(n("HelloRequest", vec![]))
            } else {
                BU("HelloRequest with a body")
            }
        }
        1 => body_client_hello(r, false),
        2 => body_server_hello(r, false),
        4 => {
            if len < 4 {
                return BR("NewSessionTicket shorter than 4 bytes");
            }
            let lt = r.uint(4).unwrap();
            BM(n("NewSessionTicket", vec![u(lt), r.rest()]))
        }
        5 => {
            if len == 0 {
                BM(n("EndOfEarlyData", vec![]))
            } else {
                BU("EndOfEarlyData with a body")
            }
        }
        6 => {
            let Some(v) = r.u16() else { return BR("version cut") };
            let Some(c) = r.u16() else { return BR("cipher cut") };
            match opt_ext(&mut r) {
                Ok(e) => BM(n("HelloRetryRequest", vec![u(v), u(c), e])),
                Err(w) => BU(w),
            }
        }
        11 => body_certificate(r),
        12 => BM(n("ServerKeyExchange", vec![r.rest()])),
        13 => body_certificate_request(r),
        14 => BM(n("ServerDone", vec![r.rest()])),
        15 => BM(n("CertificateVerify", vec![r.rest()])),
        16 => BM(n("ClientKeyExchange", vec![n("Unknown", vec![r.rest()])])),
        20 => BM(n("Finished", vec![r.rest()])),
        22 => {
            let Some(t) = r.u8() else { return BR("status type cut") };
            let Some(bl) = r.u24() else { return BR("status blob length cut") };
            let bl = bl as usize;
            if bl > r.len() {
                BR("status blob longer than the body")
            } else if bl < r.len() {
                BU("trailing bytes after the status blob")
            } else {
                BM(n("CertificateStatus", vec![u(t), r.rest()]))
            }
        }
        24 => {
            if len == 0 {
                BR("empty KeyUpdate")
            } else if len == 1 {
                BM(n("KeyUpdate", vec![u(r.u8().unwrap())]))
            } else {
                BU("KeyUpdate longer than one byte")
            }
        }
        67 => {
            let Some(l1) = r.u8() else { return BR("protocol length cut") };
            let Some(p) = r.take(l1 as usize) else { return BR("protocol cut") };
            let Some(l2) = r.u8() else { return BR("padding length cut") };
            let Some(pad) = r.take(l2 as usize) else { return BR("padding cut") };
            if !r.is_empty() {
                return BU("trailing bytes after NextProtocol");
            }
            BM(n("NextProtocol", vec![p, pad]))
        }
        _ => BR("unknown handshake type"),
    }
}

/// One handshake message at the start of `r`: (verdict, bytes consumed if the message is complete)
pub fn handshake_message(r: &mut Rd) -> (Bd, bool) {
    let Some(ht) = r.u8() else { return (BR("handshake header cut"), false) };
    let Some(hl) = r.u24() else { return (BR("handshake header cut"), false) };
    let Some(body) = r.sub(hl as usize) else { return (BR("handshake body cut"), false) };
    (body_handshake(ht as u8, body), true)
}

/// `parse_tls_message_handshake` on a whole input
pub fn ref_handshake_message(b: &[u8]) -> Ref {
    let mut r = Rd::new(b);
    match handshake_message(&mut r) {
        (BM(v), _) => Ref::Must(v, r.off),
        (BR(w), _) => Ref::Reject(w),
        (BU(w), _) => Ref::Unspec(w),
    }
}

/// Result of decoding a record payload: the messages that must come out and how many payload
/// bytes they cover (two-step remainder = the rest).
#[derive(Clone, Debug, PartialEq, Eq)]
pub enum Payload {
    Must(Vec<V>, usize),
    Reject(&'static str),
    Unspec(&'static str),
}

/// Decode a record payload of content type `ty`; `off` = absolute offset of the payload.
pub fn record_payload(ty: u8, payload: &[u8], off: usize, dtls: bool) -> Payload {
    let mut r = Rd::at(payload, off);
    match ty {
        0x14 => {
            let mut v = Vec::new();
            while let Some(&b) = r.b.first() {
                if b != 1 {
                    break;
                }
                r.u8();
                v.push(n("CCS", vec![]));
            }
            if v.is_empty() {
                Payload::Reject("no ChangeCipherSpec byte")
            } else {
                Payload::Must(v, r.off - off)
            }
        }
        0x15 => {
            let mut v = Vec::new();
            while r.len() >= 2 {
                let l = r.u8().unwrap();
                let d = r.u8().unwrap();
                v.push(n("Alert", vec![u(l), u(d)]));
            }
            if v.is_empty() {
                Payload::Reject("no complete alert")
            } else {
                Payload::Must(v, r.off - off)
            }
        }
        0x16 => {
            let mut v = Vec::new();
            loop {
                if r.is_empty() {
                    break;
                }
                let mut t = r;
                let verdict = if dtls { dtls_handshake_message(&mut t).0 } else { handshake_message(&mut t).0 };
                match verdict {
                    BM(m) => {
                        v.push(m);
                        r = t;
                    }
                    BR(w) => {
                        if v.is_empty() {
                            return Payload::Reject(w);
                        }
                        if dtls {
                            // C10 does not say what a DTLS record with a malformed later message yields
                            return Payload::Unspec("malformed later message in a DTLS record");
                        }
                        break;
                    }
                    BU(w) => return Payload::Unspec(w),
                }
            }
            if v.is_empty() {
                Payload::Reject("empty handshake payload")
            } else {
                Payload::Must(v, r.off - off)
            }
        }
        0x17 if !dtls => {
            let all = r.rest();
            Payload::Must(vec![n("AppData", vec![all])], payload.len())
        }
        0x18 if !dtls => {
            if payload.len() < 3 {
                return Payload::Reject("heartbeat shorter than 3 bytes");
            }
            let t = r.u8().unwrap();
            let pl = r.u16().unwrap();
            match r.take(pl as usize) {
                Some(p) => Payload::Must(vec![n("Heartbeat", vec![u(t), u(pl), p])], r.off - off),
                None => Payload::Reject("heartbeat payload_len exceeds the record"),
            }
        }
        _ => Payload::Reject("unknown content type"),
    }
}

fn hdr_v(ty: u64, ver: u64, len: u64) -> V {
    n("Hdr", vec![u(ty), u(ver), u(len)])
}

/// `parse_tls_plaintext`
pub fn ref_tls_plaintext(b: &[u8]) -> Ref {
    let mut r = Rd::new(b);
    let (Some(ty), Some(ver), Some(len)) = (r.u8(), r.u16(), r.u16()) else {
        return Ref::Reject("record header cut");
    };
    if len as usize > MAX_RECORD_LEN {
        return Ref::Reject("TooLarge");
    }
    let Some(p) = r.sub(len as usize) else { return Ref::Reject("record payload cut") };
    match record_payload(ty as u8, p.b, p.off, false) {
        Payload::Must(msgs, _) => Ref::Must(n("Plaintext", vec![hdr_v(ty, ver, len), V::L(msgs)]), 5 + len as usize),
        Payload::Reject(w) => Ref::Reject(w),
        Payload::Unspec(w) => Ref::Unspec(w),
    }
}

/// `parse_tls_raw_record` / `parse_tls_encrypted`
pub fn ref_tls_opaque(b: &[u8], name: &'static str) -> Ref {
    let mut r = Rd::new(b);
    let (Some(ty), Some(ver), Some(len)) = (r.u8(), r.u16(), r.u16()) else {
        return Ref::Reject("record header cut");
    };
    if len as usize > MAX_RECORD_LEN {
        return Ref::Reject("TooLarge");
    }
    let Some(p) = r.take(len as usize) else { return Ref::Reject("record payload cut") };
    Ref::Must(n(name, vec![hdr_v(ty, ver, len), p]), 5 + len as usize)
}

/// `parse_tls_record_with_header(payload, hdr{ty, len = payload.len()})`
pub fn ref_record_with_header(ty: u8, payload: &[u8]) -> Ref {
    match record_payload(ty, payload, 0, false) {
        Payload::Must(msgs, used) => Ref::Must(V::L(msgs), used),
        Payload::Reject(w) => Ref::Reject(w),
        Payload::Unspec(w) => Ref::Unspec(w),
    }
}

// ---------------------------------------------------------------- extensions

#[derive(Clone, Copy, PartialEq, Eq, Debug)]
pub enum Disp {
    Generic,
    Client,
    Server,
}

fn exact_u16_list<'a>(mut r: Rd<'a>) -> Option<Rd<'a>> {
    let l = r.u16()? as usize;
    if l != r.len() {
        return None;
    }
    Some(r)
}

fn exact_u8_list<'a>(mut r: Rd<'a>) -> Option<Rd<'a>> {
    let l = r.u8()? as usize;
    if l != r.len() {
        return None;
    }
    Some(r)
}

/// Typed content of a known extension type; `None` if `t` is not one of the 26 known types.
pub fn ext_content(t: u16, d: Rd) -> Option<Bd> {
    if !KNOWN_EXT_TYPES.contains(&t) {
        return None;
    }
    let mut r = d;
    let len = r.len();
    Some(match t {
        0 => {
            if len == 0 {
                return Some(BM(n("SNI", vec![V::L(vec![])])));
            }
            let Some(mut l) = exact_u16_list(r) else { return Some(BU("SNI list length does not match")) };
            let mut names = Vec::new();
            while !l.is_empty() {
                let (Some(ty), Some(nl)) = (l.u8(), l.u16()) else { return Some(BU("SNI entry cut")) };
                let Some(name) = l.take(nl as usize) else { return Some(BU("SNI name overshoots")) };
                names.push(n("Name", vec![u(ty), name]));
            }
            BM(n("SNI", vec![V::L(names)]))
        }
        1 => {
            if len == 1 {
                BM(n("MaxFragmentLength", vec![u(r.u8().unwrap())]))
            } else {
                BU("max_fragment_length content is not one byte")
            }
        }
        5 => {
            if len == 0 {
                BM(n("StatusRequest", vec![V::None]))
            } else {
                let t = r.u8().unwrap();
                BM(n("StatusRequest", vec![V::some(n("Req", vec![u(t), r.rest()]))]))
            }
        }
        10 | 13 => {
            let Some(l) = exact_u16_list(r) else { return Some(BU("list length does not match")) };
            if l.len() % 2 == 1 {
                return Some(BU("odd list length"));
            }
            let items = V::L(u16_list(l));
            BM(n(if t == 10 { "EllipticCurves" } else { "SignatureAlgorithms" }, vec![items]))
        }
        11 => {
            let Some(mut l) = exact_u8_list(r) else { return Some(BU("list length does not match")) };
            BM(n("EcPointFormats", vec![l.rest()]))
        }
        15 => {
            if len == 1 {
                BM(n("HeartbeatExt", vec![u(r.u8().unwrap())]))
            } else {
                BU("heartbeat content is not one byte")
            }
        }
        16 => {
            let Some(mut l) = exact_u16_list(r) else { return Some(BU("ALPN list length does not match")) };
            let mut v = Vec::new();
            while !l.is_empty() {
                let pl = l.u8().unwrap();
                let Some(p) = l.take(pl as usize) else { return Some(BU("protocol name overshoots")) };
                v.push(p);
            }
            BM(n("ALPN", vec![V::L(v)]))
        }
        18 => {
            if len == 0 {
                return Some(BM(n("SignedCertificateTimestamp", vec![V::None])));
            }
            let Some(mut l) = exact_u16_list(r) else { return Some(BU("SCT list length does not match")) };
            BM(n("SignedCertificateTimestamp", vec![V::some(l.rest())]))
        }
        21 => BM(n("Padding", vec![r.rest()])),
        35 => BM(n("SessionTicket", vec![r.rest()])),
        40 => BM(n("KeyShareOld", vec![r.rest()])),
        41 => BM(n("PreSharedKey", vec![r.rest()])),
        44 => BM(n("Cookie", vec![r.rest()])),
        51 => BM(n("KeyShare", vec![r.rest()])),
        22 | 23 | 49 | 13172 => {
            if len != 0 {
                return Some(BR("extension defined as empty carries data"));
            }
            BM(n(
                match t {
                    22 => "EncryptThenMac",
                    23 => "ExtendedMasterSecret",
                    49 => "PostHandshakeAuth",
                    _ => "NextProtocolNegotiation",
                },
                vec![],
            ))
        }
        28 => {
            if len == 2 {
                BM(n("RecordSizeLimit", vec![u(r.u16().unwrap())]))
            } else {
                BU("record_size_limit content is not two bytes")
            }
        }
        42 => match len {
            0 => BM(n("EarlyData", vec![V::None])),
            4 => BM(n("EarlyData", vec![V::some(u(r.uint(4).unwrap()))])),
            _ => BU("early_data content is neither empty nor four bytes"),
        },
        43 => {
            if len == 2 {
                return Some(BM(n("SupportedVersions", vec![V::L(vec![u(r.u16().unwrap())])])));
            }
            let Some(l) = exact_u8_list(r) else { return Some(BU("versions list length does not match")) };
            if l.len() % 2 == 1 {
                return Some(BU("odd versions list"));
            }
            BM(n("SupportedVersions", vec![V::L(u16_list(l))]))
        }
        45 => {
            let Some(l) = exact_u8_list(r) else { return Some(BU("modes list length does not match")) };
            BM(n("PskExchangeModes", vec![V::B(l.b.to_vec())]))
        }
        48 => {
            let Some(mut l) = exact_u16_list(r) else { return Some(BU("filters list length does not match")) };
            let mut v = Vec::new();
            while !l.is_empty() {
                let ol = l.u8().unwrap();
                let Some(oid) = l.take(ol as usize) else { return Some(BU("oid overshoots")) };
                let Some(vl) = l.u16() else { return Some(BU("value length cut")) };
                let Some(val) = l.take(vl as usize) else { return Some(BU("value overshoots")) };
                v.push(n("Oid", vec![oid, val]));
            }
            BM(n("OidFilters", vec![V::L(v)]))
        }
        0xff01 => {
            let Some(mut l) = exact_u8_list(r) else { return Some(BU("renegotiation_info length does not match")) };
            BM(n("RenegotiationInfo", vec![l.rest()]))
        }
        0xffce => {
            let (Some(cs), Some(g)) = (r.u16(), r.u16()) else { return Some(BU("esni header cut")) };
            let mut f = Vec::new();
            for _ in 0..3 {
                let Some(l) = r.u16() else { return Some(BU("esni field length cut")) };
                let Some(x) = r.take(l as usize) else { return Some(BU("esni field overshoots")) };
                f.push(x);
            }
            if !r.is_empty() {
                return Some(BU("trailing bytes after esni"));
            }
            let mut fields = vec![u(cs), u(g)];
            fields.extend(f);
            BM(n("EncryptedServerName", fields))
        }
        _ => unreachable!(),
    })
}

/// What one extension (type, data) decodes to under the *generic* rules: typed variant for the
/// 26 known types, Grease for RFC 8701 values, Unknown otherwise.
pub fn ext_value(t: u16, d: Rd) -> Bd {
    if is_rfc8701_grease(t) {
        let mut d = d;
        return BM(n("Grease", vec![u(t as u64), d.rest()]));
    }
    match ext_content(t, d) {
        Some(b) => b,
        None => {
            let mut d = d;
            BM(n("Unknown", vec![u(t as u64), d.rest()]))
        }
    }
}

pub fn ext_unknown(t: u16, d: Rd) -> V {
    let mut d = d;
    n("Unknown", vec![u(t as u64), d.rest()])
}

/// One extension at the start of `r` (generic dispatcher): verdict; `r` advanced past it if framed.
pub fn extension(r: &mut Rd) -> Bd {
    let (Some(t), Some(l)) = (r.u16(), r.u16()) else { return BR("extension header cut") };
    let Some(d) = r.sub(l as usize) else { return BR("extension length exceeds the enclosing block") };
    ext_value(t as u16, d)
}

/// `parse_tls_extension` on a whole input
pub fn ref_extension(b: &[u8]) -> Ref {
    let mut r = Rd::new(b);
    match extension(&mut r) {
        BM(v) => Ref::Must(v, r.off),
        BR(w) => Ref::Reject(w),
        BU(w) => Ref::Unspec(w),
    }
}

/// `parse_tls_extensions` on a block: one element per extension in wire order, whole block consumed.
/// A malformed / overshooting extension ends the list (the rest is the remainder): that case is
/// `Unspec` unless the block is well-formed throughout.
pub fn ref_extensions(b: &[u8]) -> Ref {
    let mut r = Rd::new(b);
    let mut v = Vec::new();
    while !r.is_empty() {
        let mut t = r;
        match extension(&mut t) {
            BM(x) => {
                v.push(x);
                r = t;
            }
            BR(_) => return Ref::Unspec("malformed extension inside the block"),
            BU(w) => return Ref::Unspec(w),
        }
    }
    Ref::Must(V::L(v), b.len())
}

// ---------------------------------------------------------------- DTLS

/// One DTLS handshake message (12-byte header).
pub fn dtls_handshake_message(r: &mut Rd) -> (Bd, bool) {
    let (Some(ht), Some(length), Some(seq), Some(foff), Some(flen)) = (r.u8(), r.u24(), r.u16(), r.u24(), r.u24()) else {
        return (BR("DTLS handshake header cut"), false);
    };
    let Some(body) = r.sub(flen as usize) else { return (BR("DTLS fragment cut"), false) };
    let wrap = |b: V| n("DHS", vec![u(ht), u(length), u(seq), u(foff), u(flen), b]);
    if foff > 0 || flen < length {
        let mut body = body;
        return (BM(wrap(n("Fragment", vec![body.rest()]))), true);
    }
    if flen > length {
        return (BU("fragment length larger than the message length"), true);
    }
    let b = match ht {
        1 => body_client_hello(body, true),
        2 => body_server_hello(body, true),
        3 => {
            let mut b = body;
            let Some(v) = b.u16() else { return (BR("version cut"), true) };
            let Some(cl) = b.u8() else { return (BR("cookie length cut"), true) };
            let Some(c) = b.take(cl as usize) else { return (BR("cookie cut"), true) };
            if !b.is_empty() {
                return (BU("trailing bytes after HelloVerifyRequest"), true);
            }
            BM(n("HelloVerifyRequest", vec![u(v), c]))
        }
        11 => body_certificate(body),
        14 => {
            let mut b = body;
            BM(n("ServerDone", vec![b.rest()]))
        }
        16 => {
            let mut b = body;
            BM(n("ClientKeyExchange", vec![n("Unknown", vec![b.rest()])]))
        }
        _ => return (BU("handshake type not supported by the DTLS parser"), true),
    };
    match b {
        BM(v) => (BM(wrap(v)), true),
        o => (o, true),
    }
}

pub fn ref_dtls_handshake_message(b: &[u8]) -> Ref {
    let mut r = Rd::new(b);
    match dtls_handshake_message(&mut r) {
        (BM(v), _) => Ref::Must(v, r.off),
        (BR(w), _) => Ref::Reject(w),
        (BU(w), _) => Ref::Unspec(w),
    }
}

/// (type, version, epoch, sequence, length) of a 13-byte DTLS header
pub fn dtls_header(r: &mut Rd) -> Option<(u64, u64, u64, u64, u64)> {
    let ty = r.u8()?;
    let ver = r.u16()?;
    let epoch = r.u16()?;
    let seq = r.uint(6)?;
    let len = r.u16()?;
    Some((ty, ver, epoch, seq, len))
}

/// `parse_dtls_plaintext_record`
pub fn ref_dtls_plaintext(b: &[u8]) -> Ref {
    let mut r = Rd::new(b);
    let Some((ty, ver, epoch, seq, len)) = dtls_header(&mut r) else { return Ref::Reject("DTLS header cut") };
    if len as usize > MAX_RECORD_LEN {
        return Ref::Reject("TooLarge");
    }
    let Some(p) = r.sub(len as usize) else { return Ref::Reject("DTLS payload cut") };
    let hdr = n("DHdr", vec![u(ty), u(ver), u(epoch), u(seq), u(len)]);
    match record_payload(ty as u8, p.b, p.off, true) {
        Payload::Must(msgs, _) => Ref::Must(n("DPlaintext", vec![hdr, V::L(msgs)]), 13 + len as usize),
        Payload::Reject(w) => Ref::Reject(w),
        Payload::Unspec(w) => Ref::Unspec(w),
    }
}

// ---------------------------------------------------------------- key exchange, signatures, SCT

fn lv(r: &mut Rd, w: usize) -> Option<V> {
    let l = r.uint(w)? as usize;
    r.take(l)
}

pub fn ref_dh_params(b: &[u8]) -> Ref {
    let mut r = Rd::new(b);
    let (Some(p), Some(g), Some(y)) = (lv(&mut r, 2), lv(&mut r, 2), lv(&mut r, 2)) else {
        return Ref::Reject("DH parameter cut");
    };
    Ref::Must(n("DH", vec![p, g, y]), r.off)
}

fn ec_parameters(r: &mut Rd) -> Bd {
    let Some(ct) = r.u8() else { return BR("curve type cut") };
    match ct {
        3 => match r.u16() {
            Some(g) => BM(n("ECParameters", vec![u(3), n("NamedGroup", vec![u(g)])])),
            None => BR("named group cut"),
        },
        1 => {
            let mut f = Vec::new();
            for _ in 0..6 {
                match lv(r, 1) {
                    Some(x) => f.push(x),
                    None => return BR("explicit prime field cut"),
                }
            }
            BM(n("ECParameters", vec![u(1), n("ExplicitPrime", f)]))
        }
        _ => BR("unsupported curve type"),
    }
}

pub fn ref_ec_parameters(b: &[u8]) -> Ref {
    let mut r = Rd::new(b);
    match ec_parameters(&mut r) {
        BM(v) => Ref::Must(v, r.off),
        BR(w) => Ref::Reject(w),
        BU(w) => Ref::Unspec(w),
    }
}

pub fn ref_ecdh_params(b: &[u8]) -> Ref {
    let mut r = Rd::new(b);
    match ec_parameters(&mut r) {
        BM(v) => match lv(&mut r, 1) {
            Some(p) => Ref::Must(n("ECDH", vec![v, n("ECPoint", vec![p])]), r.off),
            None => Ref::Reject("EC point cut"),
        },
        BR(w) => Ref::Reject(w),
        BU(w) => Ref::Unspec(w),
    }
}

pub fn ref_ec_point(b: &[u8]) -> Ref {
    let mut r = Rd::new(b);
    match lv(&mut r, 1) {
        Some(p) => Ref::Must(n("ECPoint", vec![p]), r.off),
        None => Ref::Reject("EC point cut"),
    }
}

fn digitally_signed(r: &mut Rd, with_alg: bool) -> Option<V> {
    let alg = if with_alg {
        let h = r.u8()?;
        let s = r.u8()?;
        V::some(n("Alg", vec![u(h), u(s)]))
    } else {
        V::None
    };
    let d = lv(r, 2)?;
    Some(n("Signed", vec![alg, d]))
}

pub fn ref_digitally_signed(b: &[u8], with_alg: bool) -> Ref {
    let mut r = Rd::new(b);
    match digitally_signed(&mut r, with_alg) {
        Some(v) => Ref::Must(v, r.off),
        None => Ref::Reject("signature cut"),
    }
}

/// content of one SCT entry (already isolated by its length prefix)
fn sct_content(mut r: Rd) -> Bd {
    let Some(ver) = r.u8() else { return BR("SCT cut") };
    let Some(id) = r.take(32) else { return BR("SCT log id cut") };
    let Some(ts) = r.uint(8) else { return BR("SCT timestamp cut") };
    let Some(ext) = lv(&mut r, 2) else { return BR("SCT extensions overshoot the entry") };
    let Some(sig) = digitally_signed(&mut r, true) else { return BR("SCT signature overshoots the entry") };
    if !r.is_empty() {
        return BU("trailing bytes inside an SCT entry");
    }
    BM(n("SCT", vec![u(ver), id, u(ts), ext, sig]))
}

/// `parse_ct_signed_certificate_timestamp`: one length-prefixed entry
pub fn ref_sct(b: &[u8]) -> Ref {
    let mut r = Rd::new(b);
    let Some(l) = r.u16() else { return Ref::Reject("SCT length cut") };
    let Some(e) = r.sub(l as usize) else { return Ref::Reject("SCT entry overshoots the input") };
    match sct_content(e) {
        BM(v) => Ref::Must(v, r.off),
        BR(w) => Ref::Reject(w),
        BU(w) => Ref::Unspec(w),
    }
}

/// `parse_ct_signed_certificate_timestamp_list`. Also returns, for the "never yields an SCT"
/// clause, the number of SCTs that may come out at most when an entry overshoots the list or is
/// cut by its own length (`None`: no bound can be stated, e.g. trailing bytes inside an entry).
pub fn ref_sct_list(b: &[u8]) -> (Ref, Option<usize>) {
    let mut r = Rd::new(b);
    let Some(l) = r.u16() else { return (Ref::Reject("SCT list length cut"), Some(0)) };
    let Some(mut list) = r.sub(l as usize) else { return (Ref::Reject("SCT list overshoots the input"), Some(0)) };
    let mut v = Vec::new();
    while !list.is_empty() {
        let mut t = list;
        let Some(el) = t.u16() else { return (Ref::Unspec("stray byte in the SCT list"), Some(v.len())) };
        let Some(e) = t.sub(el as usize) else { return (Ref::Unspec("SCT entry overshoots the list"), Some(v.len())) };
        match sct_content(e) {
            BM(x) => {
                v.push(x);
                list = t;
            }
            BR(_) => return (Ref::Unspec("malformed SCT entry inside the list"), Some(v.len())),
            BU(w) => return (Ref::Unspec(w), None),
        }
    }
    let k = v.len();
    (Ref::Must(V::L(v), r.off), Some(k))
}
