//! IANA / RFC registries, transcribed from the RFCs (not from the crate). Keyed by the constant
//! names the crate exposes, plus further assigned values the crate does not name (`extra`), which
//! are only used to recognise a newly added, correct constant.

pub struct Registry {
    pub ty: &'static str,
    pub bits: u32,
    pub names: &'static [(&'static str, u64)],
}

pub const RECORD_TYPE: Registry = Registry {
    ty: "TlsRecordType",
    bits: 8,
    names: &[
        ("ChangeCipherSpec", 20),
        ("Alert", 21),
        ("Handshake", 22),
        ("ApplicationData", 23),
        ("Heartbeat", 24),
    ],
};

pub const HANDSHAKE_TYPE: Registry = Registry {
    ty: "TlsHandshakeType",
    bits: 8,
    names: &[
        ("HelloRequest", 0),
        ("ClientHello", 1),
        ("ServerHello", 2),
        ("HelloVerifyRequest", 3),
        ("NewSessionTicket", 4),
        ("EndOfEarlyData", 5),
        ("HelloRetryRequest", 6),
        ("EncryptedExtensions", 8),
        ("Certificate", 11),
        ("ServerKeyExchange", 12),
        ("CertificateRequest", 13),
        ("ServerDone", 14),
        ("CertificateVerify", 15),
        ("ClientKeyExchange", 16),
        ("Finished", 20),
        ("CertificateURL", 21),
        ("CertificateStatus", 22),
        ("KeyUpdate", 24),
        ("NextProtocol", 67),
    ],
};

pub const VERSION: Registry = Registry {
    ty: "TlsVersion",
    bits: 16,
    names: &[
        ("Ssl30", 0x0300),
        ("Tls10", 0x0301),
        ("Tls11", 0x0302),
        ("Tls12", 0x0303),
        ("Tls13", 0x0304),
        ("Tls13Draft18", 0x7f12),
        ("Tls13Draft19", 0x7f13),
        ("Tls13Draft20", 0x7f14),
        ("Tls13Draft21", 0x7f15),
        ("Tls13Draft22", 0x7f16),
        ("Tls13Draft23", 0x7f17),
        ("DTls10", 0xfeff),
        // never assigned by the IETF; the one's-complement encoding of "1.1" used by the crate
        ("DTls11", 0xfefe),
        ("DTls12", 0xfefd),
    ],
};

pub const HEARTBEAT_TYPE: Registry = Registry {
    ty: "TlsHeartbeatMessageType",
    bits: 8,
    names: &[("HeartBeatRequest", 1), ("HeartBeatResponse", 2)],
};

pub const COMPRESSION: Registry = Registry {
    ty: "TlsCompressionID",
    bits: 8,
    names: &[("Null", 0), ("Deflate", 1)],
};

pub const KEY_UPDATE: Registry = Registry {
    ty: "KeyUpdateRequest",
    bits: 8,
    names: &[("NotRequested", 0), ("Requested", 1)],
};

pub const ALERT_SEVERITY: Registry = Registry {
    ty: "TlsAlertSeverity",
    bits: 8,
    names: &[("Warning", 1), ("Fatal", 2)],
};

pub const ALERT_DESCRIPTION: Registry = Registry {
    ty: "TlsAlertDescription",
    bits: 8,
    names: &[
        ("CloseNotify", 0),
        ("UnexpectedMessage", 10),
        ("BadRecordMac", 20),
        ("DecryptionFailed", 21),
        ("RecordOverflow", 22),
        ("DecompressionFailure", 30),
        ("HandshakeFailure", 40),
        ("NoCertificate", 41),
        ("BadCertificate", 42),
        ("UnsupportedCertificate", 43),
        ("CertificateRevoked", 44),
        ("CertificateExpired", 45),
        ("CertificateUnknown", 46),
        ("IllegalParameter", 47),
        ("UnknownCa", 48),
        ("AccessDenied", 49),
        ("DecodeError", 50),
        ("DecryptError", 51),
        ("ExportRestriction", 60),
        ("ProtocolVersion", 70),
        ("InsufficientSecurity", 71),
        ("InternalError", 80),
        ("InappropriateFallback", 86),
        ("UserCancelled", 90),
        ("NoRenegotiation", 100),
        ("MissingExtension", 109),
        ("UnsupportedExtension", 110),
        ("CertUnobtainable", 111),
        ("UnrecognizedName", 112),
        ("BadCertStatusResponse", 113),
        ("BadCertHashValue", 114),
        ("UnknownPskIdentity", 115),
        ("CertificateRequired", 116),
        ("NoApplicationProtocol", 120),
    ],
};

pub const EXTENSION_TYPE: Registry = Registry {
    ty: "TlsExtensionType",
    bits: 16,
    names: &[
        ("ServerName", 0),
        ("MaxFragmentLength", 1),
        ("ClientCertificate", 2),
        ("TrustedCaKeys", 3),
        ("TruncatedHMac", 4),
        ("StatusRequest", 5),
        ("UserMapping", 6),
        ("ClientAuthz", 7),
        ("ServerAuthz", 8),
        ("CertType", 9),
        ("SupportedGroups", 10),
        ("EcPointFormats", 11),
        ("Srp", 12),
        ("SignatureAlgorithms", 13),
        ("UseSrtp", 14),
        ("Heartbeat", 15),
        ("ApplicationLayerProtocolNegotiation", 16),
        ("StatusRequestv2", 17),
        ("SignedCertificateTimestamp", 18),
        ("ClientCertificateType", 19),
        ("ServerCertificateType", 20),
        ("Padding", 21),
        ("EncryptThenMac", 22),
        ("ExtendedMasterSecret", 23),
        ("TokenBinding", 24),
        ("CachedInfo", 25),
        ("RecordSizeLimit", 28),
        ("SessionTicketTLS", 35),
        ("KeyShareOld", 40),
        ("PreSharedKey", 41),
        ("EarlyData", 42),
        ("SupportedVersions", 43),
        ("Cookie", 44),
        ("PskExchangeModes", 45),
        ("TicketEarlyDataInfo", 46),
        ("CertificateAuthorities", 47),
        ("OidFilters", 48),
        ("PostHandshakeAuth", 49),
        ("SigAlgorithmsCert", 50),
        ("KeyShare", 51),
        ("NextProtocolNegotiation", 13172),
        ("Grease", 0xfafa),
        ("RenegotiationInfo", 0xff01),
        ("EncryptedServerName", 0xffce),
    ],
};

pub const PSK_MODE: Registry = Registry {
    ty: "PskKeyExchangeMode",
    bits: 8,
    names: &[("Psk", 0), ("PskDhe", 1)],
};

pub const SNI_TYPE: Registry = Registry {
    ty: "SNIType",
    bits: 8,
    names: &[("HostName", 0)],
};

pub const STATUS_TYPE: Registry = Registry {
    ty: "CertificateStatusType",
    bits: 8,
    names: &[("OCSP", 1)],
};

/// (name, value, field size in bits if the SEC / Brainpool name states one)
pub const NAMED_GROUPS: &[(&str, u64, Option<u16>)] = &[
    ("Sect163k1", 1, Some(163)),
    ("Sect163r1", 2, Some(163)),
    ("Sect163r2", 3, Some(163)),
    ("Sect193r1", 4, Some(193)),
    ("Sect193r2", 5, Some(193)),
    ("Sect233k1", 6, Some(233)),
    ("Sect233r1", 7, Some(233)),
    ("Sect239k1", 8, Some(239)),
    ("Sect283k1", 9, Some(283)),
    ("Sect283r1", 10, Some(283)),
    ("Sect409k1", 11, Some(409)),
    ("Sect409r1", 12, Some(409)),
    ("Sect571k1", 13, Some(571)),
    ("Sect571r1", 14, Some(571)),
    ("Secp160k1", 15, Some(160)),
    ("Secp160r1", 16, Some(160)),
    ("Secp160r2", 17, Some(160)),
    ("Secp192k1", 18, Some(192)),
    ("Secp192r1", 19, Some(192)),
    ("Secp224k1", 20, Some(224)),
    ("Secp224r1", 21, Some(224)),
    ("Secp256k1", 22, Some(256)),
    ("Secp256r1", 23, Some(256)),
    ("Secp384r1", 24, Some(384)),
    ("Secp521r1", 25, Some(521)),
    ("BrainpoolP256r1", 26, Some(256)),
    ("BrainpoolP384r1", 27, Some(384)),
    ("BrainpoolP512r1", 28, Some(512)),
    // the names of these do not state a field size: key_bits is not constrained for them
    ("EcdhX25519", 29, None),
    ("EcdhX448", 30, None),
    ("BrainpoolP256r1tls13", 31, Some(256)),
    ("BrainpoolP384r1tls13", 32, Some(384)),
    ("BrainpoolP512r1tls13", 33, Some(512)),
    ("Sm2", 41, None),
    ("Ffdhe2048", 0x100, None),
    ("Ffdhe3072", 0x101, None),
    ("Ffdhe4096", 0x102, None),
    ("Ffdhe6144", 0x103, None),
    ("Ffdhe8192", 0x104, None),
    ("ArbitraryExplicitPrimeCurves", 0xFF01, None),
    ("ArbitraryExplicitChar2Curves", 0xFF02, None),
];

/// Values assigned in the IANA Supported Groups registry (incl. ones the crate does not name):
/// key_bits() must be None outside this set.
pub const REGISTERED_GROUPS: &[u64] = &[
    1, 2, 3, 4, 5, 6, 7, 8, 9, 10, 11, 12, 13, 14, 15, 16, 17, 18, 19, 20, 21, 22, 23, 24, 25, 26, 27, 28, 29, 30, 31, 32,
    33, 34, 35, 36, 37, 38, 39, 40, 41, 256, 257, 258, 259, 260, 0x0200, 0x0201, 0x0202, 0x11EB, 0x11EC, 0x11ED, 0x6399, 0x639A, 0xFF01, 0xFF02,
];

pub const CURVE_TYPE: Registry = Registry {
    ty: "ECCurveType",
    bits: 8,
    names: &[("ExplicitPrime", 1), ("ExplicitChar2", 2), ("NamedGroup", 3)],
};

pub const HASH_ALG: Registry = Registry {
    ty: "HashAlgorithm",
    bits: 8,
    names: &[
        ("None", 0),
        ("Md5", 1),
        ("Sha1", 2),
        ("Sha224", 3),
        ("Sha256", 4),
        ("Sha384", 5),
        ("Sha512", 6),
        ("Intrinsic", 8),
    ],
};

pub const SIGN_ALG: Registry = Registry {
    ty: "SignAlgorithm",
    bits: 8,
    names: &[
        ("Anonymous", 0),
        ("Rsa", 1),
        ("Dsa", 2),
        ("Ecdsa", 3),
        ("Ed25519", 7),
        ("Ed448", 8),
    ],
};

pub const SIGNATURE_SCHEME: Registry = Registry {
    ty: "SignatureScheme",
    bits: 16,
    names: &[
        ("rsa_pkcs1_sha256", 0x0401),
        ("rsa_pkcs1_sha384", 0x0501),
        ("rsa_pkcs1_sha512", 0x0601),
        ("ecdsa_secp256r1_sha256", 0x0403),
        ("ecdsa_secp384r1_sha384", 0x0503),
        ("ecdsa_secp521r1_sha512", 0x0603),
        ("sm2sig_sm3", 0x0708),
        ("rsa_pss_rsae_sha256", 0x0804),
        ("rsa_pss_rsae_sha384", 0x0805),
        ("rsa_pss_rsae_sha512", 0x0806),
        ("ed25519", 0x0807),
        ("ed448", 0x0808),
        ("rsa_pss_pss_sha256", 0x0809),
        ("rsa_pss_pss_sha384", 0x080a),
        ("rsa_pss_pss_sha512", 0x080b),
        ("ecdsa_brainpoolP256r1tls13_sha256", 0x081a),
        ("ecdsa_brainpoolP384r1tls13_sha384", 0x081b),
        ("ecdsa_brainpoolP512r1tls13_sha512", 0x081c),
        ("rsa_pkcs1_sha1", 0x0201),
        ("ecdsa_sha1", 0x0203),
    ],
};

pub const CT_VERSION: Registry = Registry {
    ty: "CtVersion",
    bits: 8,
    names: &[("V1", 0)],
};

impl Registry {
    pub fn value_of(&self, name: &str) -> Option<u64> {
        self.names.iter().find(|(n, _)| *n == name).map(|(_, v)| *v)
    }
    pub fn name_of(&self, v: u64) -> Option<&'static str> {
        self.names.iter().find(|(_, x)| *x == v).map(|(n, _)| *n)
    }
}

/// The 16 GREASE code points of RFC 8701 (extensions, groups, versions, cipher suites).
pub fn is_rfc8701_grease(t: u16) -> bool {
    (t & 0x0f0f) == 0x0a0a && (t >> 8) == (t & 0xff)
}

/// The 26 extension types the crate's generic dispatcher is expected to decode into typed variants.
pub const KNOWN_EXT_TYPES: [u16; 26] = [
    0, 1, 5, 10, 11, 13, 15, 16, 18, 21, 22, 23, 28, 35, 40, 41, 42, 43, 44, 45, 48, 49, 51, 13172, 0xff01, 0xffce,
];

/// Further IANA assignments the crate does not name today: (registry type, value, IANA name).
/// Used to judge constants that are added later: the printed name must belong to that value.
pub const EXTRA_ASSIGNMENTS: &[(&str, u64, &str)] = &[
    ("NamedGroup", 34, "GC256A"),
    ("NamedGroup", 35, "GC256B"),
    ("NamedGroup", 36, "GC256C"),
    ("NamedGroup", 37, "GC256D"),
    ("NamedGroup", 38, "GC512A"),
    ("NamedGroup", 39, "GC512B"),
    ("NamedGroup", 40, "GC512C"),
    ("NamedGroup", 0x0200, "MLKEM512"),
    ("NamedGroup", 0x0201, "MLKEM768"),
    ("NamedGroup", 0x0202, "MLKEM1024"),
    ("NamedGroup", 0x11EB, "SecP256r1MLKEM768"),
    ("NamedGroup", 0x11EC, "X25519MLKEM768"),
    ("NamedGroup", 0x11ED, "SecP384r1MLKEM1024"),
    ("NamedGroup", 0x6399, "X25519Kyber768Draft00"),
    ("NamedGroup", 0x639A, "SecP256r1Kyber768Draft00"),
    ("TlsExtensionType", 27, "compress_certificate"),
    ("TlsExtensionType", 34, "delegated_credential"),
    ("TlsExtensionType", 54, "connection_id"),
    ("TlsExtensionType", 57, "quic_transport_parameters"),
    ("TlsExtensionType", 58, "ticket_request"),
    ("TlsExtensionType", 59, "dnssec_chain"),
    ("TlsExtensionType", 0xfd00, "ech_outer_extensions"),
    ("TlsExtensionType", 0xfe0d, "encrypted_client_hello"),
    ("SignatureScheme", 0x0420, "rsa_pkcs1_sha256_legacy"),
    ("SignatureScheme", 0x0520, "rsa_pkcs1_sha384_legacy"),
    ("SignatureScheme", 0x0620, "rsa_pkcs1_sha512_legacy"),
    ("TlsAlertDescription", 121, "ech_required"),
    ("TlsHandshakeType", 25, "compressed_certificate"),
    ("TlsHandshakeType", 254, "message_hash"),
    ("TlsRecordType", 25, "tls12_cid"),
    ("TlsRecordType", 26, "ACK"),
    ("TlsCompressionID", 64, "LZS"),
    ("ECCurveType", 2, "explicit_char2"),
];

/// compare names ignoring case, underscores and other punctuation
pub fn norm_name(s: &str) -> String {
    s.chars().filter(|c| c.is_ascii_alphanumeric()).map(|c| c.to_ascii_lowercase()).collect()
}

/// Official IANA names (TLS parameters registries) per registry type: used to judge constants that appear in
/// the crate under a spelling the tables above do not list (aliases, new constants): a constant whose name,
/// ignoring case / underscores and a _RESERVED suffix, is an official name must have that name's value.
pub const OFFICIAL_NAMES: &[(&str, u64, &str)] = &[
    ("TlsAlertDescription", 0, "close_notify"), ("TlsAlertDescription", 10, "unexpected_message"), ("TlsAlertDescription", 20, "bad_record_mac"),
    ("TlsAlertDescription", 21, "decryption_failed"), ("TlsAlertDescription", 22, "record_overflow"), ("TlsAlertDescription", 30, "decompression_failure"),
    ("TlsAlertDescription", 40, "handshake_failure"), ("TlsAlertDescription", 41, "no_certificate"), ("TlsAlertDescription", 42, "bad_certificate"),
    ("TlsAlertDescription", 43, "unsupported_certificate"), ("TlsAlertDescription", 44, "certificate_revoked"), ("TlsAlertDescription", 45, "certificate_expired"),
    ("TlsAlertDescription", 46, "certificate_unknown"), ("TlsAlertDescription", 47, "illegal_parameter"), ("TlsAlertDescription", 48, "unknown_ca"),
    ("TlsAlertDescription", 49, "access_denied"), ("TlsAlertDescription", 50, "decode_error"), ("TlsAlertDescription", 51, "decrypt_error"),
    ("TlsAlertDescription", 52, "too_many_cids_requested"), ("TlsAlertDescription", 60, "export_restriction"), ("TlsAlertDescription", 70, "protocol_version"),
    ("TlsAlertDescription", 71, "insufficient_security"), ("TlsAlertDescription", 80, "internal_error"), ("TlsAlertDescription", 86, "inappropriate_fallback"),
    ("TlsAlertDescription", 90, "user_canceled"), ("TlsAlertDescription", 100, "no_renegotiation"), ("TlsAlertDescription", 109, "missing_extension"),
    ("TlsAlertDescription", 110, "unsupported_extension"), ("TlsAlertDescription", 111, "certificate_unobtainable"), ("TlsAlertDescription", 112, "unrecognized_name"),
    ("TlsAlertDescription", 113, "bad_certificate_status_response"), ("TlsAlertDescription", 114, "bad_certificate_hash_value"), ("TlsAlertDescription", 115, "unknown_psk_identity"),
    ("TlsAlertDescription", 116, "certificate_required"), ("TlsAlertDescription", 117, "general_error"), ("TlsAlertDescription", 120, "no_application_protocol"),
    ("TlsAlertDescription", 121, "ech_required"),
    ("TlsAlertSeverity", 1, "warning"), ("TlsAlertSeverity", 2, "fatal"),
    ("TlsHandshakeType", 0, "hello_request"), ("TlsHandshakeType", 1, "client_hello"), ("TlsHandshakeType", 2, "server_hello"),
    ("TlsHandshakeType", 3, "hello_verify_request"), ("TlsHandshakeType", 4, "new_session_ticket"), ("TlsHandshakeType", 5, "end_of_early_data"),
    ("TlsHandshakeType", 6, "hello_retry_request"), ("TlsHandshakeType", 8, "encrypted_extensions"), ("TlsHandshakeType", 9, "request_connection_id"),
    ("TlsHandshakeType", 10, "new_connection_id"), ("TlsHandshakeType", 11, "certificate"), ("TlsHandshakeType", 12, "server_key_exchange"),
    ("TlsHandshakeType", 13, "certificate_request"), ("TlsHandshakeType", 14, "server_hello_done"), ("TlsHandshakeType", 15, "certificate_verify"),
    ("TlsHandshakeType", 16, "client_key_exchange"), ("TlsHandshakeType", 17, "client_certificate_request"), ("TlsHandshakeType", 20, "finished"),
    ("TlsHandshakeType", 21, "certificate_url"), ("TlsHandshakeType", 22, "certificate_status"), ("TlsHandshakeType", 23, "supplemental_data"),
    ("TlsHandshakeType", 24, "key_update"), ("TlsHandshakeType", 25, "compressed_certificate"), ("TlsHandshakeType", 26, "ekt_key"),
    ("TlsHandshakeType", 254, "message_hash"),
    ("TlsRecordType", 20, "change_cipher_spec"), ("TlsRecordType", 21, "alert"), ("TlsRecordType", 22, "handshake"),
    ("TlsRecordType", 23, "application_data"), ("TlsRecordType", 24, "heartbeat"), ("TlsRecordType", 25, "tls12_cid"), ("TlsRecordType", 26, "ack"),
    ("TlsExtensionType", 0, "server_name"), ("TlsExtensionType", 1, "max_fragment_length"), ("TlsExtensionType", 2, "client_certificate_url"),
    ("TlsExtensionType", 3, "trusted_ca_keys"), ("TlsExtensionType", 4, "truncated_hmac"), ("TlsExtensionType", 5, "status_request"),
    ("TlsExtensionType", 6, "user_mapping"), ("TlsExtensionType", 7, "client_authz"), ("TlsExtensionType", 8, "server_authz"),
    ("TlsExtensionType", 9, "cert_type"), ("TlsExtensionType", 10, "supported_groups"), ("TlsExtensionType", 10, "elliptic_curves"),
    ("TlsExtensionType", 11, "ec_point_formats"), ("TlsExtensionType", 12, "srp"), ("TlsExtensionType", 13, "signature_algorithms"),
    ("TlsExtensionType", 14, "use_srtp"), ("TlsExtensionType", 15, "heartbeat"), ("TlsExtensionType", 16, "application_layer_protocol_negotiation"),
    ("TlsExtensionType", 17, "status_request_v2"), ("TlsExtensionType", 18, "signed_certificate_timestamp"), ("TlsExtensionType", 19, "client_certificate_type"),
    ("TlsExtensionType", 20, "server_certificate_type"), ("TlsExtensionType", 21, "padding"), ("TlsExtensionType", 22, "encrypt_then_mac"),
    ("TlsExtensionType", 23, "extended_master_secret"), ("TlsExtensionType", 24, "token_binding"), ("TlsExtensionType", 25, "cached_info"),
    ("TlsExtensionType", 26, "tls_lts"), ("TlsExtensionType", 27, "compress_certificate"), ("TlsExtensionType", 28, "record_size_limit"),
    ("TlsExtensionType", 29, "pwd_protect"), ("TlsExtensionType", 30, "pwd_clear"), ("TlsExtensionType", 31, "password_salt"),
    ("TlsExtensionType", 32, "ticket_pinning"), ("TlsExtensionType", 33, "tls_cert_with_extern_psk"), ("TlsExtensionType", 34, "delegated_credential"),
    ("TlsExtensionType", 35, "session_ticket"), ("TlsExtensionType", 39, "supported_ekt_ciphers"), ("TlsExtensionType", 41, "pre_shared_key"),
    ("TlsExtensionType", 42, "early_data"), ("TlsExtensionType", 43, "supported_versions"), ("TlsExtensionType", 44, "cookie"),
    ("TlsExtensionType", 45, "psk_key_exchange_modes"), ("TlsExtensionType", 47, "certificate_authorities"), ("TlsExtensionType", 48, "oid_filters"),
    ("TlsExtensionType", 49, "post_handshake_auth"), ("TlsExtensionType", 50, "signature_algorithms_cert"), ("TlsExtensionType", 51, "key_share"),
    ("TlsExtensionType", 52, "transparency_info"), ("TlsExtensionType", 54, "connection_id"), ("TlsExtensionType", 55, "external_id_hash"),
    ("TlsExtensionType", 56, "external_session_id"), ("TlsExtensionType", 57, "quic_transport_parameters"), ("TlsExtensionType", 58, "ticket_request"),
    ("TlsExtensionType", 59, "dnssec_chain"), ("TlsExtensionType", 65281, "renegotiation_info"), ("TlsExtensionType", 64768, "ech_outer_extensions"),
    ("TlsExtensionType", 65037, "encrypted_client_hello"),
    ("HashAlgorithm", 0, "none"), ("HashAlgorithm", 1, "md5"), ("HashAlgorithm", 2, "sha1"), ("HashAlgorithm", 3, "sha224"),
    ("HashAlgorithm", 4, "sha256"), ("HashAlgorithm", 5, "sha384"), ("HashAlgorithm", 6, "sha512"), ("HashAlgorithm", 8, "intrinsic"),
    ("SignAlgorithm", 0, "anonymous"), ("SignAlgorithm", 1, "rsa"), ("SignAlgorithm", 2, "dsa"), ("SignAlgorithm", 3, "ecdsa"),
    ("SignAlgorithm", 7, "ed25519"), ("SignAlgorithm", 8, "ed448"),
    ("TlsHeartbeatMessageType", 1, "heartbeat_request"), ("TlsHeartbeatMessageType", 2, "heartbeat_response"),
    ("PskKeyExchangeMode", 0, "psk_ke"), ("PskKeyExchangeMode", 1, "psk_dhe_ke"),
    ("SNIType", 0, "host_name"),
    ("CertificateStatusType", 1, "ocsp"), ("CertificateStatusType", 2, "ocsp_multi"),
    ("ECCurveType", 1, "explicit_prime"), ("ECCurveType", 2, "explicit_char2"), ("ECCurveType", 3, "named_curve"),
    ("KeyUpdateRequest", 0, "update_not_requested"), ("KeyUpdateRequest", 1, "update_requested"),
];
