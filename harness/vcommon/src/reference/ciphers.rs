//! Reference data for the cipher-suite registry (C12): an independent reader of the colon
//! separated registry file and the naming-convention tables of the IANA names.

#[derive(Clone, Debug, PartialEq, Eq)]
pub struct Row {
    pub id: u16,
    pub name: String,
    pub kx: String,
    pub au: String,
    pub enc: String,
    pub mode: String,
    pub key_bits: u16,
    pub mac: String,
    pub mac_bits: u16,
    pub prf: String,
}

/// Parse the registry file: 15 colon-separated columns per line.
pub fn parse_registry(text: &str) -> Result<Vec<Row>, String> {
    let mut rows = Vec::new();
    for (n, line) in text.lines().enumerate() {
        if line.trim().is_empty() {
            continue;
        }
        let f: Vec<&str> = line.split(':').collect();
        if f.len() < 10 {
            return Err(format!("line {}: {} columns", n + 1, f.len()));
        }
        rows.push(Row {
            id: u16::from_str_radix(f[0], 16).map_err(|e| format!("line {}: id: {}", n + 1, e))?,
            name: f[1].to_string(),
            kx: f[2].to_string(),
            au: f[3].to_string(),
            enc: f[4].to_string(),
            mode: f[5].to_string(),
            key_bits: f[6].parse().map_err(|e| format!("line {}: key bits: {}", n + 1, e))?,
            mac: f[7].to_string(),
            mac_bits: f[8].parse().map_err(|e| format!("line {}: mac bits: {}", n + 1, e))?,
            prf: f[9].to_string(),
        });
    }
    Ok(rows)
}

/// IANA naming convention: the part before `_WITH_` states key exchange and authentication.
pub const PREFIX_KX_AU: &[(&str, &str, &str)] = &[
    ("TLS_DHE_DSS", "DHE", "DSS"),
    ("TLS_DHE_DSS_EXPORT", "DHE", "DSS"),
    ("TLS_DHE_DSS_EXPORT1024", "DHE", "DSS"),
    ("TLS_DHE_PSK", "DHE", "PSK"),
    ("TLS_DHE_RSA", "DHE", "RSA"),
    ("TLS_DHE_RSA_EXPORT", "DHE", "RSA"),
    ("TLS_DH_DSS", "DH", "DSS"),
    ("TLS_DH_DSS_EXPORT", "DH", "DSS"),
    ("TLS_DH_RSA", "DH", "RSA"),
    ("TLS_DH_RSA_EXPORT", "DH", "RSA"),
    ("TLS_DH_anon", "DH", "NULL"),
    ("TLS_DH_anon_EXPORT", "DH", "NULL"),
    ("TLS_ECCPWD", "ECCPWD", "ECCPWD"),
    ("TLS_ECDHE_ECDSA", "ECDHE", "ECDSA"),
    ("TLS_ECDHE_PSK", "ECDHE", "PSK"),
    ("TLS_ECDHE_RSA", "ECDHE", "RSA"),
    ("TLS_ECDH_ECDSA", "ECDH", "ECDSA"),
    ("TLS_ECDH_RSA", "ECDH", "RSA"),
    ("TLS_ECDH_anon", "ECDH", "NULL"),
    ("TLS_KRB5", "KRB5", "KRB5"),
    ("TLS_KRB5_EXPORT", "KRB5", "KRB5"),
    ("TLS_NULL", "NULL", "NULL"),
    ("TLS_PSK", "PSK", "PSK"),
    ("TLS_PSK_DHE", "DHE", "PSK"),
    ("TLS_RSA", "RSA", "RSA"),
    ("TLS_RSA_EXPORT", "RSA", "RSA"),
    ("TLS_RSA_EXPORT1024", "RSA", "RSA"),
    ("TLS_RSA_PSK", "RSA", "PSK"),
    ("TLS_SRP_SHA", "SRP", "SRP"),
    ("TLS_SRP_SHA_DSS", "SRP", "SRP+DSS"),
    ("TLS_SRP_SHA_RSA", "SRP", "SRP+RSA"),
];

/// Decode the algorithm tokens after `_WITH_` (or after `TLS_` for TLS 1.3 style names):
/// (cipher, mode, key bits, hash suffix or None). `None` = the name uses tokens this table does
/// not know (not judged).
pub fn suffix_tokens(suffix: &str) -> Option<(&'static str, &'static str, u16, Option<&'static str>)> {
    // split off the hash suffix
    let (body, hash): (&str, Option<&'static str>) = if let Some(b) = suffix.strip_suffix("_SHA256") {
        (b, Some("SHA256"))
    } else if let Some(b) = suffix.strip_suffix("_SHA384") {
        (b, Some("SHA384"))
    } else if let Some(b) = suffix.strip_suffix("_SHA512") {
        (b, Some("SHA512"))
    } else if let Some(b) = suffix.strip_suffix("_SHA") {
        (b, Some("SHA1"))
    } else if let Some(b) = suffix.strip_suffix("_MD5") {
        (b, Some("MD5"))
    } else if let Some(b) = suffix.strip_suffix("_SM3") {
        (b, Some("SM3"))
    } else if let Some(b) = suffix.strip_suffix("_NULL") {
        (b, Some("NULL"))
    } else {
        (suffix, None)
    };
    let t = match body {
        "3DES_EDE_CBC" => ("3DES", "CBC", 168),
        "AES_128_CBC" => ("AES", "CBC", 128),
        "AES_256_CBC" => ("AES", "CBC", 256),
        "AES_128_CCM" | "AES_128_CCM_8" => ("AES", "CCM", 128),
        "AES_256_CCM" | "AES_256_CCM_8" => ("AES", "CCM", 256),
        "AES_128_GCM" => ("AES", "GCM", 128),
        "AES_256_GCM" => ("AES", "GCM", 256),
        "ARIA_128_CBC" => ("ARIA", "CBC", 128),
        "ARIA_256_CBC" => ("ARIA", "CBC", 256),
        "ARIA_128_GCM" => ("ARIA", "GCM", 128),
        "ARIA_256_GCM" => ("ARIA", "GCM", 256),
        "CAMELLIA_128_CBC" => ("CAMELLIA", "CBC", 128),
        "CAMELLIA_256_CBC" => ("CAMELLIA", "CBC", 256),
        "CAMELLIA_128_GCM" => ("CAMELLIA", "GCM", 128),
        "CAMELLIA_256_GCM" => ("CAMELLIA", "GCM", 256),
        "DES40_CBC" | "DES_CBC_40" => ("DES", "CBC", 40),
        "DES_CBC" => ("DES", "CBC", 56),
        "IDEA_CBC" => ("IDEA", "CBC", 128),
        "NULL" => ("NULL", "", 0),
        "RC2_CBC_40" => ("RC2", "CBC", 40),
        "RC2_CBC_56" => ("RC2", "CBC", 56),
        "RC4_128" => ("RC4", "", 128),
        "RC4_40" => ("RC4", "", 40),
        "RC4_56" => ("RC4", "", 56),
        "SEED_CBC" => ("SEED", "CBC", 128),
        "SM4_GCM" => ("SM4", "GCM", 128),
        "SM4_CCM" => ("SM4", "CCM", 128),
        _ => return None,
    };
    Some((t.0, t.1, t.2, hash))
}

/// Names that do not follow the `<kx>_WITH_<cipher>_<hash>` convention: not judged by the token rules.
pub const IRREGULAR_NAMES: &[&str] = &[
    "TLS_EMPTY_RENEGOTIATION_INFO_SCSV",
    "TLS_FALLBACK_SCSV",
    "TLS_SHA256_SHA256",
    "TLS_SHA384_SHA384",
    "TLS_CHACHA20_POLY1305_SHA256",
    "TLS_AEGIS_256_SHA512",
    "TLS_AEGIS_128L_SHA256",
];

/// expected (mac token, mac bits) for a non-AEAD suite with this hash suffix
pub fn mac_for_hash(h: &str) -> Option<(&'static str, u16)> {
    Some(match h {
        "MD5" => ("HMAC-MD5", 128),
        "SHA1" => ("HMAC-SHA1", 160),
        "SHA256" => ("HMAC-SHA256", 256),
        "SHA384" => ("HMAC-SHA384", 384),
        "SHA512" => ("HMAC-SHA512", 512),
        "NULL" => ("NULL", 0),
        _ => return None,
    })
}
