//! Reference for the handshake state machine (property C08): the intended transition table as
//! data, and the documented flows as regular expressions compiled to an NFA. Transcribed from the
//! property statement and RFC 5246 section 7.3 / RFC 8446 draft-18; nothing here looks at the crate.

pub const STATES: [&str; 25] = [
    "None",
    "ClientHello",
    "AskResumeSession",
    "ResumeSession",
    "ServerHello",
    "Certificate",
    "CertificateSt",
    "ServerKeyExchange",
    "ServerHelloDone",
    "ClientKeyExchange",
    "ClientChangeCipherSpec",
    "CRCertRequest",
    "CRHelloDone",
    "CRCert",
    "CRClientKeyExchange",
    "CRCertVerify",
    "NoCertSKE",
    "NoCertHelloDone",
    "NoCertCKE",
    "PskHelloDone",
    "PskCKE",
    "SessionEncrypted",
    "Alert",
    "Finished",
    "Invalid",
];

pub fn st(name: &str) -> usize {
    STATES
        .iter()
        .position(|s| *s == name)
        .unwrap_or_else(|| panic!("unknown state {}", name))
}

/// message kinds: everything the outcome may depend on besides state and direction
pub const KINDS: [&str; 23] = [
    "HReq", "CH0", "CH1", "SH", "SH13", "NST", "EOED", "HRR", "Cert", "SKE", "CReq", "SHD", "CV", "CKE", "Fin", "CSt",
    "NP", "KU", "CCS", "AlertWarning", "AlertOther", "AppData", "Heartbeat",
];

pub fn kind(name: &str) -> usize {
    KINDS
        .iter()
        .position(|s| *s == name)
        .unwrap_or_else(|| panic!("unknown kind {}", name))
}

/// direction: true = to_server (sent by the client)
pub const C: bool = true;
pub const S: bool = false;

/// (from, kind, direction or None for either, to)
fn rows() -> Vec<(&'static str, &'static str, Option<bool>, &'static str)> {
    let mut r = vec![
        ("None", "CH0", Some(C), "ClientHello"),
        ("None", "CH1", Some(C), "AskResumeSession"),
        ("ClientHello", "SH", Some(S), "ServerHello"),
        ("ClientHello", "SH13", Some(S), "ClientChangeCipherSpec"),
        ("ServerHello", "Cert", Some(S), "Certificate"),
        ("ServerHello", "SKE", Some(S), "NoCertSKE"),
        ("Certificate", "SKE", Some(S), "ServerKeyExchange"),
        ("Certificate", "CSt", Some(S), "CertificateSt"),
        ("Certificate", "CReq", Some(S), "CRCertRequest"),
        ("Certificate", "SHD", Some(S), "PskHelloDone"),
        ("CertificateSt", "SKE", Some(S), "ServerKeyExchange"),
        ("ServerKeyExchange", "SHD", Some(S), "ServerHelloDone"),
        ("ServerKeyExchange", "CReq", Some(S), "CRCertRequest"),
        ("ServerHelloDone", "CKE", Some(C), "ClientKeyExchange"),
        ("CRCertRequest", "SHD", Some(S), "CRHelloDone"),
        ("CRHelloDone", "Cert", Some(C), "CRCert"),
        ("CRCert", "CKE", Some(C), "CRClientKeyExchange"),
        // CertificateVerify is sent by the client only (RFC 5246 7.4.8)
        ("CRClientKeyExchange", "CV", Some(C), "CRCertVerify"),
        ("NoCertSKE", "SHD", Some(S), "NoCertHelloDone"),
        ("NoCertHelloDone", "CKE", Some(C), "NoCertCKE"),
        ("PskHelloDone", "CKE", Some(C), "PskCKE"),
        ("AskResumeSession", "SH", Some(S), "ResumeSession"),
        ("ResumeSession", "Cert", Some(S), "Certificate"),
        ("ClientChangeCipherSpec", "NST", Some(S), "ClientChangeCipherSpec"),
        ("ClientChangeCipherSpec", "CCS", Some(S), "SessionEncrypted"),
        ("AskResumeSession", "CCS", Some(C), "AskResumeSession"),
    ];
    for from in [
        "ClientKeyExchange",
        "CRClientKeyExchange",
        "CRCertVerify",
        "NoCertCKE",
        "PskCKE",
        "ResumeSession",
    ] {
        r.push((from, "CCS", None, "ClientChangeCipherSpec"));
    }
    r
}

/// The reference transition function. `Err(())` = InvalidTransition.
pub fn ref_step(state: usize, k: usize, to_server: bool) -> Result<usize, ()> {
    let s = STATES[state];
    let kn = KINDS[k];
    // global rules first
    if s == "Invalid" {
        return Ok(st("Invalid"));
    }
    if s == "SessionEncrypted" {
        return Ok(st("SessionEncrypted"));
    }
    if s == "Finished" {
        return Ok(st("Invalid"));
    }
    if kn == "HReq" {
        return if s == "None" { Err(()) } else { Ok(state) };
    }
    if kn == "AlertWarning" {
        return Ok(state);
    }
    if kn == "AlertOther" {
        return Ok(st("Finished"));
    }
    for (from, kk, dir, to) in rows() {
        if from == s && kk == kn && dir.map_or(true, |d| d == to_server) {
            return Ok(st(to));
        }
    }
    Err(())
}

// ---------------------------------------------------------------- flows as regular expressions

#[derive(Clone, Debug)]
pub enum Re {
    Eps,
    /// kind, direction (None = either)
    Sym(usize, Option<bool>),
    Seq(Vec<Re>),
    Alt(Vec<Re>),
    Star(Box<Re>),
    Opt(Box<Re>),
}

fn sym(k: &str, d: Option<bool>) -> Re {
    Re::Sym(kind(k), d)
}

/// The documented flows (DESIGN appendix A), each ending when SessionEncrypted is reached.
pub fn flows() -> Re {
    use Re::*;
    let c = Some(C);
    let s = Some(S);
    let tail = Seq(vec![Star(Box::new(sym("NST", s))), sym("CCS", s)]);
    let client0 = Seq(vec![sym("CKE", c), sym("CCS", None), tail.clone()]);
    let client_cr = Seq(vec![
        sym("Cert", c),
        sym("CKE", c),
        Opt(Box::new(sym("CV", c))),
        sym("CCS", None),
        tail.clone(),
    ]);
    let after_cert = Seq(vec![
        Alt(vec![Eps, sym("SKE", s), Seq(vec![sym("CSt", s), sym("SKE", s)])]),
        Alt(vec![
            Seq(vec![sym("SHD", s), client0.clone()]),
            Seq(vec![sym("CReq", s), sym("SHD", s), client_cr]),
        ]),
    ]);
    let full = Seq(vec![sym("CH0", c), sym("SH", s), sym("Cert", s), after_cert.clone()]);
    let anon = Seq(vec![sym("CH0", c), sym("SH", s), sym("SKE", s), sym("SHD", s), client0]);
    let tls13 = Seq(vec![sym("CH0", c), sym("SH13", s), tail.clone()]);
    let resume = Seq(vec![
        sym("CH1", c),
        Star(Box::new(sym("CCS", c))),
        sym("SH", s),
        Alt(vec![
            Seq(vec![sym("CCS", None), tail]),
            Seq(vec![sym("Cert", s), after_cert]),
        ]),
    ]);
    Alt(vec![full, anon, tls13, resume])
}

/// Thompson NFA: state 0 = start, `fin` = accepting.
pub struct Nfa {
    pub eps: Vec<Vec<usize>>,
    pub tr: Vec<Vec<(usize, Option<bool>, usize)>>,
    pub fin: usize,
}

impl Nfa {
    pub fn compile(re: &Re) -> Nfa {
        let mut n = Nfa {
            eps: vec![vec![]],
            tr: vec![vec![]],
            fin: 0,
        };
        let end = n.build(re, 0);
        n.fin = end;
        n
    }
    fn fresh(&mut self) -> usize {
        self.eps.push(vec![]);
        self.tr.push(vec![]);
        self.eps.len() - 1
    }
    /// build `re` starting at `from`, return its end state
    fn build(&mut self, re: &Re, from: usize) -> usize {
        match re {
            Re::Eps => from,
            Re::Sym(k, d) => {
                let t = self.fresh();
                self.tr[from].push((*k, *d, t));
                t
            }
            Re::Seq(v) => {
                let mut cur = from;
                for r in v {
                    cur = self.build(r, cur);
                }
                cur
            }
            Re::Alt(v) => {
                let end = self.fresh();
                for r in v {
                    let s = self.fresh();
                    self.eps[from].push(s);
                    let e = self.build(r, s);
                    self.eps[e].push(end);
                }
                end
            }
            Re::Star(r) => {
                let s = self.fresh();
                let end = self.fresh();
                self.eps[from].push(s);
                self.eps[from].push(end);
                let e = self.build(r, s);
                self.eps[e].push(s);
                self.eps[e].push(end);
                end
            }
            Re::Opt(r) => {
                let end = self.fresh();
                self.eps[from].push(end);
                let s = self.fresh();
                self.eps[from].push(s);
                let e = self.build(r, s);
                self.eps[e].push(end);
                end
            }
        }
    }
    pub fn closure(&self, set: &mut Vec<usize>) {
        let mut stack = set.clone();
        while let Some(s) = stack.pop() {
            for &t in &self.eps[s] {
                if !set.contains(&t) {
                    set.push(t);
                    stack.push(t);
                }
            }
        }
        set.sort();
        set.dedup();
    }
    pub fn start(&self) -> Vec<usize> {
        let mut s = vec![0];
        self.closure(&mut s);
        s
    }
    pub fn step(&self, set: &[usize], k: usize, dir: bool) -> Vec<usize> {
        let mut out = Vec::new();
        for &s in set {
            for &(kk, d, t) in &self.tr[s] {
                if kk == k && d.map_or(true, |d| d == dir) && !out.contains(&t) {
                    out.push(t);
                }
            }
        }
        self.closure(&mut out);
        out
    }
}

/// Specification automaton state for the flow language with the global insertion rules.
#[derive(Clone, PartialEq, Eq, Hash, Debug, PartialOrd, Ord)]
pub struct Spec {
    /// after a fatal alert or a completed flow: every letter is accepted
    pub done: bool,
    /// at least one flow letter consumed (HelloRequest is only refused before that)
    pub started: bool,
    pub set: Vec<usize>,
}

impl Spec {
    pub fn init(n: &Nfa) -> Spec {
        Spec {
            done: false,
            started: false,
            set: n.start(),
        }
    }
    /// `None` = the specification rejects this letter here
    pub fn step(&self, n: &Nfa, k: usize, dir: bool) -> Option<Spec> {
        if self.done {
            return Some(self.clone());
        }
        let kn = KINDS[k];
        if kn == "AlertWarning" {
            return Some(self.clone());
        }
        if kn == "AlertOther" {
            let mut s = self.clone();
            s.done = true;
            return Some(s);
        }
        if kn == "HReq" {
            return if self.started { Some(self.clone()) } else { None };
        }
        let next = n.step(&self.set, k, dir);
        if next.is_empty() {
            return None;
        }
        let done = next.contains(&n.fin);
        Some(Spec {
            done,
            started: true,
            set: next,
        })
    }
}

/// Self-check of the two reference artefacts against each other: the table (from state None) and
/// the flow automaton must define the same language. Returns (product states, transitions) or the
/// shortest distinguishing sequence.
pub fn table_vs_flows() -> Result<(usize, usize), String> {
    use std::collections::{HashSet, VecDeque};
    let nfa = Nfa::compile(&flows());
    let mut seen: HashSet<(usize, Spec)> = HashSet::new();
    let mut q: VecDeque<((usize, Spec), Vec<(usize, bool)>)> = VecDeque::new();
    let init = (st("None"), Spec::init(&nfa));
    seen.insert(init.clone());
    q.push_back((init, vec![]));
    let mut trans = 0;
    while let Some(((s, sp), hist)) = q.pop_front() {
        for k in 0..KINDS.len() {
            for dir in [true, false] {
                trans += 1;
                let a = ref_step(s, k, dir);
                let b = sp.step(&nfa, k, dir);
                let mut h = hist.clone();
                h.push((k, dir));
                match (a, b) {
                    (Ok(ns), Some(nsp)) => {
                        // "done" must coincide with having reached an absorbing/terminal state
                        let absorbing = ["SessionEncrypted", "Finished", "Invalid"].contains(&STATES[ns]);
                        if absorbing != nsp.done {
                            return Err(format!("table/flow disagree on completion after {:?}", fmt_hist(&h)));
                        }
                        let key = (ns, nsp);
                        if seen.insert(key.clone()) {
                            q.push_back((key, h));
                        }
                    }
                    (Err(()), None) => {}
                    (Ok(_), None) => return Err(format!("table accepts, flows reject: {:?}", fmt_hist(&h))),
                    (Err(()), Some(_)) => return Err(format!("flows accept, table rejects: {:?}", fmt_hist(&h))),
                }
            }
        }
    }
    Ok((seen.len(), trans))
}

pub fn fmt_hist(h: &[(usize, bool)]) -> Vec<String> {
    h.iter()
        .map(|(k, d)| format!("{},{}", KINDS[*k], if *d { "C" } else { "S" }))
        .collect()
}

#[cfg(test)]
mod tests {
    #[test]
    fn table_and_flows_agree() {
        let r = super::table_vs_flows();
        assert!(r.is_ok(), "{:?}", r);
    }
}
