//! Reference models: plain Rust, no nom, nothing shared with the crate under test.
pub mod states;
pub mod iana;
pub mod ciphers;
pub mod wire;
