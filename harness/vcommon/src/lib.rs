//! Parts of the verification harness that do not depend on /repo (never rebuilt when it changes).
pub mod en;
pub mod iso;
pub mod report;
pub mod v;
pub mod reference;
pub mod catalogue;
