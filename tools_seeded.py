#!/usr/bin/env python3
"""Evaluate the seeded property-breaking changes under /verif/seeded/<name>/.

For each seeded change (patch.diff + demo + meta.json):
  verify   (scratch worktree under /tmp): the patched crate compiles, the existing suite passes with
           it, the demonstration fails with it and passes without it;
  detect   (on /repo itself): apply the patch, run the owning check's quick command twice (must exit 1
           with a VIOLATION line both times) and every other check once, then undo the patch.
Results are written to /verif/seeded/RESULTS.md and per change to seeded/<name>/result.json.

usage: tools_seeded.py [verify|detect|all] [name ...]
"""
import json, os, subprocess, sys, shutil, time

SEEDED = "/verif/seeded"
ALL = ["C%02d" % i for i in range(1, 19)]
ENV = dict(os.environ, CARGO_NET_OFFLINE="true")


def sh(cmd, cwd=None, timeout=3600):
    p = subprocess.run(cmd, shell=True, cwd=cwd, env=ENV, capture_output=True, text=True, timeout=timeout)
    return p.returncode, p.stdout + p.stderr


def names(args):
    if args:
        return args
    return sorted(d for d in os.listdir(SEEDED) if os.path.isfile(f"{SEEDED}/{d}/patch.diff"))


def verify(name):
    d = f"{SEEDED}/{name}"
    meta = json.load(open(f"{d}/meta.json"))
    wt = f"/tmp/seedverify-{name}"
    sh(f"git -C /repo worktree remove --force {wt}")
    shutil.rmtree(wt, ignore_errors=True)
    rc, out = sh(f"git -C /repo worktree add -q --detach {wt} HEAD")
    assert rc == 0, out
    res = {}
    try:
        demo = meta.get("demo", "seed_demo.rs")
        flags = meta.get("demo_cargo_flags", "")
        if demo.endswith(".rs"):
            shutil.copy(f"{d}/{demo}", f"{wt}/tests/seed_demo.rs")
            democmd = f"cargo test --offline {flags} --test seed_demo"
        else:
            shutil.copy(f"{d}/{demo}", f"{wt}/{demo}")
            democmd = f"bash ./{demo}"
        rc0, o0 = sh(democmd, cwd=wt)
        res["demo_without_change"] = "pass" if rc0 == 0 else "FAIL"
        rc, out = sh(f"git apply {d}/patch.diff", cwd=wt)
        res["patch_applies"] = rc == 0
        # the existing suite, i.e. without the demonstration file
        demofile = f"{wt}/tests/seed_demo.rs" if demo.endswith(".rs") else f"{wt}/{demo}"
        os.rename(demofile, demofile + ".aside")
        rc1, o1 = sh("cargo test --workspace --no-fail-fast --offline", cwd=wt)
        res["existing_suite_with_change"] = "pass" if rc1 == 0 else "FAIL"
        os.rename(demofile + ".aside", demofile)
        rc2, o2 = sh(democmd, cwd=wt)
        res["demo_with_change"] = "fail" if rc2 != 0 else "PASSES(!)"
        res["verified"] = rc0 == 0 and rc == 0 and rc1 == 0 and rc2 != 0
        if not res["verified"]:
            res["log_tail"] = (o0[-600:] + "\n---\n" + o1[-600:] + "\n---\n" + o2[-600:])
    finally:
        sh(f"git -C /repo worktree remove --force {wt}")
        shutil.rmtree(wt, ignore_errors=True)
    return res


def detect(name):
    d = f"{SEEDED}/{name}"
    meta = json.load(open(f"{d}/meta.json"))
    owner = meta["property"]
    rc, out = sh("git -C /repo status --porcelain --untracked-files=no")
    assert out.strip() == "", "/repo has local modifications: " + out
    rc, out = sh(f"git -C /repo apply {d}/patch.diff")
    assert rc == 0, out
    res = {"owner": owner, "checks": {}}
    try:
        owner_only = os.environ.get("SEED_OWNER_ONLY") == "1"
        order = [owner] + ([] if owner_only else [c for c in ALL if c != owner])
        for c in order:
            runs = 2 if c == owner else 1
            outs = []
            for _ in range(runs):
                t = time.time()
                rc, out = sh(f"/verif/check {c} --tier quick", cwd="/verif")
                viol = [l for l in out.splitlines() if l.startswith("VIOLATION")]
                first = next((l.strip() for l in out.splitlines() if l.strip().startswith("violation:")), "")
                outs.append({"exit": rc, "violations": len(viol), "first": first[:300], "wall_s": round(time.time() - t, 1)})
            res["checks"][c] = outs
        o = res["checks"][owner]
        res["owner_detects"] = all(x["exit"] == 1 and x["violations"] > 0 for x in o)
        res["same_first_witness"] = len(set(x["first"] for x in o)) == 1
        if owner_only:
            # keep what an earlier full pass recorded about the other checks
            prev = {}
            try:
                prev = json.load(open(f"{d}/result.json")).get("detect", {})
            except Exception:
                pass
            res["others_detecting"] = prev.get("others_detecting", [])
            res["others_from_earlier_pass"] = True
            for c, v in prev.get("checks", {}).items():
                if c != owner:
                    res["checks"][c] = v
        else:
            res["others_detecting"] = [c for c in ALL if c != owner and res["checks"][c][0]["exit"] == 1]
        res["machinery_errors"] = [c for c in res["checks"] if any(x["exit"] not in (0, 1) for x in res["checks"][c])]
    finally:
        sh("git -C /repo checkout -- .")
        rc, out = sh("git -C /repo status --porcelain --untracked-files=no")
        assert out.strip() == "", out
        # the checks rewrote the evidence files while the patch was applied: put the committed ones back
        sh("git -C /verif checkout -- evidence")
    return res


def main():
    mode = sys.argv[1] if len(sys.argv) > 1 else "all"
    for name in names(sys.argv[2:]):
        d = f"{SEEDED}/{name}"
        rp = f"{d}/result.json"
        result = json.load(open(rp)) if os.path.exists(rp) else {}
        if mode in ("verify", "all"):
            result["verify"] = verify(name)
            print(name, "verify:", {k: v for k, v in result["verify"].items() if k != "log_tail"}, flush=True)
        if mode in ("detect", "all"):
            result["detect"] = detect(name)
            r = result["detect"]
            print(name, "detect: owner", r["owner"], "detects" if r["owner_detects"] else "MISSES", "| others:", r["others_detecting"], "| machinery errors:", r["machinery_errors"], flush=True)
        json.dump(result, open(rp, "w"), indent=1)
    # summary table
    rows = []
    for name in names([]):
        rp = f"{SEEDED}/{name}/result.json"
        if not os.path.exists(rp):
            continue
        r = json.load(open(rp))
        meta = json.load(open(f"{SEEDED}/{name}/meta.json"))
        v, dt = r.get("verify", {}), r.get("detect", {})
        first = dt.get("checks", {}).get(meta["property"], [{}])[0].get("first", "")
        rows.append(f"| {name} | {meta['property']} | {meta.get('summary','')} | {'yes' if v.get('verified') else 'NO'} | {'**yes** (2/2 runs)' if dt.get('owner_detects') else '**NO**'} | {', '.join(dt.get('others_detecting', [])) or '-'} | {first[:160].replace('|','/')} |")
    with open(f"{SEEDED}/RESULTS.md", "w") as f:
        f.write("# Seeded property-breaking changes: verification and detection\n\n")
        f.write("Produced by independent sub-agents that saw only the property text and a scratch worktree (nothing from /verif).\n")
        f.write("`verified` = patch applies, existing suite passes with it, demonstration fails with it and passes without it (checked in a scratch worktree).\n")
        f.write("`detected` = the owning check's quick command exits 1 with a VIOLATION line on two consecutive runs with the patch applied to /repo (undone afterwards); this column was recomputed for all changes with the final harness.\n")
        f.write("`other checks` comes from the last pass in which all 18 checks were run against the change (rounds a-d: an earlier harness; rounds e-i: owning check only, column empty).\n")
        f.write("Rounds: a-c sub-agents saw only the property; d-i were also told the earlier changes and a description of the checker's generators (prompts: PROMPT-round*.txt).\n\n")
        f.write("| change | property | what it does | verified | detected by owning check | other checks that also fire | first violation printed |\n|---|---|---|---|---|---|---|\n")
        f.write("\n".join(rows) + "\n")
    print(open(f"{SEEDED}/RESULTS.md").read())


if __name__ == "__main__":
    main()
