#!/usr/bin/env python3
"""usage: tools_cross.py <CHECK> <seed> [<seed> ...]: run one check's quick command with each seeded patch applied to /repo."""
import subprocess, sys
chk=sys.argv[1]
for name in sys.argv[2:]:
    assert subprocess.run("git -C /repo status --porcelain --untracked-files=no",shell=True,capture_output=True,text=True).stdout.strip()==""
    subprocess.run(f"git -C /repo apply /verif/seeded/{name}/patch.diff",shell=True,check=True)
    try:
        p=subprocess.run(f"/verif/check {chk} --tier quick",shell=True,capture_output=True,text=True,cwd="/verif")
        first=next((l.strip() for l in p.stdout.splitlines() if l.strip().startswith("violation:")),"")
        print(name, chk, "exit", p.returncode, first[:260], flush=True)
    finally:
        subprocess.run("git -C /repo checkout -- .",shell=True,check=True)
